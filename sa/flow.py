"""
Helpers shared by the path rules: what a CFG node reads/writes, set-valued
forward analysis, cached per-function artefacts.
"""
import ast
from typing import Any, Callable, Dict, FrozenSet, Iterable, Iterator, List, Optional, Set, Tuple

from .cfg import CFG, Node, forward_dataflow
from .model import FuncInfo, dotted_of


def node_exprs(node: Node) -> List[ast.AST]:
    """The AST pieces that *this* CFG node evaluates."""
    k = node.kind
    if k == "test":
        return [node.expr] if node.expr is not None else []
    if k == "for":
        s = node.stmt
        return [s.iter, s.target]  # type: ignore[union-attr]
    if k == "with":
        out: List[ast.AST] = []
        for item in node.stmt.items:  # type: ignore[union-attr]
            out.append(item.context_expr)
            if item.optional_vars is not None:
                out.append(item.optional_vars)
        return out
    if k in ("return", "raise"):
        return [node.expr] if node.expr is not None else []
    if k == "abort":
        if isinstance(node.stmt, ast.Assert):
            return [node.stmt.msg] if node.stmt.msg is not None else []
        return [node.stmt] if node.stmt is not None else []
    if k == "handler":
        return []
    if k == "def":
        # default values / decorators are evaluated here; the body is not
        s = node.stmt
        out = []
        if isinstance(s, (ast.FunctionDef, ast.AsyncFunctionDef)):
            out.extend(s.decorator_list)
            out.extend(d for d in s.args.defaults if d is not None)
            out.extend(d for d in s.args.kw_defaults if d is not None)
        return out
    if k == "stmt":
        return [node.stmt] if node.stmt is not None else []
    return []


def _walk(n: ast.AST) -> Iterator[ast.AST]:
    yield n
    if isinstance(n, (ast.FunctionDef, ast.AsyncFunctionDef, ast.ClassDef)):
        # closures: names loaded inside nested defs count as reads at the def
        for c in ast.iter_child_nodes(n):
            yield from _walk(c)
        return
    for c in ast.iter_child_nodes(n):
        yield from _walk(c)


def loads(node: Node) -> Set[str]:
    out: Set[str] = set()
    for e in node_exprs(node):
        for n in _walk(e):
            if isinstance(n, ast.Name) and isinstance(n.ctx, ast.Load):
                out.add(n.id)
    if node.kind == "def" and node.stmt is not None:
        # free variables of the nested function are potential reads
        for n in ast.walk(node.stmt):
            if isinstance(n, ast.Name) and isinstance(n.ctx, ast.Load):
                out.add(n.id)
    return out


def stores(node: Node) -> Set[str]:
    out: Set[str] = set()
    if node.kind == "handler" and isinstance(node.stmt, ast.ExceptHandler) and node.stmt.name:
        out.add(node.stmt.name)
    if node.kind == "def" and node.stmt is not None:
        out.add(node.stmt.name)  # type: ignore[union-attr]
        return out
    for e in node_exprs(node):
        for n in _walk(e):
            if isinstance(n, ast.Name) and isinstance(n.ctx, (ast.Store, ast.Del)):
                out.add(n.id)
    return out


def calls_in(node: Node) -> List[ast.Call]:
    out: List[ast.Call] = []
    for e in node_exprs(node):
        for n in _walk(e):
            if isinstance(n, ast.Call):
                out.append(n)
    return out


def set_dataflow(
    cfg: CFG,
    init: FrozenSet[Any],
    transfer: Callable[[Node, Any], Iterable[Any]],
    edge: Optional[Callable[[Node, Any, Any], Optional[Any]]] = None,
) -> Dict[int, FrozenSet[Any]]:
    """
    Forward analysis over sets of abstract states (disjunctive completion):
    ``transfer(node, state)`` yields successor states, ``edge(node, state,
    label)`` refines / kills (returns None) a state along an out-edge.
    """

    def tr(node: Node, ins: FrozenSet[Any]) -> FrozenSet[Any]:
        out: Set[Any] = set()
        for s in ins:
            out.update(transfer(node, s))
        return frozenset(out)

    def et(node: Node, outs: FrozenSet[Any], label: Any, dst: Node):
        if edge is None:
            return outs
        res: Set[Any] = set()
        for s in outs:
            r = edge(node, s, label)
            if r is not None:
                res.add(r)
        if not res:
            return None
        return frozenset(res)

    return forward_dataflow(
        cfg, init, tr, et, lambda a, b: a | b, lambda a, b: a == b
    )


class FuncArtefacts:
    """CFG and type environment of one function, built once."""

    def __init__(self, typer, f: FuncInfo):
        from .types import FuncTypes

        self.f = f
        self.cfg = CFG(f.node)
        self.types = FuncTypes(typer, f)
        self.types.build()
        self._env_cache: Dict[int, Dict[str, Any]] = {}
        self._stmt_of: Optional[Dict[int, ast.stmt]] = None

    def env_at(self, node: Node) -> Dict[str, Any]:
        """Type env valid at the CFG node (env before its statement; for branch
        atoms of an ``if``: the env before the ``if``)."""
        s = node.stmt
        if isinstance(s, ast.ExceptHandler):
            return {}
        if s is None:
            return self.types.env_at_entry()
        return self.types.env_for(s)  # type: ignore[arg-type]


_ART: Dict[Tuple[int, str], FuncArtefacts] = {}


def artefacts(typer, f: FuncInfo) -> FuncArtefacts:
    key = (id(typer), f.key)
    a = _ART.get(key)
    if a is None or a.f is not f:
        a = FuncArtefacts(typer, f)
        _ART[key] = a
    return a


def flag_states(cfg: CFG, flag: str) -> Dict[int, FrozenSet[str]]:
    """
    For a boolean local/parameter ``flag``: per node, the set of last observed
    truth values ('T', 'F', '?') over all paths reaching the node.  A node is
    control-dependent on ``flag`` being true iff its set is {'T'}.
    """

    def transfer(node: Node, st: str):
        if flag in stores(node):
            return ["?"]
        return [st]

    def edge(node: Node, st: str, label):
        if node.kind == "test" and isinstance(node.expr, ast.Name) and node.expr.id == flag and label in (True, False):
            if st == "T" and label is False:
                return None
            if st == "F" and label is True:
                return None
            return "T" if label else "F"
        return st

    return set_dataflow(cfg, frozenset(["?"]), transfer, edge)


def find_calls(func_node: ast.AST, pred) -> List[ast.Call]:
    out = []
    for n in ast.walk(func_node):
        if isinstance(n, ast.Call) and pred(n):
            out.append(n)
    return out


def kwarg(call: ast.Call, name: str, pos: Optional[int] = None) -> Optional[ast.expr]:
    for kw in call.keywords:
        if kw.arg == name:
            return kw.value
    if pos is not None and len(call.args) > pos:
        return call.args[pos]
    return None
