"""
Command line: ``python -m sa.cli check C01 --tier quick`` (cwd /verif).

exit 0: every instance holds or is a listed known finding
exit 1: ``VIOLATION property=<id> replay=<path>`` printed for each unlisted one
exit 2: ``ANALYSIS-ERROR``: anchor vanished / floor not reached / analyser bug
"""
import argparse
import importlib
import json
import os
import sys
import traceback

from .model import Program, AnalysisError
from .types import Typer
from .report import Ctx


def run_check(prop: str, tier: str, overlay=None, overlay_text=None, quiet: bool = False) -> int:
    import time

    t0 = time.time()
    program = Program(overlay=overlay, overlay_text=overlay_text)
    typer = Typer(program)
    ctx = Ctx(prop, tier, program, typer)
    ctx.t0 = t0
    mod = importlib.import_module(f"sa.props.{prop.lower()}")
    mod.run(ctx)
    return ctx.finish()


def main(argv=None) -> int:
    ap = argparse.ArgumentParser(prog="sa")
    sub = ap.add_subparsers(dest="cmd", required=True)
    c = sub.add_parser("check")
    c.add_argument("prop")
    c.add_argument("--tier", default=os.environ.get("VERIF_TIER", "quick"), choices=["quick", "thorough"])
    c.add_argument("--overlay", action="append", default=[], help="relpath=scratch file")
    e = sub.add_parser("explain")
    e.add_argument("path")
    args = ap.parse_args(argv)
    try:
        if args.cmd == "check":
            overlay = dict(o.split("=", 1) for o in args.overlay)
            rc = run_check(args.prop, args.tier, overlay=overlay)
            if rc == 0 and args.tier == "thorough":
                from . import selftest

                rc = selftest.run_for(args.prop)
            return rc
        if args.cmd == "explain":
            data = json.loads(open(args.path).read())
            print(json.dumps(data, indent=1))
            prop = data["property"]
            print(f"--- re-running {prop} on the current tree; the construct above is reported iff it still fails ---")
            rc = run_check(prop, "quick")
            return rc
    except AnalysisError as exc:
        print(f"ANALYSIS-ERROR {exc}")
        return 2
    except Exception:  # noqa
        traceback.print_exc()
        print("ANALYSIS-ERROR analyser raised (see traceback)")
        return 2
    return 0


if __name__ == "__main__":
    sys.exit(main())
