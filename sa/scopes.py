"""Module scopes shared by the property bindings."""
from typing import Iterator, List

from .model import Program, FuncInfo, Module, PKG

TARGETS = ["cpp", "csharp", "golang", "java", "jsonschema", "python", "typescript", "xsd"]
SDK_TARGETS = ["cpp", "csharp", "golang", "java", "python", "typescript"]


def in_front_end(m: Module) -> bool:
    n = m.name
    return (
        n in (f"{PKG}.run", f"{PKG}.main", f"{PKG}.common", f"{PKG}.specific_implementations")
        or n.startswith(f"{PKG}.parse")
        or n.startswith(f"{PKG}.intermediate")
    )


def in_generators(m: Module) -> bool:
    n = m.name
    return (
        any(n == f"{PKG}.{t}" or n.startswith(f"{PKG}.{t}.") for t in TARGETS)
        or n.startswith(f"{PKG}.infer_for_schema")
        or n.startswith(f"{PKG}.smoke")
        or n.startswith(f"{PKG}.yielding")
        or n in (f"{PKG}.naming", f"{PKG}.stringify")
    )


def funcs(p: Program, pred) -> Iterator[FuncInfo]:
    for m in p.modules.values():
        if pred(m):
            yield from m.functions.values()


def execute_functions(p: Program) -> List[FuncInfo]:
    out = [p.func("main:execute"), p.func("smoke.main:execute")]
    for t in TARGETS:
        out.append(p.func(f"{t}.main:execute"))
    return out
