"""
G-IDX: guarded constant index (DESIGN §3).

``X[k]`` / ``X[-k]`` with constant ``k`` on a list whose length the input
controls is dominated by *established* branch facts implying ``len(X) > k``.
Facts come from ``if``/``while`` conditions (not from ``assert``: an assert is a
belief whose failure is itself a crash), from the ``matches()`` method of the
same ``_Parse*`` rule class, from an enclosing conditional expression, and from
lengths the Python grammar guarantees (frozen table).
"""
import ast
from typing import Any, Dict, List, Optional, Set, Tuple

from ..cfg import Node, forward_dataflow
from ..flow import artefacts, node_exprs, stores
from ..model import FuncInfo, dotted_of, norm, short
from ..types import Ext, strip_opt

LIST_ATTRS = {
    "args", "keywords", "elts", "body", "targets", "ops", "comparators", "values",
    "generators", "decorator_list", "bases", "names", "handlers", "orelse", "items",
    "ifs", "uniates", "concatenants", "ranges", "children",
}

# Lengths guaranteed by the Python grammar / ast constructor (trusted base).
GRAMMAR_MIN = {
    ("ast.Compare", "ops"): 1,
    ("ast.Compare", "comparators"): 1,
    ("ast.BoolOp", "values"): 2,
    ("ast.Assign", "targets"): 1,
    ("ast.FunctionDef", "body"): 1,
    ("ast.ClassDef", "body"): 1,
    ("ast.GeneratorExp", "generators"): 1,
    ("ast.ListComp", "generators"): 1,
    ("ast.SetComp", "generators"): 1,
    ("ast.DictComp", "generators"): 1,
    ("ast.Lambda", "body"): 0,
}


def _const_int(e: ast.AST) -> Optional[int]:
    if isinstance(e, ast.Constant) and isinstance(e.value, int) and not isinstance(e.value, bool):
        return e.value
    if isinstance(e, ast.UnaryOp) and isinstance(e.op, ast.USub):
        v = _const_int(e.operand)
        return -v if v is not None else None
    return None


def _len_arg(e: ast.AST) -> Optional[str]:
    if isinstance(e, ast.Call) and dotted_of(e.func) == "len" and len(e.args) == 1 and not e.keywords:
        return norm(e.args[0])
    return None


def atom_facts(expr: ast.AST, truth: bool) -> Dict[str, int]:
    """Lower bounds on ``len(key)`` implied by ``expr`` having value ``truth``."""
    out: Dict[str, int] = {}
    if isinstance(expr, ast.Compare) and len(expr.ops) == 1:
        l, op, r = expr.left, expr.ops[0], expr.comparators[0]
        key, k, flipped = None, None, False
        if _len_arg(l) is not None and _const_int(r) is not None:
            key, k = _len_arg(l), _const_int(r)
        elif _len_arg(r) is not None and _const_int(l) is not None:
            key, k, flipped = _len_arg(r), _const_int(l), True
        if key is not None and k is not None:
            opn = type(op).__name__
            if flipped:
                opn = {"Lt": "Gt", "Gt": "Lt", "LtE": "GtE", "GtE": "LtE"}.get(opn, opn)
            lb = None
            if truth:
                lb = {"Eq": k, "Gt": k + 1, "GtE": k, "NotEq": 1 if k == 0 else None}.get(opn)
            else:
                lb = {"NotEq": k, "Lt": k, "LtE": k + 1, "Eq": 1 if k == 0 else None}.get(opn)
            if lb is not None and lb > 0:
                out[key] = lb
        if key is None and isinstance(op, ast.In) and _len_arg(l) is not None and truth:
            if isinstance(r, (ast.Tuple, ast.List, ast.Set)):
                ks = [_const_int(e) for e in r.elts]
                if ks and all(x is not None for x in ks) and min(ks) > 0:  # type: ignore[type-var]
                    out[_len_arg(l)] = min(ks)  # type: ignore[index,type-var]
    elif truth and isinstance(expr, (ast.Name, ast.Attribute)):
        # truthiness of a list
        out[norm(expr)] = 1
    return out


def expr_facts(expr: ast.AST, truth: bool) -> Dict[str, int]:
    """Facts implied by a (possibly composite) condition having value ``truth``."""
    if isinstance(expr, ast.UnaryOp) and isinstance(expr.op, ast.Not):
        return expr_facts(expr.operand, not truth)
    if isinstance(expr, ast.BoolOp):
        if (isinstance(expr.op, ast.And) and truth) or (isinstance(expr.op, ast.Or) and not truth):
            out: Dict[str, int] = {}
            for v in expr.values:
                for k, lb in expr_facts(v, truth).items():
                    out[k] = max(out.get(k, 0), lb)
            return out
        return {}
    return atom_facts(expr, truth)


def _root(key: str) -> str:
    for i, ch in enumerate(key):
        if not (ch.isalnum() or ch == "_"):
            return key[:i]
    return key


def _join(a: Dict[str, int], b: Dict[str, int]) -> Dict[str, int]:
    return {k: min(a[k], b[k]) for k in a if k in b}


def len_facts(cfg, init: Optional[Dict[str, int]] = None) -> Dict[int, Dict[str, int]]:
    def transfer(node: Node, st: Dict[str, int]) -> Dict[str, int]:
        killed = stores(node)
        if killed:
            st = {k: v for k, v in st.items() if _root(k) not in killed}
        return st

    def edge(node: Node, st: Dict[str, int], label: Any, dst: Node):
        if node.kind == "test" and node.expr is not None and label in (True, False):
            if isinstance(node.owner, ast.Assert):
                return st
            add = atom_facts(node.expr, label)
            if add:
                st = dict(st)
                for k, lb in add.items():
                    st[k] = max(st.get(k, 0), lb)
        return st

    return forward_dataflow(cfg, dict(init or {}), transfer, edge, _join, lambda a, b: a == b)


def matches_facts(ctx, f: FuncInfo) -> Dict[str, int]:
    """Facts that hold whenever ``matches()`` returns a true value."""
    art = artefacts(ctx.ty, f)
    IN = len_facts(art.cfg)
    result: Optional[Dict[str, int]] = None
    for node in art.cfg.nodes:
        if node.kind != "return" or node.id not in IN:
            continue
        val = node.expr
        if isinstance(val, ast.Constant) and not val.value:
            continue
        facts = dict(IN[node.id])
        if val is not None and not isinstance(val, ast.Constant):
            for k, lb in expr_facts(val, True).items():
                facts[k] = max(facts.get(k, 0), lb)
        result = facts if result is None else _join(result, facts)
    return result or {}


def _sites(expr: ast.AST, local: Dict[str, int]):
    """Yield (Subscript, local facts) honouring conditional expressions and
    short-circuit operators inside one expression."""
    if isinstance(expr, ast.IfExp):
        yield from _sites(expr.test, local)
        t = dict(local)
        for k, lb in expr_facts(expr.test, True).items():
            t[k] = max(t.get(k, 0), lb)
        yield from _sites(expr.body, t)
        e = dict(local)
        for k, lb in expr_facts(expr.test, False).items():
            e[k] = max(e.get(k, 0), lb)
        yield from _sites(expr.orelse, e)
        return
    if isinstance(expr, ast.BoolOp):
        cur = dict(local)
        for v in expr.values:
            yield from _sites(v, cur)
            add = expr_facts(v, isinstance(expr.op, ast.And))
            for k, lb in add.items():
                cur[k] = max(cur.get(k, 0), lb)
        return
    if isinstance(expr, (ast.Lambda, ast.FunctionDef, ast.ClassDef)):
        return
    if isinstance(expr, ast.Subscript):
        yield expr, local
    for c in ast.iter_child_nodes(expr):
        yield from _sites(c, local)


def check_idx(ctx, f: FuncInfo, rule: str, init: Optional[Dict[str, int]] = None) -> None:
    art = artefacts(ctx.ty, f)
    cfg = art.cfg
    IN: Optional[Dict[int, Dict[str, int]]] = None
    for node in cfg.nodes:
        exprs = node_exprs(node)
        if not exprs:
            continue
        for e in exprs:
            if isinstance(e, (ast.FunctionDef, ast.AsyncFunctionDef, ast.ClassDef)):
                continue
            for sub, local in _sites(e, {}):
                k = _const_int(sub.slice)
                if k is None:
                    continue
                v = sub.value
                if not (isinstance(v, ast.Attribute) and v.attr in LIST_ATTRS):
                    continue
                if isinstance(sub.ctx, ast.Store):
                    continue
                if IN is None:
                    IN = len_facts(cfg, init)
                if node.id not in IN:
                    continue  # unreachable
                need = k + 1 if k >= 0 else -k
                key = norm(v)
                have = max(IN[node.id].get(key, 0), local.get(key, 0))
                # a loop over the same list establishes non-emptiness? no: not used
                if have < need:
                    # grammar guarantee
                    env = art.env_at(node)
                    bt = strip_opt(art.types.type_of(v.value, env))
                    if isinstance(bt, Ext):
                        g = GRAMMAR_MIN.get((bt.name, v.attr))
                        if g is not None:
                            have = max(have, g)
                what = f"{short(sub)} needs len({key}) >= {need}"
                if have >= need:
                    ctx.ok(rule, f, sub, what=what)
                else:
                    ctx.fail(
                        rule, f, sub,
                        f"`{short(sub)}` requires len({key}) >= {need} but the dominating conditions only establish >= {have}: "
                        f"an input with fewer elements raises IndexError",
                        construct=what,
                    )
