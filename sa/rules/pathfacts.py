"""
Path facts (DESIGN §2.6/§2.7): per CFG node, a *set* of states; each state is a
frozenset of facts established by the branch outcomes on the paths it stands
for.  Facts:
    (form, c)              difference constraint  form <= c   (sa/rules/lin.py)
    ("isnone", name)       name is None
    ("notnone", name)      name is not None
    ("dirty", acc)         an error was appended to the accumulator ``acc``
The **clean-path idiom** falls out of the disjunctive domain: a state that went
through ``acc.append(..)`` is dirty and is pruned on the False edge of
``len(acc) > 0`` (and on the True edge of ``len(acc) == 0``), so after the
bail-out only states remain in which none of the guarded appends happened.
``assert`` conditions contribute nothing (beliefs, not established facts).
"""
import ast
from typing import Any, Dict, FrozenSet, List, Optional, Set

from ..cfg import CFG, Node
from ..flow import set_dataflow, stores
from ..model import dotted_of
from . import lin
from .err import _emptiness_test, _mutation_kind


def _fact_names(fact) -> Set[str]:
    if isinstance(fact[0], str):
        return {fact[1].split(".")[0]}
    out = set()
    for sym, _ in fact[0]:
        s = sym
        if s.startswith("len(") and s.endswith(")"):
            s = s[4:-1]
        out.add(s.split(".")[0].split("[")[0])
    return out


def _rename(fact, old: str, new: str):
    if isinstance(fact[0], str):
        if fact[1] == old:
            return (fact[0], new)
        return None
    if not any(sym == old for sym, _ in fact[0]):
        return None
    form = tuple(sorted((new if sym == old else sym, k) for sym, k in fact[0]))
    return (form, fact[1])


def path_states(cfg: CFG, accumulators: Optional[Set[str]] = None, max_states: int = 256) -> Dict[int, FrozenSet[FrozenSet[Any]]]:
    accumulators = accumulators or set()

    def transfer(n: Node, st: FrozenSet[Any]):
        out = st
        for acc in accumulators:
            if _mutation_kind(n, acc) is not None:
                out = out | {("dirty", acc)}
        killed = stores(n)
        if killed:
            kept = set(x for x in out if x[0] == "dirty" or not (_fact_names(x) & killed))
            # simple copies ``x = y`` / constants
            s = n.stmt
            if n.kind == "stmt" and isinstance(s, (ast.Assign, ast.AnnAssign)) and getattr(s, "value", None) is not None:
                tgts = s.targets if isinstance(s, ast.Assign) else [s.target]
                if len(tgts) == 1 and isinstance(tgts[0], ast.Name):
                    x = tgts[0].id
                    v = s.value
                    if isinstance(v, ast.Constant) and v.value is None:
                        kept.add(("isnone", x))
                    elif isinstance(v, ast.Constant) and isinstance(v.value, int) and not isinstance(v.value, bool):
                        kept.add(("notnone", x))
                        kept.add((((x, 1),), v.value))
                        kept.add((((x, -1),), -v.value))
                    elif isinstance(v, ast.Name) and v.id != x:
                        for f in out:
                            if f[0] == "dirty":
                                continue
                            r = _rename(f, v.id, x)
                            if r is not None:
                                kept.add(r)
                        # x == y as two difference constraints
                        kept.add((tuple(sorted(((x, 1), (v.id, -1)))), 0))
                        kept.add((tuple(sorted(((x, -1), (v.id, 1)))), 0))
                    elif isinstance(v, (ast.List, ast.Dict, ast.Set, ast.Tuple, ast.JoinedStr)) or (isinstance(v, ast.Call) and dotted_of(v.func) in ("len",)):
                        kept.add(("notnone", x))
            out = frozenset(kept)
        return [out]

    def edge(n: Node, st: FrozenSet[Any], label):
        if n.kind != "test" or n.expr is None or label not in (True, False):
            return st
        if isinstance(n.owner, ast.Assert):
            return st
        e = n.expr
        # emptiness tests of accumulators prune dirty / clean states
        for acc in accumulators:
            r = _emptiness_test(e, acc)
            if r is not None:
                nonempty = (label == r)
                dirty = ("dirty", acc) in st
                if not nonempty and dirty:
                    return None
                return st
        add = set(lin.constraints_of(e, label))
        if isinstance(e, ast.Compare) and len(e.ops) == 1 and isinstance(e.comparators[0], ast.Constant) and e.comparators[0].value is None:
            d = dotted_of(e.left)
            if d is not None and isinstance(e.ops[0], (ast.Is, ast.IsNot)):
                is_none = isinstance(e.ops[0], ast.Is) == label
                if is_none and ("notnone", d) in st:
                    return None
                if not is_none and ("isnone", d) in st:
                    return None
                add.add(("isnone", d) if is_none else ("notnone", d))
        if isinstance(e, (ast.Name, ast.Attribute)) and dotted_of(e) is not None:
            # truthiness of an Optional: the False edge does not prove None (0, [] are falsy)
            if label:
                add.add(("notnone", dotted_of(e)))
        if add:
            # contradiction pruning on difference constraints: form <= c and -form <= c' with c + c' < 0
            new = st | frozenset(add)
            for f in add:
                if isinstance(f[0], tuple):
                    neg = tuple(sorted((s, -k) for s, k in f[0]))
                    for g in new:
                        if isinstance(g[0], tuple) and g[0] == neg and f[1] + g[1] < 0:
                            return None
            return new
        return st

    IN = set_dataflow(cfg, frozenset([frozenset()]), transfer, edge)
    return IN


def constraints_in(st: FrozenSet[Any]) -> List[Any]:
    return [x for x in st if isinstance(x[0], tuple)]
