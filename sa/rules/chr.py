"""
G-CHR: escaper analysis (DESIGN §2.8, §3).

A literal-producing function is abstractly interpreted with the *character
class* as the abstract value of its per-character variable.  The classes are the
partition of [0, 0x10FFFF] induced by every constant the function (and the
language specification) compares a character or code point with, so every
condition of the function is decidable on a class.  The result is, per class,
the emitted *template* (constant text, the raw character, or a numeric escape
``prefix + format(code_point, spec)``).  No character is ever run through the
function.

The templates are then judged against a per-language specification table
(trusted base; DESIGN Appendix B): characters that must not appear raw, the
constant escapes and the character each denotes, and the numeric escapes with
their digit-count rules (fixed width / greedy).
"""
import ast
from typing import Any, Dict, Iterable, List, Optional, Sequence, Set, Tuple

from ..model import AnalysisError, FuncInfo, Module, dotted_of, short, norm

MAXCP = 0x10FFFF

Outcome = Tuple[Tuple[str, ...], str, Any]  # (guards, kind, payload)


# ---------------------------------------------------------------------------
# constants of a module


def const_str_dict(ctx, module: Module, expr: ast.AST, _depth: int = 0) -> Optional[Dict[str, str]]:
    """Statically evaluate a dict display with ``**`` merges of other constants."""
    if _depth > 6:
        return None
    if isinstance(expr, ast.Name):
        r = ctx.p.resolve_expr_name(module, [expr.id])
        if r is not None and r[0] == "const":
            mod, name = r[1]
            return const_str_dict(ctx, mod, mod.constants[name], _depth + 1)
        return None
    if isinstance(expr, ast.Dict):
        out: Dict[str, str] = {}
        for k, v in zip(expr.keys, expr.values):
            if k is None:
                sub = const_str_dict(ctx, module, v, _depth + 1)
                if sub is None:
                    return None
                out.update(sub)
            elif isinstance(k, ast.Constant) and isinstance(v, ast.Constant) and isinstance(k.value, str) and isinstance(v.value, str):
                out[k.value] = v.value
            else:
                return None
        return out
    return None


# ---------------------------------------------------------------------------
# the interpreter


class Unknown:
    def __init__(self, text: str):
        self.text = text


CH = ("ch",)
CP = ("cp",)


class Interp:
    def __init__(self, ctx, f: FuncInfo, ch_var: str, modes: Dict[str, Any]):
        self.ctx = ctx
        self.f = f
        self.ch_var = ch_var
        self.modes = modes
        self.cp_vars: Set[str] = set()

    # -- collecting the partition --------------------------------------------
    def boundaries(self, nodes: Iterable[ast.AST], tables: Iterable[Dict[str, str]]) -> Set[int]:
        b: Set[int] = {0, MAXCP + 1}
        for t in tables:
            for k in t:
                if len(k) == 1:
                    b.update((ord(k), ord(k) + 1))
        for root in nodes:
            for n in ast.walk(root):
                if isinstance(n, ast.Constant):
                    if isinstance(n.value, str) and len(n.value) == 1:
                        b.update((ord(n.value), ord(n.value) + 1))
                    elif isinstance(n.value, int) and not isinstance(n.value, bool) and 0 <= n.value <= MAXCP:
                        b.update((n.value, n.value + 1))
        return b

    # -- evaluation ------------------------------------------------------------
    def ev(self, e: ast.AST, env: Dict[str, Any], cls: Tuple[int, int]) -> Any:
        if isinstance(e, ast.Constant):
            return ("const", e.value)
        if isinstance(e, ast.Name):
            if e.id == self.ch_var:
                return CH
            if e.id in self.cp_vars:
                return CP
            if e.id in env:
                return env[e.id]
            if e.id in self.modes:
                return ("const", self.modes[e.id])
            t = const_str_dict(self.ctx, self.f.module, e)
            if t is not None:
                return ("table", e.id, t)
            return Unknown(e.id)
        if isinstance(e, ast.Attribute):
            d = dotted_of(e)
            if d is not None:
                r = self.ctx.p.resolve_expr(self.f.module, e)
                if r is not None and r[0] == "classattr":
                    return ("const", f"{r[1][0].name}.{r[1][1]}")
            return Unknown(short(e))
        if isinstance(e, ast.Call):
            d = dotted_of(e.func)
            if d == "ord" and len(e.args) == 1 and self.ev(e.args[0], env, cls) == CH:
                return CP
            if d in ("Stripped", "str") and len(e.args) == 1:
                return self.ev(e.args[0], env, cls)
            if isinstance(e.func, ast.Attribute) and e.func.attr == "get" and e.args:
                tab = self.ev(e.func.value, env, cls)
                key = self.ev(e.args[0], env, cls)
                if isinstance(tab, tuple) and tab[0] == "table" and key == CH:
                    table = tab[2]
                    if cls[0] == cls[1] and chr(cls[0]) in table:
                        return ("const", table[chr(cls[0])])
                    if any(len(k) == 1 and cls[0] <= ord(k) <= cls[1] for k in table):
                        raise AnalysisError("G-CHR: a character class straddles a table key (partition bug)")
                    if len(e.args) > 1:
                        return self.ev(e.args[1], env, cls)
                    return ("const", None)
            if isinstance(e.func, ast.Attribute) and e.func.attr == "format" and isinstance(e.func.value, ast.Constant) and isinstance(e.func.value.value, str):
                fmt = e.func.value.value
                if fmt.count("{}") == 1 and len(e.args) == 1:
                    a, b = fmt.split("{}")
                    inner = self.ev(e.args[0], env, cls)
                    return ("tmpl", [("lit", a)] + self._pieces(inner) + [("lit", b)])
            if isinstance(e.func, ast.Attribute) and e.func.attr == "join" and len(e.args) == 1:
                inner = self.ev(e.args[0], env, cls)
                if isinstance(inner, tuple) and inner and inner[0] in ("body",):
                    return inner
                return Unknown(short(e))
            return Unknown(short(e))
        if isinstance(e, (ast.Tuple, ast.List, ast.Set)) and all(isinstance(x, ast.Constant) for x in e.elts):
            return ("consts", tuple(x.value for x in e.elts))
        if isinstance(e, ast.JoinedStr):
            pieces: List[Any] = []
            for v in e.values:
                if isinstance(v, ast.Constant):
                    pieces.append(("lit", str(v.value)))
                elif isinstance(v, ast.FormattedValue):
                    val = self.ev(v.value, env, cls)
                    spec = ""
                    if v.format_spec is not None:
                        if not all(isinstance(x, ast.Constant) for x in v.format_spec.values):
                            return Unknown(short(e))
                        spec = "".join(str(x.value) for x in v.format_spec.values)
                    if val == CH and not spec:
                        pieces.append(("raw",))
                    elif val == CH and spec and spec[-1] in "xXodb":
                        pieces.append(("num", spec))  # the loop variable is the number itself (bytes)
                    elif val == CP:
                        pieces.append(("num", spec))
                    elif isinstance(val, tuple) and val[0] == "const" and isinstance(val[1], str) and not spec:
                        pieces.append(("lit", val[1]))
                    elif isinstance(val, tuple) and val[0] in ("tmpl", "body"):
                        pieces.extend(self._pieces(val))
                    else:
                        return Unknown(short(e))
            return ("tmpl", pieces)
        if isinstance(e, ast.BinOp) and isinstance(e.op, ast.Add):
            l, r = self.ev(e.left, env, cls), self.ev(e.right, env, cls)
            if isinstance(l, Unknown) or isinstance(r, Unknown):
                return Unknown(short(e))
            return ("tmpl", self._pieces(l) + self._pieces(r))
        if isinstance(e, ast.IfExp):
            t = self.truth(e.test, env, cls)
            if t is True:
                return self.ev(e.body, env, cls)
            if t is False:
                return self.ev(e.orelse, env, cls)
            return Unknown(short(e))
        return Unknown(short(e))

    def _pieces(self, v: Any) -> List[Any]:
        if v == CH:
            return [("raw",)]
        if isinstance(v, tuple) and v[0] == "const" and isinstance(v[1], str):
            return [("lit", v[1])]
        if isinstance(v, tuple) and v[0] == "tmpl":
            return list(v[1])
        if isinstance(v, tuple) and v[0] == "body":
            return [("body",)]
        return [("unknown", getattr(v, "text", str(v)))]

    def truth(self, t: ast.AST, env: Dict[str, Any], cls: Tuple[int, int]) -> Optional[bool]:
        if isinstance(t, ast.UnaryOp) and isinstance(t.op, ast.Not):
            r = self.truth(t.operand, env, cls)
            return None if r is None else not r
        if isinstance(t, ast.BoolOp):
            rs = [self.truth(v, env, cls) for v in t.values]
            if isinstance(t.op, ast.And):
                if any(r is False for r in rs):
                    return False
                return True if all(r is True for r in rs) else None
            if any(r is True for r in rs):
                return True
            return False if all(r is False for r in rs) else None
        if isinstance(t, ast.Compare):
            vals = [t.left] + list(t.comparators)
            res: Optional[bool] = True
            for op, a, b in zip(t.ops, vals, vals[1:]):
                r = self._cmp(op, self.ev(a, env, cls), self.ev(b, env, cls), cls)
                if r is False:
                    return False
                if r is None:
                    res = None
            return res
        v = self.ev(t, env, cls)
        if isinstance(v, tuple) and v[0] == "const":
            return bool(v[1])
        return None

    def _cmp(self, op: ast.cmpop, a: Any, b: Any, cls: Tuple[int, int]) -> Optional[bool]:
        lo, hi = cls

        def as_num(x):
            if x == CP:
                return "cp"
            if isinstance(x, tuple) and x[0] == "const" and isinstance(x[1], int) and not isinstance(x[1], bool):
                return x[1]
            return None

        def as_char(x):
            if x == CH:
                return "ch"
            if isinstance(x, tuple) and x[0] == "const" and isinstance(x[1], str) and len(x[1]) == 1:
                return ord(x[1])
            return None

        if isinstance(op, (ast.Is, ast.IsNot, ast.Eq, ast.NotEq)) and isinstance(a, tuple) and isinstance(b, tuple) and a[0] == "const" and b[0] == "const":
            eq = a[1] is b[1] if isinstance(op, (ast.Is, ast.IsNot)) and (a[1] is None or b[1] is None) else a[1] == b[1]
            return eq if isinstance(op, (ast.Is, ast.Eq)) else not eq
        if isinstance(op, (ast.Is, ast.IsNot)) and isinstance(a, tuple) and isinstance(b, tuple) and a[0] == "table" and b[0] == "table":
            eq = a[1] == b[1]
            return eq if isinstance(op, ast.Is) else not eq
        if isinstance(op, (ast.Is, ast.IsNot)) and ((isinstance(a, tuple) and a[0] in ("tmpl", "table")) or a in (CH, CP)) and isinstance(b, tuple) and b[0] == "const" and b[1] is None:
            return isinstance(op, ast.IsNot)
        ca, cb = as_char(a), as_char(b)
        if ca is not None and cb is not None and isinstance(op, (ast.Eq, ast.NotEq)):
            if ca == "ch" and cb != "ch":
                eq = (lo == hi == cb)
                if not eq and lo <= cb <= hi:
                    raise AnalysisError("G-CHR: class straddles a compared character")
                return eq if isinstance(op, ast.Eq) else not eq
            if cb == "ch" and ca != "ch":
                eq = (lo == hi == ca)
                return eq if isinstance(op, ast.Eq) else not eq
        na, nb = as_num(a), as_num(b)
        if na is not None and nb is not None:
            def rng(x):
                return (lo, hi) if x == "cp" else (x, x)
            (alo, ahi), (blo, bhi) = rng(na), rng(nb)
            name = type(op).__name__
            tests = {
                "Lt": (ahi < blo, alo >= bhi), "LtE": (ahi <= blo, alo > bhi),
                "Gt": (alo > bhi, ahi <= blo), "GtE": (alo >= bhi, ahi < blo),
                "Eq": (alo == ahi == blo == bhi, ahi < blo or alo > bhi), "NotEq": (ahi < blo or alo > bhi, alo == ahi == blo == bhi),
            }
            if name in tests:
                yes, no = tests[name]
                if yes:
                    return True
                if no:
                    return False
                raise AnalysisError(f"G-CHR: class [{lo:#x},{hi:#x}] straddles a compared bound")
        if isinstance(op, (ast.In, ast.NotIn)) and a == CH:
            keys = None
            if isinstance(b, tuple) and b[0] == "table":
                keys = set(b[2].keys())
            if isinstance(b, tuple) and b[0] == "consts":
                keys = set(k for k in b[1] if isinstance(k, str))
            if keys is not None:
                inside = lo == hi and chr(lo) in keys
                return inside if isinstance(op, ast.In) else not inside
        return None

    # -- statements -------------------------------------------------------------
    def run(self, body: Sequence[ast.stmt], env: Dict[str, Any], cls: Tuple[int, int], out_var: Optional[str], guards: Tuple[str, ...] = ()) -> List[Tuple[Tuple[str, ...], List[Any], Optional[Tuple[str, Any]], Dict[str, Any]]]:
        """Return a list of paths: (guards, emitted pieces, terminal (kind, payload) or None, env)."""
        paths = [(guards, [], None, dict(env))]
        for s in body:
            new_paths = []
            for g, em, term, e in paths:
                if term is not None:
                    new_paths.append((g, em, term, e))
                    continue
                new_paths.extend(self._stmt(s, g, em, e, cls, out_var))
            paths = new_paths
            if len(paths) > 64:
                raise AnalysisError("G-CHR: too many paths through the per-character code")
        return paths

    def _stmt(self, s: ast.stmt, g, em, env, cls, out_var):
        if isinstance(s, ast.If):
            t = self.truth(s.test, env, cls)
            res = []
            if t is not False:
                gg = g if t is True else g + (norm(s.test),)
                for (g2, em2, term2, e2) in self.run(s.body, env, cls, out_var, gg):
                    res.append((g2, em + em2, term2, e2))
            if t is not True:
                gg = g if t is False else g + ("not (" + norm(s.test) + ")",)
                for (g2, em2, term2, e2) in self.run(s.orelse, env, cls, out_var, gg):
                    res.append((g2, em + em2, term2, e2))
            return res
        if isinstance(s, ast.Expr) and isinstance(s.value, ast.Call) and isinstance(s.value.func, ast.Attribute) and s.value.func.attr in ("append", "write") and len(s.value.args) == 1:
            v = self.ev(s.value.args[0], env, cls)
            return [(g, em + self._pieces(v), None, env)]
        if isinstance(s, (ast.Assign, ast.AnnAssign)) and getattr(s, "value", None) is not None:
            tgts = s.targets if isinstance(s, ast.Assign) else [s.target]
            if len(tgts) == 1 and isinstance(tgts[0], ast.Name):
                v = self.ev(s.value, env, cls)
                if v == CP:
                    self.cp_vars.add(tgts[0].id)
                    return [(g, em, None, env)]
                e2 = dict(env)
                e2[tgts[0].id] = v
                return [(g, em, None, e2)]
            return [(g, em, None, env)]
        if isinstance(s, ast.AnnAssign):
            return [(g, em, None, env)]
        if isinstance(s, ast.Return):
            v = self.ev(s.value, env, cls) if s.value is not None else ("const", None)
            return [(g, em, ("return", v), env)]
        if isinstance(s, ast.Raise):
            exc = s.exc.func if isinstance(s.exc, ast.Call) else s.exc
            return [(g, em, ("raise", dotted_of(exc) if exc is not None else "?"), env)]
        if isinstance(s, ast.Continue):
            return [(g, em, ("continue", None), env)]
        if isinstance(s, (ast.Pass, ast.Assert)) or (isinstance(s, ast.Expr) and isinstance(s.value, ast.Constant)):
            return [(g, em, None, env)]
        if isinstance(s, ast.Expr):
            return [(g, em, None, env)]
        raise AnalysisError(f"G-CHR: cannot interpret `{short(s)}` in {self.f.qualname}")


# ---------------------------------------------------------------------------
# extraction of the per-character partition of one function


class Partition:
    def __init__(self, f: FuncInfo, mode: Dict[str, Any], delim_prefix: str, delim_suffix: str):
        self.f = f
        self.mode = mode
        self.prefix = delim_prefix
        self.suffix = delim_suffix
        # list of ((lo, hi), guards, kind, payload) ; kind in emit/raise/return
        self.rows: List[Tuple[Tuple[int, int], Tuple[str, ...], str, Any]] = []


def _merge_rows(rows):
    """Merge adjacent classes with identical behaviour."""
    rows = sorted(rows, key=lambda r: (r[1], r[2], repr(r[3]), r[0]))
    out = []
    for r in sorted(rows, key=lambda r: r[0]):
        out.append(r)
    merged: List[Any] = []
    for r in out:
        if merged and merged[-1][1:] == r[1:] and merged[-1][0][1] + 1 == r[0][0]:
            merged[-1] = ((merged[-1][0][0], r[0][1]),) + tuple(r[1:])
        else:
            merged.append(r)
    return merged


def analyse_escaper(ctx, f: FuncInfo, modes: Dict[str, Any], extra_boundaries: Iterable[int] = (), max_value: int = MAXCP) -> List[Partition]:
    """Interpret ``f`` under the parameter assignment ``modes``; one Partition per
    pre-loop path (e.g. Python's choice of quoting)."""
    node = f.node
    body = list(node.body)
    if body and isinstance(body[0], ast.Expr) and isinstance(body[0].value, ast.Constant):
        body = body[1:]
    # find the per-character construct
    loop_idx = None
    ch_var = None
    kind = None
    for i, s in enumerate(body):
        if isinstance(s, ast.For) and isinstance(s.target, ast.Name) and isinstance(s.iter, ast.Name):
            loop_idx, ch_var, kind = i, s.target.id, "for"
            break
        comp = _join_comprehension(s)
        if comp is not None:
            loop_idx, ch_var, kind = i, comp.generators[0].target.id, "comp"
            break
        w = _char_while(s)
        if w is not None:
            loop_idx, ch_var, kind = i, w[1], "while"
            break
    single = False
    if loop_idx is None:
        # single-character function: the parameter is the character
        params = [p for p in f.param_names() if p not in modes]
        if len(params) == 1:
            ch_var, kind, loop_idx, single = params[0], "single", 0, True
        else:
            raise AnalysisError(f"G-CHR: no per-character construct found in {f.key}")
    interp = Interp(ctx, f, ch_var, modes)
    # pre-loop paths
    pre = [] if single else body[:loop_idx]
    prefix_paths = interp.run(pre, {}, (0, 0), None)
    parts: List[Partition] = []
    for g, _em, term, env in prefix_paths:
        if term is not None:
            continue
        tables = [v[2] for v in env.values() if isinstance(v, tuple) and v[0] == "table"]
        # module-level tables referenced in the per-character code
        per_char_nodes: List[ast.AST]
        if kind == "for":
            per_char_nodes = list(body[loop_idx].body)
        elif kind == "comp":
            per_char_nodes = [_join_comprehension(body[loop_idx]).elt]
        elif kind == "while":
            per_char_nodes = list(_char_while(body[loop_idx])[0].body)
        else:
            per_char_nodes = body
        for n in per_char_nodes:
            for x in ast.walk(n):
                if isinstance(x, ast.Name):
                    t = const_str_dict(ctx, f.module, x)
                    if t is not None:
                        tables.append(t)
        b = interp.boundaries(per_char_nodes, tables)
        b.update(extra_boundaries)
        b.add(max_value + 1)
        cuts = sorted(x for x in b if 0 <= x <= max_value + 1)
        classes = [(cuts[i], cuts[i + 1] - 1) for i in range(len(cuts) - 1)]
        # delimiters from the code after the loop
        prefix_txt = suffix_txt = ""
        post = [] if single else body[loop_idx + 1:]
        out_var = None
        if kind == "for":
            out_var = _appended_list(body[loop_idx])
        elif kind == "comp":
            st = body[loop_idx]
            out_var = st.targets[0].id if isinstance(st, ast.Assign) and isinstance(st.targets[0], ast.Name) else None
        elif kind == "while":
            out_var = _appended_list(_char_while(body[loop_idx])[0])
        if not single:
            penv = dict(env)
            if out_var is not None:
                penv[out_var] = ("body",)
            for (g2, _e2, term2, _env2) in interp.run(post, penv, (0, 0), None):
                if term2 is not None and term2[0] == "return":
                    v = term2[1]
                    pieces = interp._pieces(v)
                    if ("body",) in pieces:
                        i = pieces.index(("body",))
                        pre_l = "".join(p[1] for p in pieces[:i] if p[0] == "lit")
                        suf_l = "".join(p[1] for p in pieces[i + 1:] if p[0] == "lit")
                        if pre_l or suf_l or not (prefix_txt or suffix_txt):
                            prefix_txt, suffix_txt = pre_l, suf_l
        part = Partition(f, dict(modes, **{"path": g}), prefix_txt, suffix_txt)
        rows = []
        for cls in classes:
            if kind == "comp":
                v = interp.ev(per_char_nodes[0], env, cls)
                rows.append((cls, (), "emit", tuple(interp._pieces(v))))
                continue
            for (g3, em, term, _env3) in interp.run(per_char_nodes, env, cls, out_var):
                if term is not None and term[0] == "raise":
                    rows.append((cls, g3, "raise", term[1]))
                elif term is not None and term[0] == "return":
                    v = term[1]
                    if single:
                        rows.append((cls, g3, "emit", tuple(interp._pieces(v))))
                    else:
                        rows.append((cls, g3, "return", v[1] if isinstance(v, tuple) and v[0] == "const" else repr(v)))
                else:
                    rows.append((cls, g3, "emit", tuple(em)))
        part.rows = _merge_rows(rows)
        parts.append(part)
    return parts


def _join_comprehension(s: ast.stmt) -> Optional[ast.GeneratorExp]:
    for n in ast.walk(s):
        if isinstance(n, ast.Call) and isinstance(n.func, ast.Attribute) and n.func.attr == "join" and n.args and isinstance(n.args[0], (ast.GeneratorExp, ast.ListComp)):
            g = n.args[0]
            if len(g.generators) == 1 and isinstance(g.generators[0].target, ast.Name) and isinstance(g.generators[0].iter, ast.Name):
                return g
    return None


def _char_while(s: ast.stmt):
    """``while current_char is not None: ...`` possibly nested in ``if len(text) > 0``."""
    for n in ast.walk(s):
        if isinstance(n, ast.While) and isinstance(n.test, ast.Compare) and isinstance(n.test.left, ast.Name) and isinstance(n.test.ops[0], ast.IsNot):
            return (n, n.test.left.id)
    return None


def _appended_list(loop: ast.AST) -> Optional[str]:
    for n in ast.walk(loop):
        if isinstance(n, ast.Call) and isinstance(n.func, ast.Attribute) and n.func.attr == "append" and isinstance(n.func.value, ast.Name):
            return n.func.value.id
    return None


# ---------------------------------------------------------------------------
# language specifications (trusted base, DESIGN Appendix B)

_C_SIMPLE = {"\\a": 7, "\\b": 8, "\\f": 12, "\\n": 10, "\\r": 13, "\\t": 9, "\\v": 11, "\\\\": 92, "\\'": 39, '\\"': 34}

SPECS: Dict[str, Dict[str, Any]] = {
    "python_bytes": dict(
        must_raw_forbidden=lambda d: set(range(0, 256)),
        simple={},
        numeric={"\\x": ("fixed", 2, 0xFF)},
        why={},
    ),
    "python": dict(
        must_raw_forbidden=lambda d: {ord(d), 92, 10, 13, 0},
        simple=dict(_C_SIMPLE, **{"{{": 123, "}}": 125}),
        numeric={"\\x": ("fixed", 2, 0xFF), "\\u": ("fixed", 4, 0xFFFF), "\\U": ("fixed", 8, MAXCP)},
        why={0: "a NUL character in a Python source file is rejected by the compiler", 10: "line feed ends the literal", 13: "a raw carriage return is read back as a newline"},
    ),
    "cpp": dict(
        must_raw_forbidden=lambda d: {ord(d), 92, 10, 13},
        simple=dict(_C_SIMPLE, **{"\\?": 63}),
        # \x takes ALL following hex digits: only self-delimiting when nothing hex can follow
        numeric={"\\x": ("greedy", None, 0x10FFFF), "\\u": ("fixed", 4, 0xFFFF), "\\U": ("fixed", 8, MAXCP), "\\": ("octal", 3, 0o777)},
        no_ucn_ranges=[(0xD800, 0xDFFF)],
        why={},
    ),
    "csharp": dict(
        must_raw_forbidden=lambda d: {ord(d), 92, 10, 13, 0x85, 0x2028, 0x2029},
        simple=dict(_C_SIMPLE, **{"\\0": 0}),
        numeric={"\\x": ("greedy", 4, 0xFFFF), "\\u": ("fixed", 4, 0xFFFF), "\\U": ("fixed", 8, MAXCP)},
        why={0x85: "NEL is a new-line character in C# and may not appear in a regular string literal", 0x2028: "LINE SEPARATOR is a new-line character in C#", 0x2029: "PARAGRAPH SEPARATOR is a new-line character in C#"},
    ),
    "java": dict(
        must_raw_forbidden=lambda d: {ord(d), 92, 10, 13},
        simple={"\\b": 8, "\\t": 9, "\\n": 10, "\\f": 12, "\\r": 13, '\\"': 34, "\\'": 39, "\\\\": 92},
        numeric={},
        why={},
    ),
    "typescript": dict(
        must_raw_forbidden=lambda d: {ord(d), 92, 10, 13} if d != "`" else {96, 92, 13},
        simple={"\\b": 8, "\\t": 9, "\\n": 10, "\\v": 11, "\\f": 12, "\\r": 13, '\\"': 34, "\\'": 39, "\\\\": 92, "\\`": 96, "\\$": 36, "\\0": 0},
        numeric={"\\x": ("fixed", 2, 0xFF), "\\u": ("fixed", 4, 0xFFFF)},
        why={},
    ),
    "golang": dict(
        must_raw_forbidden=lambda d: {ord(d), 92, 10, 0, 0xFEFF},
        simple={"\\a": 7, "\\b": 8, "\\f": 12, "\\n": 10, "\\r": 13, "\\t": 9, "\\v": 11, "\\\\": 92, '\\"': 34},
        # in Go, \\xHH (and \\ooo) denote a single BYTE of the string, not a code point: "\\x85" is the invalid one-byte string
        # 0x85, not U+0085 (UTF-8 C2 85); they denote the character only below U+0080
        numeric={"\\x": ("fixed", 2, 0x7F), "\\u": ("fixed", 4, 0xFFFF), "\\U": ("fixed", 8, MAXCP)},
        no_ucn_ranges=[(0xD800, 0xDFFF)],
        why={0: "Go source may not contain NUL", 0xFEFF: "a byte order mark inside Go source is rejected"},
    ),
}


def spec_boundaries(lang: str) -> Set[int]:
    b: Set[int] = set()
    if lang == "python_bytes":
        return {0, 256}
    for d in ('"', "'", "`"):
        for c in SPECS[lang]["must_raw_forbidden"](d):
            b.update((c, c + 1))
    for lo, hi in SPECS[lang].get("no_ucn_ranges", []):
        b.update((lo, hi + 1))
    b.update((0x80, 0x100, 0x10000, 0x20, 0x7F))
    return b


def _digits_ok(spec: str, lo: int, hi: int, rule: Tuple[str, Optional[int], int]) -> Tuple[bool, str]:
    """Does ``format(cp, spec)`` give a legal digit string for every cp in [lo, hi]?"""
    kind, width, maxv = rule
    if not spec or spec[-1] not in "xXo":
        return False, f"format spec {spec!r} is not hexadecimal/octal"
    base = 8 if spec[-1] == "o" else 16
    fill0 = spec[:-1].startswith("0")
    w = int(spec[:-1] or "0") if spec[:-1].isdigit() else 0

    def ndigits(v: int) -> int:
        n = 1
        while v >= base:
            v //= base
            n += 1
        return max(n, w if fill0 else n)

    if not fill0 and w:
        return False, "space padding inside an escape"
    if hi > maxv:
        return False, f"code points up to {hi:#x} exceed what the escape can denote ({maxv:#x})"
    nlo, nhi = ndigits(lo), ndigits(hi)
    if kind in ("fixed", "octal"):
        if nlo == nhi == width:
            return True, ""
        return False, f"the escape needs exactly {width} digits but `{spec}` yields {nlo}..{nhi} digits for U+{lo:04X}..U+{hi:04X}"
    if kind == "greedy":
        return False, (
            "the escape consumes every following hexadecimal digit" + (f" (up to {width})" if width else "")
            + ": followed by a character that is a hex digit it denotes a different character"
        )
    return False, "unknown numeric escape"


def judge(ctx, rule: str, part: Partition, lang: str, where_note: str = "") -> None:
    spec = SPECS[lang]
    delim = part.prefix[-1] if part.prefix else (part.suffix[:1] or '"')
    forbidden = spec["must_raw_forbidden"](delim)
    f = part.f
    mode_txt = ", ".join(f"{k}={v}" for k, v in part.mode.items() if k != "path" and v is not None)
    path_txt = "; ".join(part.mode.get("path", ()))[:80]
    label = f"{f.qualname}({mode_txt}){' [' + path_txt + ']' if path_txt else ''} delimiter {delim!r}"
    for (lo, hi), guards, kind, payload in part.rows:
        cname = f"U+{lo:04X}" if lo == hi else f"U+{lo:04X}..U+{hi:04X}"
        gtxt = (" when " + " and ".join(guards)) if guards else ""
        if kind == "raise":
            ctx.ok(rule, f, f.node, what=f"{label}: {cname}{gtxt} -> raises {payload} (reported, not emitted)")
            continue
        if kind != "emit":
            continue
        pieces = list(payload)
        if any(p[0] == "unknown" for p in pieces):
            ctx.skip(rule, f, f.node, f"{label}: {cname}: template not interpretable: {pieces}")
            continue
        what = f"{label}: {cname}{gtxt} -> {_show(pieces)}"
        if pieces == [("raw",)]:
            bad = sorted(c for c in forbidden if lo <= c <= hi)
            # the "$" of "${" in a template literal
            if lang == "typescript" and delim == "`" and lo == hi == 36 and not any("next_char" in g and g.startswith("not") for g in guards):
                bad = bad + [36]
            if bad:
                for c in bad:
                    reason = spec["why"].get(c, "it terminates or corrupts the literal")
                    ctx.fail(rule, f, f.node, f"{label}: the character U+{c:04X} is emitted raw{gtxt}: {reason}", construct=f"{f.qualname}({mode_txt}) raw U+{c:04X}")
            else:
                ctx.ok(rule, f, f.node, what=what, nontrivial=(hi - lo) < 64)
            continue
        lits = "".join(p[1] for p in pieces if p[0] == "lit")
        nums = [p for p in pieces if p[0] == "num"]
        raws = [p for p in pieces if p[0] == "raw"]
        # strip a per-character wrapper such as L'...'
        core = lits
        if not nums and not raws:
            if lo == hi and spec["simple"].get(core) == lo:
                ctx.ok(rule, f, f.node, what=what)
            elif lo == hi and _wrapped_simple(core, spec["simple"]) == lo:
                ctx.ok(rule, f, f.node, what=what)
            elif lo == hi and _const_numeric(core, spec["numeric"]) == lo:
                ctx.ok(rule, f, f.node, what=what)
            else:
                den = spec["simple"].get(core)
                ctx.fail(rule, f, f.node,
                         f"{label}: {cname} is emitted as the constant {core!r}, which " + (f"denotes U+{den:04X}" if den is not None else f"is not an escape of {lang} denoting it"),
                         construct=f"{f.qualname}({mode_txt}) {cname} -> {core!r}")
            continue
        if nums and not raws:
            # prefix literal immediately before the numeric hole
            i = pieces.index(nums[0])
            pre = pieces[i - 1][1] if i > 0 and pieces[i - 1][0] == "lit" else ""
            esc = None
            for k in sorted(spec["numeric"], key=len, reverse=True):
                if pre.endswith(k):
                    esc = k
                    break
            # a numeric escape closed by its own delimiter (L'\x9') or a non-escape use (0x%04x in a cast) is self-delimiting
            post = pieces[i + 1][1] if i + 1 < len(pieces) and pieces[i + 1][0] == "lit" else ""
            if esc is None:
                if "static_cast" in pre or pre.endswith("0x"):
                    ctx.ok(rule, f, f.node, what=what)
                else:
                    ctx.fail(rule, f, f.node, f"{label}: {cname} is emitted with the unknown escape prefix {pre!r}", construct=f"{f.qualname}({mode_txt}) {cname} prefix {pre!r}")
                continue
            rule_ = spec["numeric"][esc]
            ok, why = _digits_ok(nums[0][1], lo, hi, rule_)
            if not ok and rule_[0] == "greedy" and post[:1] in ("'", '"') and post[:1] != "":
                ok = True  # closed by the literal's own delimiter
            surrogate = None
            for rlo, rhi in spec.get("no_ucn_ranges", []):
                if esc in ("\\u", "\\U") and not (hi < rlo or lo > rhi):
                    surrogate = (max(lo, rlo), min(hi, rhi))
            if ok and surrogate is None:
                ctx.ok(rule, f, f.node, what=what)
            elif ok:
                ctx.fail(rule, f, f.node, f"{label}: the lone surrogates U+{surrogate[0]:04X}..U+{surrogate[1]:04X} are emitted as {_show(pieces)}, but {esc} may not name a surrogate code point in {lang}",
                         construct=f"{f.qualname}({mode_txt}) surrogates via {esc}")
            else:
                ctx.fail(rule, f, f.node, f"{label}: {cname} is emitted as {_show(pieces)}: {why}", construct=f"{f.qualname}({mode_txt}) {cname} -> {_show(pieces)}")
            continue
        if raws and lits and not nums:
            # wrapped raw such as L'{character}': the delimiter is the wrapper's own quote
            q = next((ch for ch in lits if ch in "'\"`"), delim)
            wforbidden = spec["must_raw_forbidden"](q)
            bad = sorted(c for c in wforbidden if lo <= c <= hi)
            if bad:
                ctx.fail(rule, f, f.node, f"{label}: the character U+{bad[0]:04X} is emitted raw inside {lits!r}", construct=f"{f.qualname}({mode_txt}) raw U+{bad[0]:04X}")
            else:
                ctx.ok(rule, f, f.node, what=what, nontrivial=(hi - lo) < 64)
            continue
        ctx.skip(rule, f, f.node, f"{label}: {cname}: mixed template {pieces}")


def _const_numeric(core: str, numeric: Dict[str, Any]) -> Optional[int]:
    """``\\u2028`` / ``\\x00`` written out as a constant: the code point it denotes,
    provided the digit count is legal and the escape is not a greedy one."""
    for pre in sorted(numeric, key=len, reverse=True):
        kind, width, maxv = numeric[pre]
        if pre and core.startswith(pre) and kind in ("fixed", "octal"):
            digits = core[len(pre):]
            base = 8 if kind == "octal" else 16
            if len(digits) == width:
                try:
                    v = int(digits, base)
                except ValueError:
                    return None
                return v if v <= maxv else None
    return None


def _wrapped_simple(core: str, simple: Dict[str, int]) -> Optional[int]:
    """``L'\\a'`` -> the escape inside the quotes."""
    for q in ("'", '"'):
        i, j = core.find(q), core.rfind(q)
        if 0 <= i < j:
            inner = core[i + 1:j]
            if inner in simple:
                return simple[inner]
    return None


def _show(pieces) -> str:
    out = []
    for p in pieces:
        if p[0] == "lit":
            out.append(p[1])
        elif p[0] == "raw":
            out.append("<char>")
        elif p[0] == "num":
            out.append("{cp:" + p[1] + "}")
        else:
            out.append("<?>")
    return repr("".join(out))
