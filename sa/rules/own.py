"""
G-OWN: file-system effect ownership, and data origins of path expressions.
"""
import ast
from typing import Dict, Iterator, List, Optional, Set, Tuple

from ..model import FuncInfo, Program, dotted_of, short, walk_with_lambdas

WRITE_METHODS = {
    "write_text", "write_bytes", "mkdir", "rename", "replace", "unlink", "rmdir", "touch",
    "symlink_to", "hardlink_to", "link_to", "chmod",
}
READ_METHODS = {
    "read_text", "read_bytes", "glob", "rglob", "iterdir", "exists", "is_file", "is_dir",
    "stat", "lstat", "resolve", "samefile",
}
MODULE_WRITE_FUNCS = {
    "os.remove", "os.unlink", "os.rename", "os.replace", "os.makedirs", "os.mkdir", "os.rmdir",
    "os.removedirs", "os.chmod", "os.symlink", "os.link", "os.truncate", "os.utime",
    "shutil.rmtree", "shutil.copy", "shutil.copy2", "shutil.copyfile", "shutil.copytree",
    "shutil.move", "pickle.dump", "tempfile.mkstemp", "tempfile.mkdtemp",
    "tempfile.NamedTemporaryFile", "tempfile.TemporaryDirectory", "tempfile.TemporaryFile",
}
MODULE_READ_FUNCS = {
    "os.listdir", "os.walk", "os.scandir", "os.path.exists", "os.path.isfile", "os.path.isdir",
    "os.stat", "pickle.load", "glob.glob", "glob.iglob",
}


class Effect:
    def __init__(self, f: FuncInfo, call: ast.Call, kind: str, op: str, target: Optional[ast.expr]):
        self.f = f
        self.call = call
        self.kind = kind  # "write" | "read"
        self.op = op
        self.target = target  # path expression (receiver / first argument)


def _open_mode(call: ast.Call, is_method: bool) -> str:
    args = list(call.args)
    mode_arg = None
    idx = 0 if is_method else 1
    if len(args) > idx:
        mode_arg = args[idx]
    for kw in call.keywords:
        if kw.arg == "mode":
            mode_arg = kw.value
    if mode_arg is None:
        return "r"
    if isinstance(mode_arg, ast.Constant) and isinstance(mode_arg.value, str):
        return mode_arg.value
    return "?"


def effects_in(f: FuncInfo) -> Iterator[Effect]:
    for n in walk_with_lambdas(f.node):
        if n is f.node:
            continue
        if not isinstance(n, ast.Call):
            continue
        d = dotted_of(n.func)
        if isinstance(n.func, ast.Attribute):
            attr = n.func.attr
            recv = n.func.value
            if attr == "replace" and len(n.args) == 2:
                continue  # str.replace(a, b)
            if d in MODULE_WRITE_FUNCS:
                yield Effect(f, n, "write", d, n.args[-1] if d == "pickle.dump" and n.args else (n.args[0] if n.args else None))
                continue
            if d in MODULE_READ_FUNCS:
                yield Effect(f, n, "read", d, n.args[0] if n.args else None)
                continue
            if attr in WRITE_METHODS:
                yield Effect(f, n, "write", attr, recv)
                continue
            if attr in READ_METHODS:
                yield Effect(f, n, "read", attr, recv)
                continue
            if attr == "open":
                mode = _open_mode(n, True)
                kind = "read" if set(mode) <= set("rbt") else "write"
                yield Effect(f, n, kind, f"open({mode!r})", recv)
                continue
        elif isinstance(n.func, ast.Name):
            if n.func.id == "open":
                mode = _open_mode(n, False)
                kind = "read" if set(mode) <= set("rbt") else "write"
                yield Effect(f, n, kind, f"open({mode!r})", n.args[0] if n.args else None)


def local_defs(f: FuncInfo) -> Dict[str, List[ast.expr]]:
    """name -> expressions it is bound from (assignments, for-targets, with-as)."""
    out: Dict[str, List[ast.expr]] = {}

    def bind(tgt, val):
        if isinstance(tgt, ast.Name):
            out.setdefault(tgt.id, []).append(val)
        elif isinstance(tgt, (ast.Tuple, ast.List)):
            for e in tgt.elts:
                bind(e, val)

    for n in walk_with_lambdas(f.node):
        if isinstance(n, ast.Assign):
            for t in n.targets:
                bind(t, n.value)
        elif isinstance(n, ast.AnnAssign) and n.value is not None:
            bind(n.target, n.value)
        elif isinstance(n, (ast.For, ast.comprehension)):
            bind(n.target, n.iter)
        elif isinstance(n, ast.With):
            for item in n.items:
                if item.optional_vars is not None:
                    bind(item.optional_vars, item.context_expr)
        elif isinstance(n, ast.NamedExpr):
            bind(n.target, n.value)
    return out


def origins(f: FuncInfo, expr: ast.AST, defs: Optional[Dict[str, List[ast.expr]]] = None) -> Set[str]:
    """
    Leaves the value of ``expr`` is computed from: dotted chains rooted at a
    parameter (``context.output_dir``), call names (``call:uuid.uuid4``),
    ``const``.  Local names are followed through their definitions.
    """
    if defs is None:
        defs = local_defs(f)
    params = set(f.param_names())
    out: Set[str] = set()
    seen: Set[str] = set()

    def visit(e: ast.AST) -> None:
        if isinstance(e, ast.Constant):
            out.add("const")
            return
        d = dotted_of(e)
        if d is not None:
            root = d.split(".")[0]
            if root in params and root not in defs:
                out.add(d)
                return
            if root in defs:
                if root in seen:
                    return
                seen.add(root)
                suffix = d[len(root):]
                if suffix:
                    out.add(f"<{root}>{suffix}")
                for v in defs[root]:
                    visit(v)
                if root in params:
                    out.add(d)
                return
            out.add(f"global:{d}")
            return
        if isinstance(e, ast.Call):
            cd = dotted_of(e.func)
            if cd is not None:
                out.add(f"call:{cd}")
                if isinstance(e.func, ast.Attribute):
                    visit(e.func.value)
            else:
                if isinstance(e.func, ast.Attribute):
                    out.add(f"call:.{e.func.attr}")
                visit(e.func)
            for a in e.args:
                visit(a)
            for kw in e.keywords:
                visit(kw.value)
            return
        if isinstance(e, ast.Attribute):
            visit(e.value)
            return
        for c in ast.iter_child_nodes(e):
            if isinstance(c, (ast.expr_context, ast.operator, ast.boolop, ast.unaryop, ast.cmpop)):
                continue
            visit(c)

    visit(expr)
    return out
