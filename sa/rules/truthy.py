"""
TRUTHY: an ``Optional[int|str|float|bytes]`` value is never tested by truthiness.
``if x:`` treats ``0`` / ``""`` like ``None``; for the quantities of this code
base (length bounds, patterns, literal values) ``0`` and ``""`` are meaningful
("at most 0 items", the pattern ``^$`` rendered as the empty string), so such a
test silently drops a constraint.  The count on the unchanged tree is zero; a
fixture keeps the rule alive (positive control).
"""
import ast
from typing import Dict, Iterator, Optional

from ..flow import artefacts
from ..model import FuncInfo, short
from ..types import Ext, Opt

SCALARS = {"int", "str", "float", "bytes"}

FIXTURE = '''

def _truthy_fixture(min_length: Optional[int], pattern: Optional[str]) -> bool:
    if min_length or pattern:
        return True
    return False
'''


def _atoms(t: ast.AST) -> Iterator[ast.AST]:
    if isinstance(t, ast.BoolOp):
        for v in t.values:
            yield from _atoms(v)
    elif isinstance(t, ast.UnaryOp) and isinstance(t.op, ast.Not):
        yield from _atoms(t.operand)
    else:
        yield t


def check_truthy(ctx, f: FuncInfo, rule: str) -> int:
    art = artefacts(ctx.ty, f)
    ft = art.types
    ft.build()
    parents: Dict[int, ast.AST] = {}
    for x in ast.walk(f.node):
        for c in ast.iter_child_nodes(x):
            parents[id(c)] = x
    n = 0
    for x in ast.walk(f.node):
        test = x.test if isinstance(x, (ast.If, ast.While, ast.IfExp, ast.Assert)) else None
        if test is None:
            continue
        for a in _atoms(test):
            if not isinstance(a, (ast.Name, ast.Attribute)):
                continue
            cur: Optional[ast.AST] = a
            while cur is not None and not isinstance(cur, ast.stmt):
                cur = parents.get(id(cur))
            env = (ft.env_for(cur) if cur is not None else None) or ft.final_env()
            t = ft.type_of(a, env)
            if isinstance(t, Opt) and isinstance(t.inner, Ext) and t.inner.name in SCALARS:
                n += 1
                ctx.fail(rule, f, a,
                         f"`{short(a)}` has type {t.show()} and is tested by truthiness: the value {'0' if t.inner.name in ('int', 'float') else 'empty ' + t.inner.name} is treated like None, so a constraint with that value is silently dropped",
                         construct=f"truthiness of `{short(a)}` : {t.show()}")
            elif isinstance(t, Opt):
                ctx.ok(rule, f, a, what=f"truthiness of `{short(a)}` : {t.show()[:50]} (not a scalar)", nontrivial=False)
    return n


def positive_control(ctx, rule: str) -> None:
    from ..model import Program, AnalysisError
    from ..types import Typer
    from ..report import Ctx as _Ctx

    rel = "aas_core_codegen/naming.py"
    base = ctx.p.modules["aas_core_codegen.naming"].source
    prog = Program(overlay_text={rel: base + "\nfrom typing import Optional\n" + FIXTURE}, base=ctx.p)
    sub = _Ctx(ctx.prop, "quick", prog, Typer(prog))
    sub.rule(rule, "", 0)
    n = check_truthy(sub, prog.func("naming:_truthy_fixture"), rule)
    if n != 2:
        raise AnalysisError(f"positive control: TRUTHY fired {n} times on its fixture, expected 2")
    ctx.ok(rule, ("sa/rules/truthy.py", "FIXTURE"), None, what="positive control: the rule fires on both operands of the fixture")
