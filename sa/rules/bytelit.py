"""
BYTES: the byte-sequence literal functions emit every byte exactly once and in
a form that denotes it (C19).

For a function ``bytes_literal(value)``:
* every loop / comprehension over the bytes iterates ``value`` itself or a
  chunk ``value[S:E]`` of a chunking loop ``for S in range(0, len(value), K)``
  (start 0, stop exactly ``len(value)``, constant step ``K > 0``) with
  ``E = min(S + K, len(value))`` or ``E = S + K`` -- the chunks then tile
  ``[0, len(value))``;
* each byte is written through a format spec that yields exactly two hex digits
  (``02x`` / ``02X``) right after ``0x`` or ``\\x``.
"""
import ast
from typing import Dict, List, Optional

from ..model import FuncInfo, dotted_of, short, walk_function_body
from . import lin


def _alias_defs(f: FuncInfo) -> Dict[str, List[ast.expr]]:
    out: Dict[str, List[ast.expr]] = {}
    for n in walk_function_body(f.node):
        if isinstance(n, ast.Assign) and len(n.targets) == 1 and isinstance(n.targets[0], ast.Name):
            out.setdefault(n.targets[0].id, []).append(n.value)
    return out


def check_bytes_literal(ctx, f: FuncInfo, rule: str, param: str = "value") -> None:
    defs = _alias_defs(f)
    parents: Dict[int, ast.AST] = {}
    for n in ast.walk(f.node):
        for c in ast.iter_child_nodes(n):
            parents[id(c)] = n
    LEN = ((f"len({param})", 1),)

    def resolve(e: ast.expr, depth: int = 0) -> ast.expr:
        if isinstance(e, ast.Name) and depth < 3:
            vs = defs.get(e.id, [])
            if len(vs) == 1:
                return resolve(vs[0], depth + 1)
        return e

    # chunking loops
    chunk_vars: Dict[str, int] = {}
    bad_vars = set()
    for n in walk_function_body(f.node):
        if isinstance(n, ast.For) and isinstance(n.iter, ast.Call) and dotted_of(n.iter.func) == "range" and isinstance(n.target, ast.Name):
            a = n.iter.args
            what = f"chunk loop `for {n.target.id} in {short(n.iter)}`"
            if len(a) != 3:
                ctx.fail(rule, f, n, f"{what}: expected range(0, len({param}), K)", construct="chunk loop")
                continue
            lo, hi, step = lin.lin_of(a[0]), lin.lin_of(a[1]), lin.lin_of(a[2])
            if lo == ((), 0) and hi == (LEN, 0) and step is not None and step[0] == () and step[1] > 0:
                chunk_vars[n.target.id] = step[1]
                ctx.ok(rule, f, n, what=f"{what} tiles [0, len({param}))")
            else:
                bad_vars.add(n.target.id)
                ctx.fail(rule, f, n, f"{what} does not run from 0 to len({param}) in constant steps: some bytes are never emitted (or emitted twice)", construct="chunk loop")
    # iterations over the bytes
    n_iter = 0
    iters: List[ast.expr] = []
    for n in walk_function_body(f.node):
        if isinstance(n, ast.For):
            iters.append(n.iter)
        elif isinstance(n, ast.comprehension):
            iters.append(n.iter)
    for it in iters:
        e = it
        if isinstance(e, ast.Call) and dotted_of(e.func) == "enumerate" and e.args:
            e = e.args[0]
        if isinstance(e, ast.Name) and e.id == param:
            n_iter += 1
            ctx.ok(rule, f, it, what=f"iterates all of `{param}`")
            continue
        if isinstance(e, ast.Subscript) and dotted_of(e.value) == param and isinstance(e.slice, ast.Slice):
            n_iter += 1
            lo_e, hi_e = e.slice.lower, e.slice.upper
            lo_r = resolve(lo_e) if lo_e is not None else None
            lo_name = lo_r.id if isinstance(lo_r, ast.Name) else None
            what = f"chunk `{short(e)}`"
            if lo_name in bad_vars:
                continue  # reported at the loop
            if e.slice.step is not None or lo_name not in chunk_vars:
                ctx.fail(rule, f, it, f"{what}: the lower bound is not the variable of a chunking loop", construct="chunk slice")
                continue
            K = chunk_vars[lo_name]
            hi_r = resolve(hi_e) if hi_e is not None else None
            ok = False
            if hi_r is not None:
                want = (((lo_name, 1),), K)
                if lin.lin_of(hi_r) == want:
                    ok = True
                elif isinstance(hi_r, ast.Call) and dotted_of(hi_r.func) == "min" and len(hi_r.args) == 2:
                    forms = {lin.lin_of(resolve(x)) for x in hi_r.args}
                    ok = forms == {want, (LEN, 0)}
            if ok:
                ctx.ok(rule, f, it, what=f"{what} = [{lo_name}, min({lo_name}+{K}, len)) matches the step {K}")
            else:
                ctx.fail(rule, f, it, f"{what}: the upper bound `{short(hi_e) if hi_e is not None else 'None'}` is not {lo_name} + {K} clamped to len({param}): bytes are skipped or repeated", construct="chunk slice")
    if n_iter == 0:
        ctx.fail(rule, f, f.node, f"no loop over `{param}`", construct="byte loop")
    # the per-byte format
    n_fmt = 0
    for n in walk_function_body(f.node):
        if not isinstance(n, ast.JoinedStr):
            continue
        for i, v in enumerate(n.values):
            if not (isinstance(v, ast.FormattedValue) and isinstance(v.value, ast.Name) and v.value.id in ("byte", "b")):
                continue
            n_fmt += 1
            spec = "".join(str(x.value) for x in v.format_spec.values if isinstance(x, ast.Constant)) if isinstance(v.format_spec, ast.JoinedStr) else ""
            before = str(n.values[i - 1].value) if i > 0 and isinstance(n.values[i - 1], ast.Constant) else ""
            import re as _re
            if (before.endswith("\\x") and spec in ("02x", "02X")) or (before.endswith("0x") and _re.fullmatch(r"(0?\d+)?[xX]", spec)):
                ctx.ok(rule, f, n, what=f"byte written as `{before[-2:]}` + hex digits ({spec})")
            else:
                ctx.fail(rule, f, n, f"a byte is written as `{before[-4:]}{{byte:{spec}}}`: not `0x` followed by hex digits nor `\\x` followed by exactly two hex digits, the literal denotes other bytes", construct="byte format")
    if n_fmt == 0:
        ctx.fail(rule, f, f.node, "no per-byte hex format found", construct="byte format")
