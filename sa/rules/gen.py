"""
Helpers for checks of the SDK generators (C10, C29, C30): the generators are
Python functions that assemble text; what can be decided statically is which
IR collections they iterate (and whether elements can be skipped), which naming
functions they apply to which IR attribute, and under which guards a fragment
is emitted.
"""
import ast
from typing import Dict, List, Optional, Set, Tuple

from ..model import FuncInfo, dotted_of, short, walk_function_body
from . import schema as S


def loops_over(f: FuncInfo, suffix: str) -> List[ast.For]:
    """``for x in <...>.<suffix>`` loops and comprehensions' generators are not included."""
    def it(n: ast.For) -> ast.expr:
        e = n.iter
        if isinstance(e, ast.Call) and dotted_of(e.func) == "enumerate" and e.args:
            e = e.args[0]
        return e
    return [n for n in walk_function_body(f.node) if isinstance(n, ast.For) and (ast.unparse(it(n)).endswith("." + suffix) or ast.unparse(it(n)) == suffix)]


def check_full_iteration(ctx, rule: str, f: FuncInfo, suffix: str, what: str, allowed_skip_tests: Tuple[str, ...] = ()) -> Optional[ast.For]:
    """There is a loop over ``.<suffix>`` and no element is skipped (``continue``/``break``) except under one of the
    ``allowed_skip_tests`` (unparsed test texts with ``{v}`` for the loop variable)."""
    ls = loops_over(f, suffix)
    if not ls:
        comps = [g for n in walk_function_body(f.node) if isinstance(n, (ast.ListComp, ast.GeneratorExp, ast.SetComp, ast.DictComp)) for g in n.generators if ast.unparse(g.iter).endswith("." + suffix)]
        if comps:
            bad = [c for c in comps if c.ifs and not all(ast.unparse(i) in allowed_skip_tests for i in c.ifs)]
            if bad:
                ctx.fail(rule, f, f.node, f"{what}: the comprehension over `.{suffix}` filters by `{ast.unparse(bad[0].ifs[0])}`", construct=f"{f.name}: all of .{suffix}")
            else:
                ctx.ok(rule, f, f.node, what=f"{what}: comprehension over every element of .{suffix}")
            return None
        ctx.fail(rule, f, f.node, f"{what}: {f.name} has no loop over `.{suffix}`", construct=f"{f.name}: all of .{suffix}")
        return None
    parents = S.parents_of(f)
    for loop in ls:
        tg = loop.target
        if isinstance(tg, ast.Tuple) and tg.elts:
            tg = tg.elts[-1]
        v = dotted_of(tg) or "?"
        aliases = {v}
        for a in ast.walk(loop):
            if isinstance(a, ast.Assign) and len(a.targets) == 1 and isinstance(a.targets[0], ast.Name) and isinstance(a.value, ast.Name) and a.value.id in aliases:
                aliases.add(a.targets[0].id)
        allowed = {t.format(v=x) for t in allowed_skip_tests for x in aliases}
        for sk in [x for x in ast.walk(loop) if isinstance(x, (ast.Continue, ast.Break))]:
            # innermost loop of the skip must be this loop
            cur: ast.AST = sk
            inner = None
            while id(cur) in parents:
                cur = parents[id(cur)]
                if isinstance(cur, (ast.For, ast.While)):
                    inner = cur
                    break
            if inner is not loop:
                continue
            if isinstance(sk, ast.Break):
                ctx.fail(rule, f, sk, f"{what}: the loop over `.{suffix}` is left with `break` (line {sk.lineno}): every element after the first match is never handled", construct=f"{f.name}: all of .{suffix}")
                return loop
            outer_n = len(S.guards_of(loop, parents))
            g = [("" if pol else "not ") + ast.unparse(t) for t, pol in S.guards_of(sk, parents)[outer_n:]]
            if g and all(x in allowed for x in g):
                continue
            # an error path: the block reports an error before skipping
            blk = parents.get(id(sk))
            body = getattr(blk, "body", []) if any(sk is b for b in getattr(blk, "body", [])) else getattr(blk, "orelse", [])
            if any(isinstance(st, ast.Expr) and isinstance(st.value, ast.Call) and (dotted_of(st.value.func) or "").startswith("errors.") for st in body):
                continue
            ctx.fail(rule, f, sk, f"{what}: an element of `.{suffix}` is skipped under {g or ['<unconditional>']}", construct=f"{f.name}: all of .{suffix}")
            return loop
    ctx.ok(rule, f, ls[0], what=f"{what}: every element of .{suffix} is handled")
    return ls[0]


def naming_calls(f: FuncInfo, prefix: str = "naming.") -> Set[Tuple[str, str]]:
    """(naming function, attribute chain tail of the argument) e.g. ('json_property', 'prop.name')."""
    out: Set[Tuple[str, str]] = set()
    for n in walk_function_body(f.node):
        if isinstance(n, ast.Call) and (dotted_of(n.func) or "").startswith(prefix) and n.args:
            a = n.args[0]
            # Identifier(f"...") wrappers are other names
            d = dotted_of(a)
            if d is not None:
                out.add(((dotted_of(n.func) or "").split(".")[-1], d))
    return out
