"""
ASCII-RE: a regular expression that defines which names are admissible admits
ASCII characters only.  The pattern text is taken from the source and parsed with
the standard library's regex parser (``re._parser``): a Unicode-aware category
(``\\w``, ``\\d``, ``\\s`` without ``re.ASCII``), ``.``, a negated class or a literal /
range bound above U+007F admits non-ASCII text.
"""
import ast
import re
from typing import List, Optional

from ..model import dotted_of, short

try:
    import re._parser as _sre_parse  # Python >= 3.11
    import re._constants as _sre_c
except ImportError:  # pragma: no cover
    import sre_parse as _sre_parse  # type: ignore
    import sre_constants as _sre_c  # type: ignore


def non_ascii_reasons(pattern: str, flags: int = 0) -> List[str]:
    out: List[str] = []
    ascii_flag = bool(flags & re.ASCII)

    def walk(items) -> None:
        for op, av in items:
            name = str(op)
            if op is _sre_c.CATEGORY:
                if not ascii_flag and str(av) in ("CATEGORY_WORD", "CATEGORY_DIGIT", "CATEGORY_SPACE", "CATEGORY_NOT_WORD", "CATEGORY_NOT_DIGIT", "CATEGORY_NOT_SPACE"):
                    out.append(f"the category {str(av).replace('CATEGORY_', '').lower()} is Unicode-aware without re.ASCII")
                if "NOT" in str(av):
                    out.append("a negated category admits non-ASCII characters")
            elif op is _sre_c.ANY:
                out.append("`.` admits any character")
            elif op is _sre_c.NOT_LITERAL:
                out.append("a negated literal admits non-ASCII characters")
            elif op is _sre_c.LITERAL:
                if av > 0x7F:
                    out.append(f"literal U+{av:04X}")
            elif op is _sre_c.RANGE:
                if av[1] > 0x7F:
                    out.append(f"range up to U+{av[1]:04X}")
            elif op is _sre_c.IN:
                if av and av[0][0] is _sre_c.NEGATE:
                    out.append("a negated character class admits non-ASCII characters")
                walk(av)
            elif op in (_sre_c.MAX_REPEAT, _sre_c.MIN_REPEAT):
                walk(av[2])
            elif op is _sre_c.SUBPATTERN:
                walk(av[3])
            elif op is _sre_c.BRANCH:
                for alt in av[1]:
                    walk(alt)
            elif name in ("ASSERT", "ASSERT_NOT"):
                walk(av[1])

    walk(_sre_parse.parse(pattern, flags))
    return out


def check_ascii_regex(ctx, rule: str, module_key: str, const_name: str, why: str) -> None:
    m = ctx.p.module(module_key)
    v = m.constants.get(const_name)
    ctx.require_anchor(isinstance(v, ast.Call) and dotted_of(v.func) == "re.compile" and v.args, f"{module_key}.{const_name} = re.compile(...)")
    pat = v.args[0]
    ctx.require_anchor(isinstance(pat, ast.Constant) and isinstance(pat.value, str), f"{const_name} is compiled from a string constant")
    flags = 0
    for a in list(v.args[1:]) + [k.value for k in v.keywords if k.arg == "flags"]:
        if "ASCII" in ast.unparse(a) or ast.unparse(a).endswith(".A"):
            flags |= re.ASCII
    try:
        reasons = non_ascii_reasons(pat.value, flags)
    except re.error as exc:
        ctx.fail(rule, m, v, f"{const_name}: the pattern does not compile ({exc})", construct=f"{const_name} admits ASCII only")
        return
    what = f"{const_name} = /{pat.value}/ admits ASCII characters only ({why})"
    if reasons:
        ctx.fail(rule, m, v, f"{const_name} = /{pat.value}/ admits non-ASCII text: {'; '.join(sorted(set(reasons)))}. {why}", construct=f"{const_name} admits ASCII only")
    else:
        ctx.ok(rule, m, v, what=what)


HEX = set("0123456789abcdefABCDEF")


def hex_classes(pattern: str, flags: int = 0) -> List[set]:
    """ASCII members of every character class of ``pattern`` that contains all decimal digits and at least one hex letter."""
    found: List[set] = []
    fold = bool(flags & re.IGNORECASE)

    def walk(items) -> None:
        for op, av in items:
            name = str(op)
            if op is _sre_c.IN:
                if av and av[0][0] is _sre_c.NEGATE:
                    continue
                members = set()
                for o2, a2 in av:
                    if o2 is _sre_c.LITERAL and a2 < 128:
                        members.add(chr(a2))
                    elif o2 is _sre_c.RANGE:
                        members.update(chr(c) for c in range(a2[0], min(a2[1], 127) + 1))
                    elif o2 is _sre_c.CATEGORY and str(a2) == "CATEGORY_DIGIT":
                        members.update("0123456789")
                if fold:
                    members |= {c.lower() for c in members} | {c.upper() for c in members}
                if set("0123456789") <= members and members & set("abcdefABCDEF"):
                    found.append(members)
            elif op in (_sre_c.MAX_REPEAT, _sre_c.MIN_REPEAT):
                walk(av[2])
            elif op is _sre_c.SUBPATTERN:
                walk(av[3])
            elif op is _sre_c.BRANCH:
                for alt in av[1]:
                    walk(alt)
            elif name in ("ASSERT", "ASSERT_NOT"):
                walk(av[1])

    walk(_sre_parse.parse(pattern, flags))
    return found


def check_hex_classes(ctx, rule: str, module, floor: int) -> None:
    """Every character class that is meant for hexadecimal digits (all of 0-9 plus some of a-f / A-F) admits all 22 of them: the
    front end accepts escapes in either case, so a class that lacks one case leaves such an escape untranslated."""
    n = 0
    for node in ast.walk(module.tree):
        if not (isinstance(node, ast.Call) and (dotted_of(node.func) or "") in ("re.compile", "re.sub", "re.match", "re.fullmatch", "re.search", "re.finditer", "re.findall") and node.args):
            continue
        a = node.args[0]
        if not (isinstance(a, ast.Constant) and isinstance(a.value, str)):
            continue
        flags = 0
        for extra in list(node.args[1:]) + [k.value for k in node.keywords if k.arg == "flags"]:
            if "IGNORECASE" in ast.unparse(extra) or ast.unparse(extra).endswith("re.I"):
                flags |= re.IGNORECASE
        try:
            classes = hex_classes(a.value, flags)
        except re.error:
            continue
        for members in classes:
            n += 1
            missing = sorted(HEX - members)
            what = f"{module.relpath.split('aas_core_codegen/')[-1]}: hex-digit class of {a.value!r} admits both cases"
            where = (module.relpath, "<module>")
            if missing:
                ctx.fail(rule, where, node, f"a character class of the regular expression {a.value!r} is used for hexadecimal digits but lacks {''.join(missing)!r}: an escape written with those digits (accepted by the pattern parser) is not recognised here and reaches the output untranslated", construct=what)
            else:
                ctx.ok(rule, where, node, what=what)
    from ..model import AnalysisError
    if n < floor:
        raise AnalysisError(f"anchor vanished: {module.relpath} has {n} hexadecimal character classes in its regular expressions, expected at least {floor}")
