"""
ARITY: a matcher that reads a fixed number of operands of a variadic node
(``node.values[0]``, ``node.values[1]``; ``node.args[0]``) must have established
that the node has EXACTLY that many operands.  With more operands the remaining
ones are silently ignored: ``a is None or b or c`` would be read as
``a is None or b`` and the inferred constraint is stronger than the invariant.
(The sibling rule IDX of C01 only needs ``>=`` - it is about crashes.)
"""
import ast
from typing import Dict, Optional, Tuple

from ..model import FuncInfo, short, walk_function_body
from . import schema as S

VARIADIC = ("values", "args", "concatenants", "uniates", "elts")


def check_arity(ctx, f: FuncInfo, rule: str) -> None:
    parents = S.parents_of(f)
    # (owner text, attr) -> (max constant index, first node)
    uses: Dict[Tuple[str, str], Tuple[int, ast.AST]] = {}
    for n in walk_function_body(f.node):
        if isinstance(n, ast.Subscript) and isinstance(n.value, ast.Attribute) and n.value.attr in VARIADIC and isinstance(n.slice, ast.Constant) and isinstance(n.slice.value, int) and n.slice.value >= 0:
            key = (ast.unparse(n.value.value), n.value.attr)
            m, first = uses.get(key, (-1, n))
            uses[key] = (max(m, n.slice.value), first if getattr(first, "lineno", 0) <= n.lineno else n)
    for (owner, attr), (m, first) in uses.items():
        # loops over the same sequence read every operand: nothing is ignored
        if any(isinstance(l, (ast.For, ast.comprehension)) and ast.unparse(l.iter).startswith(f"{owner}.{attr}") for l in ast.walk(f.node)):
            continue
        want = m + 1
        st = S.stmt_of(first, parents)
        est: Optional[str] = None
        def unnot(t, pol):
            while isinstance(t, ast.UnaryOp) and isinstance(t.op, ast.Not):
                t, pol = t.operand, not pol
            return t, pol

        for t, pol in [unnot(t, pol) for t, pol in S.early_exit_guards(st, f, parents) + S.guards_of(first, parents)]:
            for c in ([t] if not (isinstance(t, ast.BoolOp) and isinstance(t.op, ast.Or)) else t.values) if not pol else ([t] if not (isinstance(t, ast.BoolOp) and isinstance(t.op, ast.And)) else t.values):
                if isinstance(c, ast.Compare) and len(c.ops) == 1 and ast.unparse(c.left) == f"len({owner}.{attr})" and isinstance(c.comparators[0], ast.Constant):
                    k = c.comparators[0].value
                    op = c.ops[0]
                    if (isinstance(op, ast.NotEq) and not pol and k == want) or (isinstance(op, ast.Eq) and pol and k == want):
                        est = ast.unparse(c)
        what = f"{f.qualname}: reads {owner}.{attr}[0..{m}] only after len({owner}.{attr}) == {want}"
        if est is not None:
            ctx.ok(rule, f, first, what=what)
        else:
            ctx.fail(rule, f, first,
                     f"{f.qualname} reads exactly {want} operand(s) of `{owner}.{attr}` but never establishes `len({owner}.{attr}) == {want}`: further operands are silently ignored, so the construct is matched although it means something else",
                     construct=what)
