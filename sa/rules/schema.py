"""
Shared machinery of the schema generators' checks (C11-C14; DESIGN §4).

* ``parents_of`` / ``guards_of``: the chain of ``if`` conditions (with polarity)
  under which a construct executes, read from the syntax tree.
* ``Formula``: three-valued boolean formulas over *facts about one subject
  expression* (kind of our type, has concrete descendants, occurs in a property,
  is implementation specific), built from such guards.
* ``prim_members``: the set of ``PrimitiveType`` members a variable may hold at
  a construct (refined by the guards).
* ``eval_int``: evaluation of an integer expression of the analysed source over
  one free variable (an abstract interpreter of ``+ - * // %`` and constants);
  used to compare a length conversion against an arithmetic oracle.
* ``key_stores``: ``mapping["key"] = value`` stores of a function.
"""
import ast
import itertools
from typing import Any, Dict, Iterator, List, Optional, Sequence, Set, Tuple

from ..model import FuncInfo, dotted_of, walk_function_body

PRIMS = ("BOOL", "INT", "FLOAT", "STR", "BYTEARRAY")
KINDS = ("Enumeration", "ConstrainedPrimitive", "AbstractClass", "ConcreteClass")


def parents_of(f: FuncInfo) -> Dict[int, ast.AST]:
    out: Dict[int, ast.AST] = {}
    for n in ast.walk(f.node):
        for c in ast.iter_child_nodes(n):
            out[id(c)] = n
    return out


def stmt_of(node: ast.AST, parents: Dict[int, ast.AST]) -> Optional[ast.stmt]:
    cur: Optional[ast.AST] = node
    while cur is not None and not isinstance(cur, ast.stmt):
        cur = parents.get(id(cur))
    return cur  # type: ignore[return-value]


def guards_of(node: ast.AST, parents: Dict[int, ast.AST]) -> List[Tuple[ast.expr, bool]]:
    """(test, polarity) of every enclosing ``if``/``elif``/``else`` and conditional
    expression, innermost last."""
    out: List[Tuple[ast.expr, bool]] = []
    cur = node
    while True:
        par = parents.get(id(cur))
        if par is None:
            break
        if isinstance(par, (ast.If, ast.IfExp)):
            body = par.body if isinstance(par.body, list) else [par.body]
            orelse = par.orelse if isinstance(par.orelse, list) else [par.orelse]
            if any(cur is b for b in body):
                out.append((par.test, True))
            elif any(cur is b for b in orelse):
                out.append((par.test, False))
        elif isinstance(par, ast.While):
            if any(cur is b for b in par.body):
                out.append((par.test, True))
        cur = par
    out.reverse()
    return out


def early_exit_guards(node: ast.AST, f: FuncInfo, parents: Dict[int, ast.AST]) -> List[Tuple[ast.expr, bool]]:
    """Guards established by earlier ``if c: return/raise/continue`` statements in
    the enclosing blocks (the construct only executes when ``c`` was false)."""
    from ..types import _always_exits

    out: List[Tuple[ast.expr, bool]] = []
    cur: ast.AST = node
    while True:
        par = parents.get(id(cur))
        if par is None:
            break
        for field in ("body", "orelse", "finalbody"):
            block = getattr(par, field, None)
            if isinstance(block, list) and any(cur is b for b in block):
                for s in block:
                    if s is cur:
                        break
                    if isinstance(s, ast.If) and not s.orelse and _always_exits(s.body):
                        out.append((s.test, False))
        if isinstance(par, (ast.FunctionDef, ast.AsyncFunctionDef, ast.Lambda)):
            break
        cur = par
    return out


# -- three-valued formulas over facts of one subject ---------------------------------


class Formula:
    """('atom', name, payload) | ('not', F) | ('and', [F]) | ('or', [F]) | ('unknown', text) | ('true',)"""

    def __init__(self, op: str, *args: Any):
        self.op = op
        self.args = args

    def eval(self, env: Dict[str, Any]) -> Optional[bool]:
        if self.op == "true":
            return True
        if self.op == "unknown":
            return None
        if self.op == "atom":
            name, payload = self.args
            if name == "kind":
                return env["kind"] in payload
            return env.get(name)
        if self.op == "not":
            v = self.args[0].eval(env)
            return None if v is None else (not v)
        vals = [a.eval(env) for a in self.args[0]]
        if self.op == "and":
            if any(v is False for v in vals):
                return False
            return None if any(v is None for v in vals) else True
        if self.op == "or":
            if any(v is True for v in vals):
                return True
            return None if any(v is None for v in vals) else False
        raise AssertionError(self.op)

    def show(self) -> str:
        if self.op == "true":
            return "true"
        if self.op == "unknown":
            return f"?({self.args[0]})"
        if self.op == "atom":
            name, payload = self.args
            return f"kind in {{{','.join(sorted(payload))}}}" if name == "kind" else name
        if self.op == "not":
            return f"not {self.args[0].show()}"
        j = " and " if self.op == "and" else " or "
        return "(" + j.join(a.show() for a in self.args[0]) + ")"


TRUE = Formula("true")


def f_and(fs: Sequence[Formula]) -> Formula:
    fs = [x for x in fs if x.op != "true"]
    if not fs:
        return TRUE
    return fs[0] if len(fs) == 1 else Formula("and", list(fs))


def f_or(fs: Sequence[Formula]) -> Formula:
    return fs[0] if len(fs) == 1 else Formula("or", list(fs))


def f_not(f: Formula) -> Formula:
    return Formula("not", f)


class SubjectFacts:
    """Translates tests about one subject expression into formulas.

    ``kind_of_class(expr)`` maps the second argument of ``isinstance`` to a set of
    KINDS (or None when it is not one of our-type kinds)."""

    def __init__(self, subject: str, kind_of_class, aliases: Optional[Set[str]] = None):
        self.subjects = {subject} | (aliases or set())
        self.kind_of_class = kind_of_class

    def about(self, e: ast.AST) -> bool:
        return dotted_of(e) in self.subjects

    def formula(self, test: ast.expr) -> Formula:
        if isinstance(test, ast.BoolOp):
            parts = [self.formula(v) for v in test.values]
            return f_and(parts) if isinstance(test.op, ast.And) else f_or(parts)
        if isinstance(test, ast.UnaryOp) and isinstance(test.op, ast.Not):
            return f_not(self.formula(test.operand))
        if isinstance(test, ast.Call) and dotted_of(test.func) == "isinstance" and len(test.args) == 2:
            if self.about(test.args[0]):
                kinds = self.kind_of_class(test.args[1])
                if kinds is not None:
                    return Formula("atom", "kind", frozenset(kinds))
            else:
                return Formula("unknown", "other subject")
        if isinstance(test, ast.Compare) and len(test.ops) == 1:
            l, op, r = test.left, test.ops[0], test.comparators[0]
            # len(S.concrete_descendants) > 0 | >= 1 | != 0 | == 0
            if isinstance(l, ast.Call) and dotted_of(l.func) == "len" and l.args and isinstance(l.args[0], ast.Attribute) \
                    and l.args[0].attr == "concrete_descendants" and isinstance(r, ast.Constant) and isinstance(r.value, int):
                if self.about(l.args[0].value):
                    c = r.value
                    if (isinstance(op, ast.Gt) and c == 0) or (isinstance(op, ast.GtE) and c == 1) or (isinstance(op, ast.NotEq) and c == 0):
                        return Formula("atom", "D", None)
                    if (isinstance(op, ast.Eq) and c == 0) or (isinstance(op, ast.Lt) and c == 1) or (isinstance(op, ast.LtE) and c == 0):
                        return f_not(Formula("atom", "D", None))
                else:
                    return Formula("unknown", "other subject")
            # id(S) in ids_of_our_types_in_properties
            if isinstance(op, (ast.In, ast.NotIn)) and isinstance(l, ast.Call) and dotted_of(l.func) == "id" and l.args:
                if self.about(l.args[0]) and (dotted_of(r) or "").endswith("ids_of_our_types_in_properties"):
                    a = Formula("atom", "P", None)
                    return a if isinstance(op, ast.In) else f_not(a)
        if isinstance(test, ast.Attribute) and test.attr == "is_implementation_specific" and self.about(test.value):
            return Formula("atom", "IS", None)
        return Formula("unknown", ast.unparse(test)[:80])

    def of_guards(self, guards: Sequence[Tuple[ast.expr, bool]]) -> Formula:
        out = []
        for test, pol in guards:
            f = self.formula(test)
            out.append(f if pol else f_not(f))
        return f_and(out)


def assignments() -> Iterator[Dict[str, Any]]:
    """All consistent fact assignments of a subject that is not implementation
    specific (those are provided by snippets and out of reach)."""
    for kind, d, p in itertools.product(KINDS, (False, True), (False, True)):
        if kind in ("Enumeration", "ConstrainedPrimitive") and d:
            continue
        yield {"kind": kind, "D": d, "P": p, "IS": False}


def show_env(env: Dict[str, Any]) -> str:
    return f"{env['kind']}, {'has' if env['D'] else 'no'} concrete descendants, {'used' if env['P'] else 'not used'} as a property type"


# -- primitive-type members ------------------------------------------------------------


def _prim_of(e: ast.AST) -> Optional[str]:
    d = dotted_of(e)
    if d is not None and d.split(".")[-1] in PRIMS and "PrimitiveType" in d:
        return d.split(".")[-1]
    return None


def prim_members(var: str, guards: Sequence[Tuple[ast.expr, bool]]) -> Set[str]:
    """Possible members of ``var`` (PRIMS plus 'None') under the guards."""
    cur: Set[str] = set(PRIMS) | {"None"}

    def refine(test: ast.expr, pol: bool, cur: Set[str]) -> Set[str]:
        if isinstance(test, ast.BoolOp):
            if isinstance(test.op, ast.And) and pol:
                for v in test.values:
                    cur = refine(v, True, cur)
                return cur
            if isinstance(test.op, ast.Or) and not pol:
                for v in test.values:
                    cur = refine(v, False, cur)
                return cur
            if isinstance(test.op, ast.Or) and pol:
                alts = [refine(v, True, set(cur)) for v in test.values]
                return set().union(*alts)
            return cur
        if isinstance(test, ast.UnaryOp) and isinstance(test.op, ast.Not):
            return refine(test.operand, not pol, cur)
        if isinstance(test, ast.Compare) and len(test.ops) == 1 and dotted_of(test.left) == var:
            op, r = test.ops[0], test.comparators[0]
            sel: Optional[Set[str]] = None
            if isinstance(r, ast.Constant) and r.value is None:
                sel = {"None"}
            elif _prim_of(r) is not None:
                sel = {_prim_of(r)}  # type: ignore[arg-type]
            elif isinstance(r, (ast.Tuple, ast.List, ast.Set)) and all(_prim_of(x) for x in r.elts):
                sel = {_prim_of(x) for x in r.elts}  # type: ignore[misc]
            if sel is None:
                return cur
            positive = isinstance(op, (ast.Is, ast.Eq, ast.In))
            negative = isinstance(op, (ast.IsNot, ast.NotEq, ast.NotIn))
            if not (positive or negative):
                return cur
            if positive == pol:
                return cur & sel
            return cur - sel
        return cur

    for test, pol in guards:
        cur = refine(test, pol, cur)
    return cur


# -- integer expressions ---------------------------------------------------------------


class CannotEvaluate(Exception):
    pass


def eval_int(e: ast.AST, var_pred, n: int) -> int:
    """Value of the integer expression ``e`` when every sub-expression for which
    ``var_pred`` holds equals ``n``.  Only ``+ - * // %``, unary minus, integer
    constants and ``math.ceil(a / b)`` are understood; anything else raises."""
    if var_pred(e):
        return n
    if isinstance(e, ast.Constant) and isinstance(e.value, int) and not isinstance(e.value, bool):
        return e.value
    if isinstance(e, ast.UnaryOp) and isinstance(e.op, ast.USub):
        return -eval_int(e.operand, var_pred, n)
    if isinstance(e, ast.BinOp):
        a = eval_int(e.left, var_pred, n)
        b = eval_int(e.right, var_pred, n)
        if isinstance(e.op, ast.Add):
            return a + b
        if isinstance(e.op, ast.Sub):
            return a - b
        if isinstance(e.op, ast.Mult):
            return a * b
        if isinstance(e.op, ast.FloorDiv):
            if b == 0:
                raise CannotEvaluate("division by zero")
            return a // b
        if isinstance(e.op, ast.Mod):
            if b == 0:
                raise CannotEvaluate("division by zero")
            return a % b
    if isinstance(e, ast.Call) and dotted_of(e.func) in ("math.ceil", "ceil") and len(e.args) == 1 \
            and isinstance(e.args[0], ast.BinOp) and isinstance(e.args[0].op, ast.Div):
        a = eval_int(e.args[0].left, var_pred, n)
        b = eval_int(e.args[0].right, var_pred, n)
        if b == 0:
            raise CannotEvaluate("division by zero")
        return -((-a) // b)
    raise CannotEvaluate(ast.unparse(e)[:80])


# -- stores ----------------------------------------------------------------------------


def key_stores(f: FuncInfo) -> List[Tuple[str, ast.Assign]]:
    """``X["key"] = value`` statements of ``f`` (constant string keys)."""
    out = []
    for n in walk_function_body(f.node):
        if isinstance(n, ast.Assign) and len(n.targets) == 1 and isinstance(n.targets[0], ast.Subscript):
            k = n.targets[0].slice
            if isinstance(k, ast.Constant) and isinstance(k.value, str):
                out.append((k.value, n))
    return out
