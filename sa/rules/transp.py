"""
Transpiler tables and connective templates (G-TAB / G-SIB for C08, C09).

OPS   the comparison map of a target maps each Comparator member to the
      language's token for that comparison (oracle table).
CONN  ``transform_and`` emits only the AND token, ``transform_or`` only OR,
      ``transform_not`` only NOT applied to its operand, ``transform_implication``
      NOT applied to the *antecedent* and OR joining it with the *consequent*,
      ``_transform_add_or_sub`` '+' under Add and '-' under Sub.
      Judged on the string pieces that flow into generated code (pieces inside
      ``Error(...)`` messages, assertions and raises are ignored).
"""
import ast
import re
from typing import Dict, List, Optional, Set, Tuple

from ..model import ClassInfo, FuncInfo, dotted_of, short

TOKENS = {
    "python": {"AND": r"\band\b", "OR": r"\bor\b", "NOT": r"\bnot\b"},
    "other": {"AND": r"&&", "OR": r"\|\|", "NOT": r"!(?!=)"},
}
OPS_ORACLE = {
    "LT": {"<"}, "LE": {"<="}, "GT": {">"}, "GE": {">="}, "EQ": {"==", "==="}, "NE": {"!=", "!=="},
}


def _tokens_for(target: str) -> Dict[str, str]:
    return TOKENS["python"] if target == "python" else TOKENS["other"]


def transpiler_class(ctx, target: str) -> ClassInfo:
    return ctx.p.cls(f"{target}.transpilation:Transpiler")


def check_ops(ctx, target: str, rule: str) -> None:
    ci = transpiler_class(ctx, target)
    where = (ci.module.relpath, ci.qualname)
    table = None
    for name, v in ci.assigns.items():
        if name.endswith("_COMPARISON_MAP") and isinstance(v, ast.Dict):
            table = (name, v)
    ctx.require_anchor(table is not None, f"{target}: Transpiler has a *_COMPARISON_MAP")
    name, d = table
    seen = set()
    for k, v in zip(d.keys, d.values):
        member = (dotted_of(k) or "").split(".")[-1]
        seen.add(member)
        tok = v.value if isinstance(v, ast.Constant) else None
        what = f"{target}: Comparator.{member} -> {tok!r}"
        if member in OPS_ORACLE and tok in OPS_ORACLE[member]:
            ctx.ok(rule, where, d, what=what)
        else:
            ctx.fail(rule, where, d, f"{name} maps Comparator.{member} to {tok!r}; the {target} operator for it is {sorted(OPS_ORACLE.get(member, {'?'}))}: every invariant with that comparison is generated with the wrong operator", construct=f"{target}: Comparator.{member}")
    missing = set(OPS_ORACLE) - seen
    if missing:
        ctx.fail(rule, where, d, f"{name} has no entry for {sorted(missing)}", construct=f"{target}: comparison map keys")
    # the map is the one used by transform_comparison
    tc = ci.methods.get("transform_comparison")
    ctx.require_anchor(tc is not None, f"{target}: Transpiler.transform_comparison exists")
    uses = any(isinstance(n, ast.Subscript) and (dotted_of(n.value) or "").endswith(name) and dotted_of(n.slice) == "node.op" for n in ast.walk(tc.node))
    if uses:
        ctx.ok(rule, tc, tc.node, what=f"{target}: transform_comparison looks up {name}[node.op]")
    else:
        ctx.fail(rule, tc, tc.node, f"transform_comparison does not take the operator from {name}[node.op]", construct=f"{target}: comparison lookup")


def _code_strings(f: FuncInfo, kind: Optional[str] = None) -> List[Tuple[ast.AST, str, List[Optional[str]]]]:
    """String pieces that can flow into generated code: (node, text-with-holes, holes).
    Holes are rendered as \\x00<i>\\x00 markers.  With ``kind``, pieces inside a branch
    ``isinstance(node, parse_tree.<Other>)`` for another node kind are ignored."""
    skip: Set[int] = set()
    if kind is not None:
        for n in ast.walk(f.node):
            if isinstance(n, ast.If) and isinstance(n.test, ast.Call) and dotted_of(n.test.func) == "isinstance" and len(n.test.args) == 2 and dotted_of(n.test.args[0]) == "node":
                k = (dotted_of(n.test.args[1]) or "").split(".")[-1]
                if k and k != kind:
                    for st in n.body:
                        for x in ast.walk(st):
                            skip.add(id(x))
    for n in ast.walk(f.node):
        if isinstance(n, ast.Call) and (dotted_of(n.func) or "").split(".")[-1] in ("Error", "AssertionError", "NotImplementedError", "ValueError"):
            for x in ast.walk(n):
                skip.add(id(x))
        if isinstance(n, ast.Assert) and n.msg is not None:
            for x in ast.walk(n.msg):
                skip.add(id(x))
        if isinstance(n, ast.Raise):
            for x in ast.walk(n):
                skip.add(id(x))
    out = []
    inner: Set[int] = set()
    for n in ast.walk(f.node):
        if id(n) in skip or id(n) in inner:
            continue
        if isinstance(n, ast.JoinedStr):
            text = ""
            holes: List[Optional[str]] = []
            for v in n.values:
                inner.add(id(v))
                for x in ast.walk(v):
                    inner.add(id(x))
                if isinstance(v, ast.Constant):
                    text += str(v.value)
                else:
                    names = [x.id for x in ast.walk(v.value) if isinstance(x, ast.Name)]
                    holes.append(names[0] if names else None)
                    text += f"\x00{len(holes) - 1}\x00"
            out.append((n, text, holes))
        elif isinstance(n, ast.Constant) and isinstance(n.value, str) and not _is_docstring(f, n):
            out.append((n, n.value, []))
    return out


def _is_docstring(f: FuncInfo, c: ast.Constant) -> bool:
    b = f.node.body
    return bool(b) and isinstance(b[0], ast.Expr) and b[0].value is c


def _present(text: str, pat: str) -> bool:
    return re.search(pat, re.sub("\x00\\d+\x00", " X ", text)) is not None


def check_connectives(ctx, target: str, rule: str) -> None:
    ci = transpiler_class(ctx, target)
    toks = _tokens_for(target)
    expect = {
        "transform_and": ({"AND"}, {"OR", "NOT"}),
        "transform_or": ({"OR"}, {"AND", "NOT"}),
        "transform_not": ({"NOT"}, {"AND", "OR"}),
        "transform_implication": ({"NOT", "OR"}, {"AND"}),
    }
    for name, (must, mustnot) in expect.items():
        m = ci.methods.get(name)
        ctx.require_anchor(m is not None, f"{target}: Transpiler.{name} exists")
        kind = None
        # delegation to a shared helper: ``return self._transform_and_or_or(node)``
        body = [s_ for s_ in m.node.body if not (isinstance(s_, ast.Expr) and isinstance(s_.value, ast.Constant)) and not isinstance(s_, (ast.Assert, ast.Pass))]
        deleg = None
        if len(body) == 1 and isinstance(body[0], ast.Return) and isinstance(body[0].value, ast.Call):
            deleg = body[0].value
        elif len(body) == 2 and isinstance(body[0], ast.Assign) and len(body[0].targets) == 1 and isinstance(body[0].targets[0], ast.Name) and isinstance(body[0].value, ast.Call) \
                and isinstance(body[1], ast.Return) and isinstance(body[1].value, ast.Name) and body[1].value.id == body[0].targets[0].id:
            deleg = body[0].value  # `x = self._helper(node); return x`
        if deleg is not None and (dotted_of(deleg.func) or "").startswith("self."):
            helper = ci.methods.get((dotted_of(deleg.func) or "").split(".")[-1])
            if helper is not None:
                kind = {"transform_and": "And", "transform_or": "Or", "transform_not": "Not", "transform_implication": "Implication"}[name]
                m = helper
        strings = _code_strings(m, kind)
        present = {k for k, pat in toks.items() if any(_present(t, pat) for _, t, _h in strings)}
        what = f"{target}: {name} emits {sorted(must)} and none of {sorted(mustnot)}"
        if must <= present and not (mustnot & present):
            ctx.ok(rule, m, m.node, what=what)
        else:
            ctx.fail(rule, m, m.node, f"{name} of the {target} transpiler emits the connectives {sorted(present)}; it must emit {sorted(must)} and none of {sorted(mustnot)}", construct=f"{target}: {name} connectives")
    # implication: NOT on the antecedent, consequent un-negated, order NOT a OR c
    m = ci.methods["transform_implication"]
    ante = cons = None
    for n in ast.walk(m.node):
        if isinstance(n, ast.Assign) and isinstance(n.value, ast.Call) and (dotted_of(n.value.func) or "").startswith("self.") and n.value.args:
            tgt = n.targets[0]
            name0 = tgt.elts[0].id if isinstance(tgt, ast.Tuple) and isinstance(tgt.elts[0], ast.Name) else (tgt.id if isinstance(tgt, ast.Name) else None)
            if dotted_of(n.value.args[0]) == "node.antecedent":
                ante = name0
            if dotted_of(n.value.args[0]) == "node.consequent":
                cons = name0
    ctx.require_anchor(ante is not None and cons is not None, f"{target}: transform_implication transpiles antecedent and consequent")
    # variables derived from the antecedent through NOT-templates
    neg_vars: Set[str] = set()
    bad = None
    for n in ast.walk(m.node):
        if isinstance(n, ast.Assign) and isinstance(n.targets[0], ast.Name):
            for js in [x for x in ast.walk(n.value) if isinstance(x, ast.JoinedStr)]:
                text, holes = _render(js)
                if _present(text, toks["NOT"]):
                    after = _hole_after(text, toks["NOT"], holes)
                    if after is not None and holes[after] == ante:
                        neg_vars.add(n.targets[0].id)
                    else:
                        bad = (n, holes[after] if after is not None else None)
    for n in ast.walk(m.node):
        if isinstance(n, ast.JoinedStr):
            text, holes = _render(n)
            if _present(text, toks["NOT"]):
                after = _hole_after(text, toks["NOT"], holes)
                if after is None or holes[after] != ante:
                    bad = (n, holes[after] if after is not None else None)
    what = f"{target}: implication = NOT({ante}) OR {cons}"
    if bad is not None:
        ctx.fail(rule, m, bad[0], f"in transform_implication the negation is applied to `{bad[1]}` instead of the antecedent `{ante}`: `a implies b` must become `not a or b`", construct=f"{target}: implication negation")
        return
    # the returned template: <neg var> OR <consequent-derived>
    ok = False
    for n in ast.walk(m.node):
        if isinstance(n, ast.Return):
            for js in [x for x in ast.walk(n) if isinstance(x, ast.JoinedStr)]:
                text, holes = _render(js)
                if len(holes) == 2 and holes[0] in neg_vars and holes[1] == cons and _present(text, toks["OR"]):
                    mid = text.split("\x000\x00")[1].split("\x001\x00")[0]
                    if re.search(toks["OR"], mid) and not re.search(toks["NOT"], mid) and not re.search(toks["AND"], mid):
                        ok = True
    if ok and neg_vars:
        ctx.ok(rule, m, m.node, what=what)
    else:
        ctx.fail(rule, m, m.node, f"the implication is not returned as `<negated {ante}> OR <{cons}>`", construct=f"{target}: implication shape")
    # add / sub
    h = ci.methods.get("_transform_add_or_sub")
    if h is not None:
        for kind, tok in (("Add", "+"), ("Sub", "-")):
            found = []
            for n in ast.walk(h.node):
                if isinstance(n, ast.If) and isinstance(n.test, ast.Call) and dotted_of(n.test.func) == "isinstance" and (dotted_of(n.test.args[1]) or "").endswith(kind):
                    for r in ast.walk(ast.Module(body=n.body, type_ignores=[])):
                        if isinstance(r, ast.Return):
                            found += [_render(js)[0] for js in ast.walk(r) if isinstance(js, ast.JoinedStr)]
            what = f"{target}: {kind} emits '{tok}'"
            other = "-" if tok == "+" else "+"
            if found and all((f" {tok} " in t) and (f" {other} " not in t) for t in found):
                ctx.ok(rule, h, h.node, what=what)
            else:
                ctx.fail(rule, h, h.node, f"under isinstance(node, {kind}) the {target} transpiler does not emit `left {tok} right`", construct=f"{target}: {kind} operator")


def _render(js: ast.JoinedStr) -> Tuple[str, List[Optional[str]]]:
    text = ""
    holes: List[Optional[str]] = []
    for v in js.values:
        if isinstance(v, ast.Constant):
            text += str(v.value)
        else:
            names = [x.id for x in ast.walk(v.value) if isinstance(x, ast.Name) and x.id not in ("I", "II", "indent_but_first_line")]
            holes.append(names[0] if names else None)
            text += f"\x00{len(holes) - 1}\x00"
    return text, holes


def _hole_after(text: str, pat: str, holes: Optional[List[Optional[str]]] = None) -> Optional[int]:
    """Index of the first *named* hole following the first NOT token (holes that only
    carry an indentation constant are skipped)."""
    m = re.search(pat, re.sub("\x00\\d+\x00", lambda mm: "\x01" * len(mm.group(0)), text))
    if m is None:
        return None
    rest = text[m.end():]
    for hm in re.finditer("\x00(\\d+)\x00", rest):
        i = int(hm.group(1))
        if holes is None or holes[i] is not None:
            return i
    return None


# ---------------------------------------------------------------------------
# REFLOW: line-breaking variants of one template must carry the same content


def _template_tokens(js: ast.JoinedStr) -> Tuple[str, Tuple[str, ...]]:
    lit = ""
    holes: List[str] = []
    for v in js.values:
        if isinstance(v, ast.Constant):
            lit += "".join(str(v.value).split()).replace("(", "").replace(")", "")
            continue
        e = v.value
        # indentation helpers do not change content
        while isinstance(e, ast.Call) and (dotted_of(e.func) or "").split(".")[-1] in ("indent_but_first_line", "Stripped") and e.args:
            e = e.args[0]
        if isinstance(e, ast.Name) and e.id in ("I", "II", "III", "IIII", "INDENT", "INDENT2", "INDENT3"):
            continue
        if isinstance(e, ast.Attribute) and e.attr.startswith("INDENT"):
            continue
        holes.append(ast.unparse(e))
        lit += "\x00"
    return lit, tuple(holes)


def _first_template(e: ast.AST) -> Optional[ast.JoinedStr]:
    while isinstance(e, ast.Call) and (dotted_of(e.func) or "").split(".")[-1] == "Stripped" and e.args:
        e = e.args[0]
    return e if isinstance(e, ast.JoinedStr) else None


def check_reflow(ctx, f: FuncInfo, rule: str) -> None:
    """``X = f"..."``; ``if len(X) > N: X = f\"\"\"...re-flowed...\"\"\"``: same holes, same text modulo whitespace and redundant parentheses."""
    for blk in ast.walk(f.node):
        body = getattr(blk, "body", None)
        if not isinstance(body, list):
            continue
        for seq_ in (body, getattr(blk, "orelse", None) or []):
            for i, s in enumerate(seq_):
                if not (isinstance(s, ast.If) and not s.orelse):
                    continue
                t = s.test
                if not (isinstance(t, ast.Compare) and isinstance(t.left, ast.Call) and dotted_of(t.left.func) == "len" and t.left.args and isinstance(t.left.args[0], ast.Name)):
                    continue
                var = t.left.args[0].id
                re_as = [a for a in s.body if isinstance(a, ast.Assign) and isinstance(a.targets[0], ast.Name) and a.targets[0].id == var]
                if len(re_as) != 1 or len(s.body) != 1:
                    continue
                prev = None
                for p_ in reversed(seq_[:i]):
                    if isinstance(p_, ast.Assign) and isinstance(p_.targets[0], ast.Name) and p_.targets[0].id == var:
                        prev = p_
                        break
                if prev is None:
                    continue
                a, b = _first_template(prev.value), _first_template(re_as[0].value)
                if a is None or b is None:
                    continue
                ta, tb = _template_tokens(a), _template_tokens(b)
                what = f"{f.qualname}: re-flowed variant of `{var}` ({len(ta[1])} holes)"
                if ta == tb:
                    ctx.ok(rule, f, s, what=what)
                else:
                    diff = f"holes {list(ta[1])} vs {list(tb[1])}" if ta[1] != tb[1] else "literal text differs"
                    ctx.fail(rule, f, s,
                             f"the line-broken variant of `{var}` (used only when the one-line form exceeds the width) does not carry the same content as the one-line form: {diff}",
                             construct=f"{f.qualname}: reflow of {var}: {diff[:80]}")


# ---------------------------------------------------------------------------
# PAREN: an operand is emitted without parentheses only if its own node kind was tested


def check_parentheses(ctx, target: str, rule: str) -> None:
    from ..flow import artefacts, set_dataflow

    ci = transpiler_class(ctx, target)
    for name in ("transform_comparison", "transform_is_in", "_transform_add_or_sub", "transform_implication", "transform_not"):
        m = ci.methods.get(name)
        if m is None:
            continue
        # operand variables bound from node fields
        operands: Dict[str, str] = {}
        for n in ast.walk(m.node):
            if isinstance(n, ast.Assign) and isinstance(n.value, ast.Call) and (dotted_of(n.value.func) or "").startswith("self.") and n.value.args:
                fld = dotted_of(n.value.args[0]) or ""
                tgt = n.targets[0]
                nm = tgt.elts[0].id if isinstance(tgt, ast.Tuple) and isinstance(tgt.elts[0], ast.Name) else (tgt.id if isinstance(tgt, ast.Name) else None)
                if nm and fld.startswith("node.") and fld.count(".") == 1:
                    operands[nm] = fld
        if not operands:
            continue
        art = artefacts(ctx.ty, m)
        cfg = art.cfg

        def transfer(node, st, operands=operands):
            st = dict(st)
            s = node.stmt
            if node.kind == "stmt" and isinstance(s, ast.Assign) and isinstance(s.targets[0], ast.Name) and s.targets[0].id in operands:
                js = _first_template(s.value)
                if js is not None:
                    text, holes = _render(js)
                    v = s.targets[0].id
                    if v in holes and re.search(r"\(\s*(\x00\d+\x00\s*)*\x00%d\x00" % holes.index(v), text) and text.rstrip().endswith(")"):
                        st[v] = "wrapped"
            return [frozenset(st.items())]

        def edge(node, st, label, operands=operands):
            if node.kind == "test" and node.expr is not None and label in (True, False):
                e = node.expr
                if isinstance(e, ast.Call) and dotted_of(e.func) == "isinstance" and len(e.args) == 2:
                    fld = dotted_of(e.args[0])
                    for v, f_ in operands.items():
                        if f_ == fld and label is True:
                            d = dict(st)
                            d[v] = "safe"
                            return frozenset(d.items())
            return st

        IN = set_dataflow(cfg, frozenset([frozenset()]), lambda n, s: transfer(n, dict(s)), edge)
        for node in cfg.nodes:
            if node.kind != "return" or node.id not in IN or node.expr is None:
                continue
            value_expr = node.expr.elts[0] if isinstance(node.expr, ast.Tuple) and node.expr.elts else node.expr
            for js in [x for x in ast.walk(value_expr) if isinstance(x, ast.JoinedStr)]:
                text, holes = _render(js)
                named = [h for h in holes if h in operands]
                if len([h for h in holes if h is not None]) < 2 and name not in ("transform_not",):
                    continue  # a single operand in the template: nothing can be mis-associated
                for idx, h in enumerate(holes):
                    if h not in operands:
                        continue
                    # lexically wrapped in this template?
                    before = text.split(f"\x00{idx}\x00")[0].rstrip()
                    after = text.split(f"\x00{idx}\x00")[1].lstrip() if f"\x00{idx}\x00" in text else ""
                    # skip indentation-only holes around the operand
                    before = re.sub("(\x00\\d+\x00)+$", "", before).rstrip()
                    # delimited on both sides by brackets / commas (an argument position): no precedence issue
                    lex = (before == "" or before[-1] in "(,[") and (after == "" or after[0] in "),]")
                    what = f"{target}: {name}: operand `{h}` ({operands[h]}) emitted bare only after its node kind was tested"
                    if lex:
                        ctx.ok(rule, m, js, what=what, nontrivial=False)
                        continue
                    bad = [st for st in IN[node.id] if dict(st).get(h) not in ("safe", "wrapped")]
                    if bad:
                        ctx.fail(rule, m, js,
                                 f"in {name} of the {target} transpiler the operand `{h}` ({operands[h]}) can reach the template `{_show_template(text)}` without parentheses although its node kind was not tested on that path: "
                                 f"a compound operand is re-associated by the target language's operator precedence",
                                 construct=f"{target}: {name}: bare operand {h}")
                    else:
                        ctx.ok(rule, m, js, what=what)


def _show_template(text: str) -> str:
    return re.sub("\x00(\\d+)\x00", lambda m_: "{" + m_.group(1) + "}", text).replace("\n", "\\n")[:80]


# Kinds of nodes that are emitted as an infix/prefix operator expression in every target: they may never be listed among the
# kinds whose code is inserted without parentheses.  A comparison binds tighter than and/or, so it may be bare there only.
NEVER_BARE = {"Add", "Sub", "And", "Or", "Not", "Implication", "IsNone", "IsNotNone"}
COMPARISON_BARE_IN = {"transform_and", "transform_or", "_transform_and_or_or"}
# targets in which membership / quantifiers are emitted as infix or keyword expressions, not as calls
INFIX_IS_IN = {"python"}


def check_bare_kinds(ctx, target: str, rule: str) -> None:
    """Every ``no_parentheses*`` tuple of a transpiler lists only node kinds whose generated code is atomic in the context of the
    method (call-like or primary expressions)."""
    ci = transpiler_class(ctx, target)
    n = 0
    for name, m in ci.methods.items():
        for a in ast.walk(m.node):
            if not (isinstance(a, ast.Assign) and isinstance(a.targets[0], ast.Name) and a.targets[0].id.startswith("no_parentheses") and isinstance(a.value, ast.Tuple)):
                continue
            n += 1
            kinds = {(dotted_of(e) or "").split(".")[-1] for e in a.value.elts}
            bad = sorted(kinds & NEVER_BARE)
            if "Comparison" in kinds and name not in COMPARISON_BARE_IN:
                bad.append("Comparison")
            if "IsIn" in kinds and target in INFIX_IS_IN:
                bad.append("IsIn")
            what = f"{target}: {name}: kinds emitted without parentheses are atomic in this context"
            if bad:
                ctx.fail(rule, m, a, f"{target}: {name} inserts the code of {bad} operands without parentheses; these are operator expressions of equal or lower precedence, so e.g. `a - (b + c)` is generated as `a - b + c`", construct=what)
            else:
                ctx.ok(rule, m, a, what=what)
    ctx.require_anchor(n >= 3, f"{target}: the transpiler has no_parentheses kind tuples")


# parse-tree kinds whose operands are consumed as plain values by an operator of the target language: `!x`, `x && y`, `x + y`,
# `!a || c`, the condition of a quantifier.  An optional (C++ ``common::optional``, Go pointer) in such a position changes the meaning
# (`!opt` is "has no value", `opt && y` tests presence) or does not compile, so the operand goes through the dereferencing helper.
VALUE_POSITIONS = {
    "Not": ("operand",),
    "Implication": ("antecedent", "consequent"),
    "And": ("values",),
    "Or": ("values",),
    "Add": ("left", "right"),
    "Sub": ("left", "right"),
    "Any": ("condition",),
    "All": ("condition",),
}


def _deref_helpers(ci: ClassInfo) -> List[FuncInfo]:
    """Methods that transpile their node with ``self.transform`` and return the code behind a ``*`` (structural, not by name)."""
    out = []
    for m in ci.methods.values():
        args = [a.arg for a in m.node.args.args[1:]]
        if len(args) != 1:
            continue
        calls_transform = any(
            isinstance(c, ast.Call) and dotted_of(c.func) == "self.transform" and c.args and isinstance(c.args[0], ast.Name) and c.args[0].id == args[0]
            for c in ast.walk(m.node)
        )
        stars = False
        for r in ast.walk(m.node):
            if isinstance(r, ast.JoinedStr) and r.values and isinstance(r.values[0], ast.Constant) and str(r.values[0].value).lstrip("(").startswith("*"):
                stars = True
        if calls_transform and stars:
            out.append(m)
    return out


def check_deref(ctx, target: str, rule: str) -> None:
    """In a transpiler that has a dereferencing helper, every operand in a value position is transpiled through the helper."""
    ci = transpiler_class(ctx, target)
    helpers = _deref_helpers(ci)
    ctx.require_anchor(len(helpers) >= 1, f"{target}: the transpiler has a dereference-if-optional helper")
    helper_names = {h.name for h in helpers}
    for m in ci.methods.values():
        if m.name in helper_names or len(m.node.args.args) < 2:
            continue
        param = m.node.args.args[1]
        if param.annotation is None:
            continue
        kinds = {n.attr for n in ast.walk(param.annotation) if isinstance(n, ast.Attribute)} & set(VALUE_POSITIONS)
        if not kinds:
            continue
        fields = {f for k in kinds for f in VALUE_POSITIONS[k]}
        # loop variables over node.values
        elems = {}
        for n in ast.walk(m.node):
            if isinstance(n, (ast.For, ast.comprehension)) and isinstance(n.target, ast.Name):
                it = n.iter
                if isinstance(it, ast.Call) and dotted_of(it.func) == "enumerate" and it.args:
                    it = it.args[0]
                if isinstance(it, ast.Attribute) and isinstance(it.value, ast.Name) and it.value.id == param.arg and it.attr in fields:
                    elems[n.target.id] = it.attr
            if isinstance(n, (ast.For, ast.comprehension)) and isinstance(n.target, ast.Tuple) and isinstance(n.iter, ast.Call) and dotted_of(n.iter.func) == "enumerate" and n.iter.args:
                it = n.iter.args[0]
                if isinstance(it, ast.Attribute) and isinstance(it.value, ast.Name) and it.value.id == param.arg and it.attr in fields and isinstance(n.target.elts[-1], ast.Name):
                    elems[n.target.elts[-1].id] = it.attr
        for c in ast.walk(m.node):
            if not (isinstance(c, ast.Call) and isinstance(c.func, ast.Attribute) and isinstance(c.func.value, ast.Name) and c.func.value.id == "self"):
                continue
            callee = c.func.attr
            if callee != "transform" and callee not in helper_names:
                continue
            arg = c.args[0] if c.args else next((k.value for k in c.keywords if k.arg == "node"), None)
            pos = None
            if isinstance(arg, ast.Attribute) and isinstance(arg.value, ast.Name) and arg.value.id == param.arg and arg.attr in fields:
                pos = arg.attr
            elif isinstance(arg, ast.Name) and arg.id in elems:
                pos = elems[arg.id] + "[i]"
            if pos is None:
                continue
            what = f"{target}: {m.name}: operand {pos} is dereferenced if optional"
            if callee in helper_names:
                ctx.ok(rule, m, c, what=what)
            else:
                ctx.fail(rule, m, c, f"{target}: {m.name} transpiles the operand `{pos}` of {sorted(kinds)} with self.transform instead of {sorted(helper_names)[0]}: an optional operand (non-null only by a preceding `is not None` guard) reaches the operator undereferenced, so e.g. `!opt` tests presence instead of the value and disagrees with the Python verification", construct=what)
