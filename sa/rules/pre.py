"""
G-PRE: discharge of the ``LenConstraint`` precondition at its construction sites
    not (min_value is not None and max_value is not None) or 0 < min_value <= max_value
using path facts (clean-path idiom, None-ness, difference constraints).
"""
import ast
from typing import Optional

from ..flow import artefacts, calls_in, kwarg
from ..model import FuncInfo, dotted_of, norm, short
from . import lin, pathfacts
from .err import _accumulators

EXPECTED_REQUIRE = "not (min_value is not None and max_value is not None) or 0 < min_value <= max_value"


def check_len_constraint_sites(ctx, rule: str, scope_pred) -> None:
    p = ctx.p
    lc = p.cls("infer_for_schema._types:LenConstraint")
    init = lc.methods["__init__"]
    reqs = [norm(d.args[0].body) for d in init.node.decorator_list if isinstance(d, ast.Call) and dotted_of(d.func) == "require" and d.args and isinstance(d.args[0], ast.Lambda)]
    ctx.require_anchor(EXPECTED_REQUIRE in reqs, "LenConstraint.__init__ requires `0 < min_value <= max_value` when both are set")
    for m in p.modules.values():
        if not scope_pred(m):
            continue
        for f in m.functions.values():
            sites = []
            art = None
            for n in ast.walk(f.node):
                if isinstance(n, ast.Call) and (dotted_of(n.func) or "").split(".")[-1] == "LenConstraint":
                    r = p.resolve_expr(f.module, n.func)
                    if r is not None and r[0] == "class" and r[1] is lc:
                        sites.append(n)
            if not sites:
                continue
            art = artefacts(ctx.ty, f)
            accs = set(_accumulators(ctx, f).keys())
            IN = pathfacts.path_states(art.cfg, accs)
            for call in sites:
                node = next((nd for nd in art.cfg.nodes if any(c is call for c in calls_in(nd))), None)
                mn = kwarg(call, "min_value", 0)
                mx = kwarg(call, "max_value", 1)
                what = f"LenConstraint(min_value={short(mn) if mn is not None else '?'}, max_value={short(mx) if mx is not None else '?'})"
                if node is None or node.id not in IN:
                    ctx.skip(rule, f, call, "construction site not a reachable CFG node")
                    continue

                def is_none(e, st):
                    if isinstance(e, ast.Constant) and e.value is None:
                        return True
                    d = dotted_of(e) if e is not None else None
                    return d is not None and ("isnone", d) in st

                def const(e):
                    return e.value if isinstance(e, ast.Constant) and isinstance(e.value, int) and not isinstance(e.value, bool) else None

                bad_state = None
                for st in IN[node.id]:
                    if is_none(mn, st) or is_none(mx, st):
                        continue
                    cs = pathfacts.constraints_in(st)
                    pos = lin.need_le(ast.Constant(value=1), mn) if mn is not None else None
                    rel = lin.need_le(mn, mx) if mn is not None and mx is not None else None
                    ok_pos = pos is not None and lin.implied_closed(pos, cs)
                    ok_rel = rel is not None and lin.implied_closed(rel, cs)
                    if const(mn) is not None and const(mx) is not None:
                        ok_pos, ok_rel = 0 < const(mn), const(mn) <= const(mx)
                    if not (ok_pos and ok_rel):
                        bad_state = (st, ok_pos, ok_rel)
                        break
                if bad_state is None:
                    ctx.ok(rule, f, call, what=what)
                else:
                    st, ok_pos, ok_rel = bad_state
                    missing = []
                    if not ok_pos:
                        missing.append("0 < min_value")
                    if not ok_rel:
                        missing.append("min_value <= max_value")
                    ctx.fail(rule, f, call,
                             f"{what}: on some path both bounds may be set while `{' and '.join(missing)}` is not established: the constructor's precondition fails with a ViolationError instead of an error being reported",
                             construct=what)
