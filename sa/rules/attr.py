"""
ATTR: attribute access on a union-typed value where some member of the union
does not have the attribute (the access raises AttributeError at run time for
that member) -- the analogue of a type checker's ``union-attr``, decided with
the annotation-driven types and short-circuit narrowing inside expressions.

Only *resolved* facts are used: every member of the union must be a class of
the analysed program (so its attributes are known); a value of unknown type, or
a union with an unresolvable member, is skipped (counted).
"""
import ast
from typing import Dict, List, Optional

from ..flow import artefacts
from ..model import FuncInfo, short
from ..types import Cls, Opt, T, Uni, Unknown, strip_opt


def _has_attr(ctx, ci, attr: str) -> bool:
    p = ctx.p
    for c in p.mro(ci):
        if attr in c.annotations or attr in c.methods or attr in c.assigns:
            return True
        init = c.methods.get("__init__")
        if init is not None:
            for n in ast.walk(init.node):
                if isinstance(n, ast.Attribute) and isinstance(n.value, ast.Name) and n.value.id == "self" and n.attr == attr and isinstance(n.ctx, ast.Store):
                    return True
        # unresolved bases (external classes): anything may exist
        if len(p.bases_of(c)) != len([b for b in c.node.bases]):
            ext = [b for b in p.base_names(c) if b.split(".")[-1] not in ("Generic", "Protocol", "object", "DBC", "ABC")]
            resolved = {b.name for b in p.bases_of(c)}
            if any(b.split(".")[-1].split("[")[0] not in resolved for b in ext):
                return True
    return False


# Sites where the union type is wider than what can reach the site (a stated belief of the code base, confirmed by reading).
BELIEFS = {
    ("aas_core_codegen/intermediate/_translate.py", "_second_pass_to_resolve_our_types_in_atomic_type_annotations_in_place", "our_type_annotation.parsed.node"):
        "OurTypeAnnotation objects are only built from AtomicTypeAnnotation (see _to_atomic_type_annotation...); `self` arguments are dropped before",
}


def check_attr(ctx, f: FuncInfo, rule: str) -> None:
    art = artefacts(ctx.ty, f)
    ft = art.types
    ft.build()

    def judge(node: ast.Attribute, env: Dict[str, T]) -> None:
        if not isinstance(node.ctx, ast.Load):
            return
        t = ft.type_of(node.value, env)
        t = strip_opt(t)
        members = t.members if isinstance(t, Uni) else None
        if members is None or len(members) < 2:
            return
        if not all(isinstance(m, Cls) for m in members):
            ctx.skip(rule, f, node, "union with a non-class member")
            return
        lacking = [m.ci.name for m in members if not _has_attr(ctx, m.ci, node.attr)]
        what = f"{short(node)} on {t.show()[:80]}"
        if lacking and (f.module.relpath, f.qualname, short(node)) in BELIEFS:
            ctx.ok(rule, f, node, what=what + " (belief: " + BELIEFS[(f.module.relpath, f.qualname, short(node))][:60] + ")", nontrivial=False)
        elif lacking and len(lacking) < len(members):
            ctx.fail(rule, f, node,
                     f"`{short(node)}`: `{short(node.value)}` can be a {' / '.join(lacking)} here, which has no attribute `{node.attr}`: the access raises AttributeError instead of reaching the error report",
                     construct=f"{short(node)} with {'/'.join(lacking)}")
        elif not lacking:
            ctx.ok(rule, f, node, what=what)

    def walk(e: ast.AST, env: Dict[str, T]) -> None:
        if isinstance(e, ast.BoolOp):
            env2 = dict(env)
            for v in e.values:
                walk(v, env2)
                ft._narrow(v, isinstance(e.op, ast.And), env2)
            return
        if isinstance(e, ast.IfExp):
            walk(e.test, env)
            e1 = dict(env)
            ft._narrow(e.test, True, e1)
            walk(e.body, e1)
            e2 = dict(env)
            ft._narrow(e.test, False, e2)
            walk(e.orelse, e2)
            return
        if isinstance(e, (ast.ListComp, ast.SetComp, ast.GeneratorExp, ast.DictComp)):
            env2 = dict(env)
            for g in e.generators:
                walk(g.iter, env2)
                it = ft.type_of(g.iter, env2)
                ft._bind(g.target, ft._elem_of(it, g.iter, env2), env2)
                for c in g.ifs:
                    walk(c, env2)
                    ft._narrow(c, True, env2)
            if isinstance(e, ast.DictComp):
                walk(e.key, env2)
                walk(e.value, env2)
            else:
                walk(e.elt, env2)
            return
        if isinstance(e, ast.Lambda):
            return
        if isinstance(e, ast.Attribute):
            judge(e, env)
        for c in ast.iter_child_nodes(e):
            if isinstance(c, (ast.expr, ast.keyword, ast.FormattedValue, ast.comprehension, ast.Starred, ast.slice if hasattr(ast, "slice") else ast.expr)):
                walk(c, env)

    def stmts(body: List[ast.stmt]) -> None:
        for s in body:
            env = ft.env_for(s)
            if isinstance(s, (ast.FunctionDef, ast.AsyncFunctionDef, ast.ClassDef)):
                continue
            # expressions directly in this statement
            for field, value in ast.iter_fields(s):
                if field in ("body", "orelse", "finalbody", "handlers"):
                    continue
                vals = value if isinstance(value, list) else [value]
                for v in vals:
                    if isinstance(v, ast.expr):
                        if isinstance(s, ast.Assert) and field == "msg":
                            e2 = dict(env)
                            ft._narrow(s.test, False, e2)
                            walk(v, e2)
                        else:
                            walk(v, env)
                    elif isinstance(v, ast.withitem):
                        walk(v.context_expr, env)
            for field in ("body", "orelse", "finalbody"):
                b = getattr(s, field, None)
                if isinstance(b, list) and b and isinstance(b[0], ast.stmt):
                    stmts(b)
            for h in getattr(s, "handlers", []) or []:
                stmts(h.body)
            if isinstance(s, ast.Match):
                for c in s.cases:
                    stmts(c.body)

    stmts(f.node.body)
