"""
G-TS: typestate of ``retree.Cursor`` (DESIGN §3).

Abstract state: a set of facts about the *current* cursor position
  ("nopeek", L)   the input does not continue with literal L
  ("peek", L)     the input continues with literal L
  "notdone"       the cursor is not at the end of input
  "done"          the cursor is at the end of input
``try_literal(L)`` succeeding moves the cursor (all facts cleared); failing adds
("nopeek", L) and ("nopeek", L') for every recorded literal L' that has L as a
prefix.  Any other call that is handed the cursor, or any other method of it,
clears the facts.  States are joined by intersection (must-facts).
"""
import ast
from typing import Any, Dict, FrozenSet, List, Optional, Set, Tuple

from ..cfg import CFG, Node, forward_dataflow
from ..flow import calls_in, node_exprs
from ..model import dotted_of

NON_MOVING = {"done", "peek_literal", "pointed_value", "copy", "major_cursor", "minor_cursor"}


def cursor_test(expr: ast.AST, cur: str) -> Optional[Tuple[str, Optional[str]]]:
    """('try'|'peek'|'done', literal) if ``expr`` is such a call on ``cur``."""
    if isinstance(expr, ast.Call) and isinstance(expr.func, ast.Attribute) and isinstance(expr.func.value, ast.Name) and expr.func.value.id == cur:
        m = expr.func.attr
        if m in ("try_literal", "peek_literal"):
            arg = expr.args[0] if expr.args else next((k.value for k in expr.keywords if k.arg == "literal"), None)
            if isinstance(arg, ast.Constant) and isinstance(arg.value, str):
                return ("try" if m == "try_literal" else "peek", arg.value)
            return ("try" if m == "try_literal" else "peek", None)
        if m == "done":
            return ("done", None)
    return None


def moves_cursor(node: Node, cur: str) -> bool:
    """Does the node (other than as a recognised test) possibly move the cursor?"""
    for c in calls_in(node):
        t = cursor_test(c, cur)
        if t is not None:
            if t[0] == "try":
                return True  # a try_literal used for its effect only
            continue
        if isinstance(c.func, ast.Attribute) and isinstance(c.func.value, ast.Name) and c.func.value.id == cur:
            if c.func.attr not in NON_MOVING:
                return True
        for a in list(c.args) + [k.value for k in c.keywords]:
            if isinstance(a, ast.Name) and a.id == cur:
                return True
    return False


def cursor_facts(cfg: CFG, cur: str, init: FrozenSet[Any] = frozenset()) -> Dict[int, FrozenSet[Any]]:
    def transfer(node: Node, st: FrozenSet[Any]) -> FrozenSet[Any]:
        if node.kind == "test" and node.expr is not None and cursor_test(node.expr, cur) is not None:
            return st  # handled on the edges
        if moves_cursor(node, cur):
            return frozenset()
        return st

    def edge(node: Node, st: FrozenSet[Any], label: Any, dst: Node):
        if node.kind == "test" and node.expr is not None and label in (True, False):
            t = cursor_test(node.expr, cur)
            if t is None:
                return st
            kind, lit = t
            if kind == "done":
                if label:
                    if "notdone" in st:
                        return None
                    return st | {"done"}
                if "done" in st:
                    return None
                return st | {"notdone"}
            if lit is None:
                return frozenset() if (kind == "try" and label) else st
            if label:
                if ("nopeek", lit) in st or "done" in st:
                    return None  # infeasible
                if kind == "try":
                    return frozenset()
                return st | {("peek", lit), "notdone"}
            else:
                if ("peek", lit) in st:
                    return None
                add = {("nopeek", lit)}
                return st | add
        return st

    def join(a, b):
        return a & b

    return forward_dataflow(cfg, init, transfer, edge, join, lambda a, b: a == b)


def implies_nopeek(st: FrozenSet[Any], lit: str) -> bool:
    """The input certainly does not continue with ``lit``."""
    if "done" in st:
        return True
    for f in st:
        if isinstance(f, tuple) and f[0] == "nopeek" and lit.startswith(f[1]):
            return True
    return False
