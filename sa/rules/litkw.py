"""
LIT-KW: the keyword arguments of the literal functions that exist only for
parts of an interpolated string (``duplicate_curly_brackets``, ``in_backticks``,
``without_enclosing``) are passed with a true value only inside the
``transform_joined_str`` methods, where the literal really is such a part.
Anywhere else the emitted literal denotes another text (``{id}`` becomes
``{{id}}``) or is not a literal at all (no quotes).
"""
import ast

from ..model import dotted_of, short

KWS = ("duplicate_curly_brackets", "in_backticks", "without_enclosing")


def check_literal_keywords(ctx, rule: str, scope=None) -> None:
    n = 0
    for f in ctx.p.all_functions():
        if scope is not None and not scope(f.module):
            continue
        for c in ast.walk(f.node):
            if not (isinstance(c, ast.Call) and (dotted_of(c.func) or "").split(".")[-1].endswith("string_literal")):
                continue
            for kw in c.keywords:
                if kw.arg in KWS and not (isinstance(kw.value, ast.Constant) and kw.value.value is False):
                    n += 1
                    inside = f.name.lstrip("_").startswith("transform_joined_str")
                    what = f"{f.module.relpath.split('aas_core_codegen/')[-1]} {f.qualname}: {kw.arg}={short(kw.value)} only for parts of an interpolated string"
                    if inside:
                        ctx.ok(rule, f, c, what=what)
                    else:
                        ctx.fail(rule, f, c,
                                 f"`{short(c)}` passes {kw.arg}={short(kw.value)} outside transform_joined_str: the value is emitted as a stand-alone literal, where this option changes the text it denotes (doubled braces, `${{` handling) or drops its quotes",
                                 construct=f"{f.qualname}: {kw.arg} on a stand-alone literal")
    ctx.require_anchor(n >= 4 or scope is not None, "the interpolation-only keywords are used by the transform_joined_str methods")


def check_enclosing_agreement(ctx, rule: str) -> None:
    """A literal function that picks its delimiter from the text (python: fewer escapes) must be told the delimiter when the caller
    writes the quotes itself (``without_enclosing=True``): otherwise each part is escaped for its own best delimiter, not for the one
    that encloses the joined text, and a quote of the enclosing kind stays unescaped."""
    n = 0
    for f in ctx.p.all_functions():
        for c in ast.walk(f.node):
            if not (isinstance(c, ast.Call) and (dotted_of(c.func) or "").split(".")[-1].endswith("string_literal")):
                continue
            r = ctx.p.resolve_expr(f.module, c.func)
            if r is None or r[0] != "func" or "quoting" not in r[1].param_names():
                continue
            kws = {k.arg: k.value for k in c.keywords}
            we = kws.get("without_enclosing")
            if we is None or (isinstance(we, ast.Constant) and we.value is False):
                continue
            n += 1
            q = kws.get("quoting")
            what = f"{f.module.relpath.split('aas_core_codegen/')[-1]} {f.qualname}: without_enclosing comes with an explicit quoting"
            if q is None or (isinstance(q, ast.Constant) and q.value is None):
                ctx.fail(rule, f, c, f"`{short(c)}` omits the enclosing quotes but leaves the choice of the escaping table to the literal function (no `quoting=`): the table is chosen per part from its own quote counts, so a part can leave the quote character unescaped that the caller then uses to enclose the joined text", construct=what)
            else:
                ctx.ok(rule, f, c, what=what)
    ctx.require_anchor(n >= 2, "literal parts emitted without enclosing quotes (python f-strings)")
