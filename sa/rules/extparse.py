"""
EXT-PARSE: calls of external parsers on text that comes from the user (the
meta-model, its patterns, the snippets) sit in a ``try`` whose handler covers
what the parser raises on malformed input, so that the failure becomes an error
report and not a traceback.

The table lists, per parser, the exception classes that cover its documented
failures; ``Exception``/``BaseException``/bare ``except`` cover everything.
Third-party parsers without a documented closed set of exceptions (greenery,
docutils) need ``Exception``.
"""
import ast
from typing import Dict, List, Optional, Set

from ..model import FuncInfo, dotted_of, short, walk_function_body

PARSERS: Dict[str, Set[str]] = {
    "greenery.parse": set(),  # raises NoMatch, ValueError, Exception subclasses of several kinds depending on the version
    "docutils.core.publish_doctree": set(),
    "json.loads": {"json.JSONDecodeError", "JSONDecodeError", "ValueError"},
    "ET.fromstring": {"ET.ParseError", "ParseError", "SyntaxError"},
    "xml.etree.ElementTree.fromstring": {"ET.ParseError", "ParseError", "SyntaxError", "xml.etree.ElementTree.ParseError"},
    "xml.dom.minidom.parseString": {"xml.parsers.expat.ExpatError", "ExpatError"},
    "re.compile": {"re.error"},
    # the Python parser raises SyntaxError, ValueError (NUL bytes), RecursionError and MemoryError on (legal but extreme) input
    "ast.parse": set(),
    "asttokens.ASTTokens": set(),
}
CATCH_ALL = {"Exception", "BaseException"}
SERIALIZERS = {"ET.tostring", "xml.etree.ElementTree.tostring", "json.dumps"}
FAMILY = {"ET.fromstring": "xml", "xml.etree.ElementTree.fromstring": "xml", "xml.dom.minidom.parseString": "xml", "json.loads": "json"}
OWN_SOURCE = {
    ("aas_core_codegen/parse/_rules.py", "_assert_chains_follow_file_structure"): "parses the package's own source file (import-time self-check), not user input",
}


def _handler_names(h: ast.ExceptHandler) -> Optional[List[str]]:
    if h.type is None:
        return None
    es = h.type.elts if isinstance(h.type, ast.Tuple) else [h.type]
    return [dotted_of(e) or "?" for e in es]


def check_ext_parse(ctx, f: FuncInfo, rule: str) -> None:
    parents: Dict[int, ast.AST] = {}
    for n in ast.walk(f.node):
        for c in ast.iter_child_nodes(n):
            parents[id(c)] = n
    guarded_calls: List[ast.Call] = []
    for call in sorted([n for n in walk_function_body(f.node) if isinstance(n, ast.Call)], key=lambda c: (c.lineno, c.col_offset)):
        d = dotted_of(call.func)
        if d not in PARSERS:
            continue
        if call.args and all(isinstance(a, ast.Constant) for a in call.args):
            continue
        allowed = PARSERS[d] | CATCH_ALL
        covered = False
        exits = False
        handlers_seen: List[str] = []
        cur: ast.AST = call
        while id(cur) in parents and not covered:
            par = parents[id(cur)]
            if isinstance(par, ast.Try) and any(cur is b for b in par.body):
                for h in par.handlers:
                    names = _handler_names(h)
                    if names is None or any(n in allowed for n in names):
                        covered = True
                        from ..types import _always_exits
                        exits = _always_exits(h.body)
                    handlers_seen.extend(names or ["<bare>"])
            cur = par
        what = f"{d}({short(call.args[0], 40) if call.args else ''}) guarded"
        arg0 = call.args[0] if call.args else (call.keywords[0].value if call.keywords else None)
        argname = dotted_of(arg0) if arg0 is not None else None
        # (a) text produced by a serializer in this function is well-formed by construction
        if not covered and isinstance(arg0, ast.Name):
            defs = [n.value for n in walk_function_body(f.node) if isinstance(n, ast.Assign) and len(n.targets) == 1 and dotted_of(n.targets[0]) == arg0.id]
            if defs and all(isinstance(v, ast.Call) and dotted_of(v.func) in SERIALIZERS for v in defs):
                ctx.ok(rule, f, call, what=f"{d}({arg0.id}): the text was produced by {dotted_of(defs[0].func)} in this function")
                continue
        # (b) the same text went through a guarded parser of the same family before
        if not covered and argname is not None:
            fam = FAMILY.get(d)
            earlier = [c for c in guarded_calls if c.lineno < call.lineno and FAMILY.get(dotted_of(c.func)) == fam and c.args and dotted_of(c.args[0]) == argname]
            if fam is not None and earlier:
                ctx.ok(rule, f, call, what=f"{d}({argname}): already parsed by the guarded {dotted_of(earlier[0].func)} at line {earlier[0].lineno}")
                continue
        if not covered and (f.module.relpath, f.qualname) in OWN_SOURCE:
            ctx.ok(rule, f, call, what=f"{d}: {OWN_SOURCE[(f.module.relpath, f.qualname)]}", nontrivial=False)
            continue
        if covered and exits:
            guarded_calls.append(call)
            ctx.ok(rule, f, call, what=what)
        else:
            need = " / ".join(sorted(PARSERS[d])) or "Exception (no documented closed set of exceptions)"
            ctx.fail(rule, f, call,
                     f"`{short(call)}` parses text derived from the input; its failures ({need}) are not covered by an enclosing handler "
                     f"(handlers: {handlers_seen or 'none'}): malformed input ends the run with a traceback instead of an error report",
                     construct=f"{d} unguarded")
