"""
G-NUM helper: linear forms and difference constraints over integer symbols
(``len(e)`` is a symbol keyed by the normalised text of ``e``).  A constraint is
``form <= c``; implication is syntactic on the form with a weaker constant.
Classical abstract domain reasoning: answers are "proved" / "not proved".
"""
import ast
from typing import Dict, List, Optional, Tuple

from ..model import dotted_of, norm

Lin = Tuple[Tuple[Tuple[str, int], ...], int]  # (sorted (symbol, coef)), const


def lin_of(e: ast.AST) -> Optional[Lin]:
    d = _lin(e)
    if d is None:
        return None
    coefs, c = d
    return (tuple(sorted((k, v) for k, v in coefs.items() if v != 0)), c)


def _lin(e: ast.AST) -> Optional[Tuple[Dict[str, int], int]]:
    if isinstance(e, ast.Constant) and isinstance(e.value, int) and not isinstance(e.value, bool):
        return ({}, e.value)
    if isinstance(e, ast.Name):
        return ({e.id: 1}, 0)
    if isinstance(e, ast.Attribute):
        d = dotted_of(e)
        if d is not None:
            return ({d: 1}, 0)
        return None
    if isinstance(e, ast.Call) and dotted_of(e.func) == "len" and len(e.args) == 1:
        return ({f"len({norm(e.args[0])})": 1}, 0)
    if isinstance(e, ast.UnaryOp) and isinstance(e.op, ast.USub):
        r = _lin(e.operand)
        if r is None:
            return None
        return ({k: -v for k, v in r[0].items()}, -r[1])
    if isinstance(e, ast.BinOp) and isinstance(e.op, (ast.Add, ast.Sub)):
        l, r = _lin(e.left), _lin(e.right)
        if l is None or r is None:
            return None
        s = 1 if isinstance(e.op, ast.Add) else -1
        coefs = dict(l[0])
        for k, v in r[0].items():
            coefs[k] = coefs.get(k, 0) + s * v
        return (coefs, l[1] + s * r[1])
    return None


def _sub(a: Lin, b: Lin) -> Lin:
    coefs = dict(a[0])
    for k, v in b[0]:
        coefs[k] = coefs.get(k, 0) - v
    return (tuple(sorted((k, v) for k, v in coefs.items() if v != 0)), a[1] - b[1])


def constraints_of(test: ast.AST, truth: bool) -> List[Tuple[Tuple[Tuple[str, int], ...], int]]:
    """Constraints ``form <= c`` implied by the comparison having value ``truth``
    (integers).  Returns [] when nothing is learnt."""
    if isinstance(test, ast.UnaryOp) and isinstance(test.op, ast.Not):
        return constraints_of(test.operand, not truth)
    if isinstance(test, ast.BoolOp):
        if (isinstance(test.op, ast.And) and truth) or (isinstance(test.op, ast.Or) and not truth):
            out = []
            for v in test.values:
                out.extend(constraints_of(v, truth))
            return out
        return []
    if not (isinstance(test, ast.Compare) and len(test.ops) == 1):
        return []
    a, b = lin_of(test.left), lin_of(test.comparators[0])
    if a is None or b is None:
        return []
    op = type(test.ops[0]).__name__
    if not truth:
        op = {"Gt": "LtE", "GtE": "Lt", "Lt": "GtE", "LtE": "Gt", "Eq": "NotEq", "NotEq": "Eq"}.get(op, "?")
    out = []
    ab, ba = _sub(a, b), _sub(b, a)  # a - b, b - a as (form, const)
    def le(diff: Lin, c: int):
        # diff.form + diff.const <= c   <=>  form <= c - const
        out.append((diff[0], c - diff[1]))
    if op == "LtE":
        le(ab, 0)
    elif op == "Lt":
        le(ab, -1)
    elif op == "GtE":
        le(ba, 0)
    elif op == "Gt":
        le(ba, -1)
    elif op == "Eq":
        le(ab, 0)
        le(ba, 0)
    return out


def implied(need: Tuple[Tuple[Tuple[str, int], ...], int], known: List[Tuple[Tuple[Tuple[str, int], ...], int]]) -> bool:
    form, c = need
    if not form:
        return 0 <= c
    return any(kf == form and kc <= c for kf, kc in known)


def need_le(lhs: ast.AST, rhs: ast.AST) -> Optional[Tuple[Tuple[Tuple[str, int], ...], int]]:
    """The constraint ``lhs <= rhs`` in canonical form."""
    a, b = lin_of(lhs), lin_of(rhs)
    if a is None or b is None:
        return None
    d = _sub(a, b)
    return (d[0], -d[1])


def _as_edge(form, c):
    """``x - y <= c`` as (x, y, c); single-variable forms use the zero node."""
    if len(form) == 1:
        (s, k), = form
        if k == 1:
            return (s, "0", c)
        if k == -1:
            return ("0", s, c)
        return None
    if len(form) == 2:
        (s1, k1), (s2, k2) = form
        if k1 == 1 and k2 == -1:
            return (s1, s2, c)
        if k1 == -1 and k2 == 1:
            return (s2, s1, c)
    return None


def implied_closed(need, known) -> bool:
    """Zone closure (shortest paths over difference constraints) then lookup."""
    if implied(need, known):
        return True
    form, c = need
    if not form:
        return 0 <= c
    e = _as_edge(form, c)
    if e is None:
        return False
    dist = {}
    nodes = set()
    for kf, kc in known:
        ke = _as_edge(kf, kc)
        if ke is None:
            continue
        x, y, w = ke
        nodes.update((x, y))
        if (x, y) not in dist or w < dist[(x, y)]:
            dist[(x, y)] = w
    nodes.update((e[0], e[1]))
    for k in nodes:
        for i in nodes:
            if (i, k) not in dist:
                continue
            for j in nodes:
                if (k, j) in dist:
                    w = dist[(i, k)] + dist[(k, j)]
                    if (i, j) not in dist or w < dist[(i, j)]:
                        dist[(i, j)] = w
    return (e[0], e[1]) in dist and dist[(e[0], e[1])] <= e[2]
