"""
G-FLOW: must-pass-through / ordering on the CFG.

``check_sequence``: every path from the entry of ``f`` to a *success exit* calls
each of the named callees, in the given order.
"""
import ast
from typing import Callable, List, Optional, Sequence, Tuple

from ..cfg import Node
from ..flow import artefacts, calls_in, set_dataflow
from ..model import FuncInfo, dotted_of, short


def _callee_tail(c: ast.Call) -> Optional[str]:
    d = dotted_of(c.func)
    return d.split(".")[-1] if d else None


def check_sequence(ctx, f: FuncInfo, rule: str, required: Sequence[str], is_success: Callable[[Node], bool], what_prefix: str = "") -> None:
    art = artefacts(ctx.ty, f)
    cfg = art.cfg
    req = list(required)

    def transfer(node: Node, st: Tuple[str, ...]):
        seen = list(st)
        # calls inside one node: source order
        cs = sorted(calls_in(node), key=lambda c: (c.lineno, c.col_offset))
        for c in cs:
            t = _callee_tail(c)
            if t in req and t not in seen:
                seen.append(t)
        return [tuple(seen)]

    IN = set_dataflow(cfg, frozenset([()]), transfer)
    n_exits = 0
    for node in cfg.nodes:
        if node.id not in IN or node.kind not in ("return", "end"):
            continue
        if not is_success(node):
            continue
        n_exits += 1
        for st in IN[node.id]:
            st = transfer(node, st)[0]
            missing = [r for r in req if r not in st]
            order_ok = [x for x in st if x in req] == [r for r in req if r in st]
            what = f"{what_prefix}success exit `{short(node.stmt) if node.stmt is not None else 'end'}` after {' -> '.join(req)}"
            if missing:
                ctx.fail(rule, f, node.stmt or f.node, f"a path reaches the success exit at line {node.lineno} without calling {', '.join(missing)}", construct=f"{what_prefix}success exit without {', '.join(missing)}")
                break
            if not order_ok:
                ctx.fail(rule, f, node.stmt or f.node, f"the stages are called in the order {' -> '.join(st)}, expected {' -> '.join(req)}", construct=f"{what_prefix}stage order")
                break
        else:
            ctx.ok(rule, f, node.stmt or f.node, what=what)
    ctx.require_anchor(n_exits > 0, f"{f.key} has a success exit")


def returns_const(value) -> Callable[[Node], bool]:
    def pred(node: Node) -> bool:
        return node.kind == "return" and isinstance(node.expr, ast.Constant) and node.expr.value == value and type(node.expr.value) is type(value)
    return pred


def returns_value_none(node: Node) -> bool:
    """``return X, None`` with X not the constant None."""
    e = node.expr
    return (
        node.kind == "return" and isinstance(e, ast.Tuple) and len(e.elts) == 2
        and isinstance(e.elts[1], ast.Constant) and e.elts[1].value is None
        and not (isinstance(e.elts[0], ast.Constant) and e.elts[0].value is None)
    )
