"""
Format-spec typing (part of G-ESC): an f-string ``{e:spec}`` whose spec ends in
an integer/float presentation type requires ``e`` to be a number; a value whose
type resolves to a class instance raises TypeError at run time.
"""
import ast
from typing import Optional

from ..flow import artefacts
from ..model import FuncInfo, short, walk_with_lambdas
from ..types import Cls, Ext, Opt, Uni, Unknown, strip_opt

INT_TYPES = "bcdoxXn"
FLOAT_TYPES = "eEfFgG%"


def _spec_type(fv: ast.FormattedValue) -> Optional[str]:
    spec = fv.format_spec
    if spec is None or not isinstance(spec, ast.JoinedStr):
        return None
    if not all(isinstance(v, ast.Constant) for v in spec.values):
        return None
    text = "".join(str(v.value) for v in spec.values)
    if text and text[-1] in INT_TYPES + FLOAT_TYPES:
        return text[-1]
    return None


def check_format_specs(ctx, f: FuncInfo, rule: str) -> None:
    art = None
    parents = None
    for n in walk_with_lambdas(f.node):
        if not isinstance(n, ast.FormattedValue):
            continue
        ty = _spec_type(n)
        if ty is None:
            continue
        if art is None:
            art = artefacts(ctx.ty, f)
            parents = {}
            for p in ast.walk(f.node):
                for c in ast.iter_child_nodes(p):
                    parents[id(c)] = p
        cur = n
        while cur is not None and not isinstance(cur, ast.stmt):
            cur = parents.get(id(cur))
        env = (art.types.env_for(cur) if cur is not None else {}) or art.types.final_env()
        t = strip_opt(art.types.type_of(n.value, env))
        what = f"{{{short(n.value)}:...{ty}}}"
        if isinstance(t, Cls) and not ctx.p.is_enum(t.ci) and not _is_numeric_subclass(ctx, t):
            ctx.fail(rule, f, n, f"`{short(n.value)}` has type {t.ci.name} but is formatted with the numeric presentation type '{ty}': TypeError at run time", construct=what)
        elif isinstance(t, Ext) and t.name in ("str", "bytes", "None") and ty in INT_TYPES + FLOAT_TYPES:
            ctx.fail(rule, f, n, f"`{short(n.value)}` has type {t.name} but is formatted with the numeric presentation type '{ty}': ValueError at run time", construct=what)
        elif isinstance(t, Unknown):
            ctx.skip(rule, f, n, f"type of `{short(n.value)}` unresolved")
        else:
            ctx.ok(rule, f, n, what=what + f" : {t.show()[:40]}")


def _is_numeric_subclass(ctx, t: Cls) -> bool:
    for c in ctx.p.mro(t.ci):
        for b in ctx.p.base_names(c):
            if b in ("int", "float"):
                return True
    return False
