"""
G-FLD on Python-``ast`` handlers: once a parse rule has established that a value
is an ``ast.K`` node (``isinstance`` in ``matches``/``transform``), every
semantic field of ``K`` is read somewhere in the rule class (translated or
rejected).  A field that is never read is silently dropped from the meaning of
the user's expression.
"""
import ast
from typing import Dict, List, Set, Tuple

from ..model import ClassInfo, dotted_of, short

IGNORED_FIELDS = {"ctx", "type_comment", "kind", "type_ignores"}
# callees that only look at a node for reporting; passing a node to them does not translate it
NON_TRANSLATING = {"isinstance", "Error", "dump", "str", "repr", "len", "type", "get_text", "get_text_range", "unparse", "id"}


def _canon(text: str, aliases: Dict[str, str]) -> str:
    for _ in range(8):
        head = text
        for i, ch in enumerate(text):
            if not (ch.isalnum() or ch == "_"):
                head = text[:i]
                break
        if head in aliases and aliases[head] != head:
            text = aliases[head] + text[len(head):]
        else:
            break
    return text


def _method_facts(m):
    aliases: Dict[str, str] = {}
    for n in ast.walk(m.node):
        if isinstance(n, ast.Assign) and len(n.targets) == 1 and isinstance(n.targets[0], ast.Name) and isinstance(n.value, (ast.Name, ast.Attribute, ast.Subscript)):
            aliases[n.targets[0].id] = ast.unparse(n.value)
    est: Dict[str, Set[str]] = {}
    for n in ast.walk(m.node):
        if isinstance(n, ast.Call) and dotted_of(n.func) == "isinstance" and len(n.args) == 2:
            subj = _canon(ast.unparse(n.args[0]), aliases)
            kinds = n.args[1].elts if isinstance(n.args[1], ast.Tuple) else [n.args[1]]
            names = {(dotted_of(k) or "").split(".")[1] for k in kinds if (dotted_of(k) or "").startswith("ast.")}
            if names and len(names) == len(kinds):
                est.setdefault(subj, set()).update(names)
    reads: Set[str] = set()
    delegated: Set[str] = set()
    for n in ast.walk(m.node):
        if isinstance(n, ast.Attribute):
            reads.add(_canon(ast.unparse(n), aliases))
        if isinstance(n, ast.Call) and (dotted_of(n.func) or "").split(".")[-1] not in NON_TRANSLATING:
            for a in list(n.args) + [k.value for k in n.keywords if k.arg != "original_node"]:
                if isinstance(a, (ast.Name, ast.Attribute, ast.Subscript)):
                    delegated.add(_canon(ast.unparse(a), aliases))
                if isinstance(a, ast.Call) and dotted_of(a.func) == "cast" and len(a.args) == 2:
                    delegated.add(_canon(ast.unparse(a.args[1]), aliases))
    return est, reads, delegated


def check_ast_fields(ctx, ci: ClassInfo, rule: str, exceptions: Dict[Tuple[str, str], str]) -> None:
    est: Dict[str, Set[str]] = {}
    reads: Set[str] = set()
    delegated: Set[str] = set()
    for m in ci.methods.values():
        e, r, d = _method_facts(m)
        for k, v in e.items():
            est.setdefault(k, set()).update(v)
        reads |= r
        delegated |= d
    if not est:
        return
    where = (ci.module.relpath, ci.qualname)
    for subj, kinds in sorted(est.items()):
        if len(kinds) != 1:
            continue  # a union of node kinds: the fields differ
        kind = next(iter(kinds))
        cls = getattr(ast, kind, None)
        if cls is None or not hasattr(cls, "_fields"):
            continue
        if subj in delegated:
            ctx.ok(rule, where, ci.node, what=f"{ci.name}: {subj} (ast.{kind}) handed on as a whole to another rule")
            continue
        for fld in cls._fields:
            if fld in IGNORED_FIELDS or (kind, fld) in exceptions:
                continue
            prefix = f"{subj}.{fld}"
            read = any(r == prefix or r.startswith(prefix + ".") or r.startswith(prefix + "[") for r in reads) or prefix in delegated
            what = f"{ci.name}: {subj} is ast.{kind}; field `{fld}` consulted"
            if read:
                ctx.ok(rule, where, ci.node, what=what)
            else:
                ctx.fail(rule, where, ci.node,
                         f"{ci.name} establishes that `{subj}` is an ast.{kind} but never reads its field `{fld}`: that part of the user's expression is silently dropped instead of being translated or rejected",
                         construct=f"{ci.name}: {subj}: ast.{kind}.{fld} never read")
