"""
G-ERR: error-value discipline (DESIGN §3).

ERR1  pair unpacking ``v, e = f(...)``: the definition of ``e`` is read on every
      path before ``e`` is redefined or the function returns normally.
ERR1v ``v`` of such a pair is not dereferenced while ``e`` is still untested.
ERR2  a call whose result carries errors is not an expression statement; an
      errors-typed result bound to a single name obeys ERR1's must-read rule.
ERR3  a local accumulator of errors that was appended to is not dropped: on no
      path does a *non-empty* accumulator reach a normal exit without having
      been handed on (returned, passed, stored).
"""
import ast
from typing import Any, Dict, FrozenSet, List, Optional, Set, Tuple

from ..cfg import Node
from ..flow import artefacts, loads, stores, calls_in, node_exprs, set_dataflow
from ..model import FuncInfo, dotted_of, short, norm
from ..types import T, Tup, Opt, Seq, Cls, Ext, Uni, Unknown, strip_opt


# ---------------------------------------------------------------------------
# shapes


def _is_errorish(t: T, allow_str: bool = True) -> bool:
    t = strip_opt(t)
    if isinstance(t, Cls) and t.ci.name == "Error":
        return True
    if isinstance(t, Seq):
        return _is_errorish(t.elem, allow_str)
    if allow_str and isinstance(t, Ext) and t.name in ("str", "Exception", "BaseException"):
        return True
    return False


def error_shape(t: T) -> Optional[str]:
    """'pair' | 'errs' | None"""
    if isinstance(t, Tup) and len(t.elems) == 2:
        a, b = t.elems
        if isinstance(a, Opt) and isinstance(b, Opt) and _is_errorish(b.inner):
            return "pair"
        return None
    if isinstance(t, Opt) and _is_errorish(t.inner, allow_str=False):
        return "errs"
    if isinstance(t, Seq) and _is_errorish(t.elem, allow_str=False):
        return "errs"
    return None


def _is_none_test_of(expr: ast.AST, name: str) -> bool:
    """``name is None`` / ``name is not None`` / bare truthiness ``name``."""
    if isinstance(expr, ast.Name) and expr.id == name:
        return True
    if (
        isinstance(expr, ast.Compare)
        and len(expr.ops) == 1
        and isinstance(expr.ops[0], (ast.Is, ast.IsNot))
        and isinstance(expr.left, ast.Name)
        and expr.left.id == name
        and isinstance(expr.comparators[0], ast.Constant)
        and expr.comparators[0].value is None
    ):
        return True
    return False


# ---------------------------------------------------------------------------
# ERR1 / ERR2


def pair_sites(ctx, f: FuncInfo):
    """Yield (node, value_name|None, error_name|None, call, shape) for each
    assignment from an error-carrying call."""
    art = artefacts(ctx.ty, f)
    for node in art.cfg.nodes:
        if node.kind != "stmt" or not isinstance(node.stmt, (ast.Assign, ast.AnnAssign)):
            continue
        st = node.stmt
        value = st.value
        if not isinstance(value, ast.Call):
            continue
        targets = st.targets if isinstance(st, ast.Assign) else [st.target]
        if len(targets) != 1:
            continue
        env = art.env_at(node)
        t = art.types.type_of(value, env)
        shape = error_shape(t)
        if shape is None:
            continue
        tgt = targets[0]
        if shape == "pair":
            if isinstance(tgt, ast.Tuple) and len(tgt.elts) == 2:
                v, e = tgt.elts
                vn = v.id if isinstance(v, ast.Name) else None
                en = e.id if isinstance(e, ast.Name) else None
                yield node, vn, en, value, shape
            elif isinstance(tgt, ast.Name):
                yield node, None, tgt.id, value, "pair-as-one"
        else:
            if isinstance(tgt, ast.Name):
                yield node, None, tgt.id, value, shape


def check_err12(ctx, f: FuncInfo, rule1: str, rule1v: str, rule2: str) -> None:
    art = artefacts(ctx.ty, f)
    cfg = art.cfg
    reach = cfg.reachable()

    # ERR2: dropped result
    for node in cfg.nodes:
        if node.id not in reach:
            continue
        if node.kind == "stmt" and isinstance(node.stmt, ast.Expr) and isinstance(node.stmt.value, ast.Call):
            call = node.stmt.value
            env = art.env_at(node)
            t = art.types.type_of(call, env)
            shape = error_shape(t)
            if shape is not None:
                ctx.fail(
                    rule2, f, call,
                    f"the call returns {t.show()} and its result is discarded: an error reported by the callee is silently dropped",
                )
            else:
                tgt = art.types.resolve_call(call, env)
                if tgt is not None and not isinstance(t, Unknown):
                    ctx.ok(rule2, f, call, nontrivial=False)

    sites = [s for s in pair_sites(ctx, f) if s[0].id in reach]
    if not sites:
        return
    # Pending definitions of error variables: state = frozenset of (site_id, var)
    site_by_id = {s[0].id: s for s in sites}

    closure = _closure_readers(f)

    def reads(node: Node, sid: int) -> bool:
        """Does ``node`` read the error of site ``sid``?"""
        _, vn, en, call, _ = site_by_id[sid]
        if en is None:
            return False
        ld = _loads_with_closures(node, closure)
        if en == "_":
            # idiom: ``_ = recv.transform(x)`` followed by a read of ``recv.errors``
            recv = _receiver_name(call)
            if recv is None:
                return False
            for e in node_exprs(node):
                for n in ast.walk(e):
                    if (
                        isinstance(n, ast.Attribute)
                        and n.attr == "errors"
                        and isinstance(n.value, ast.Name)
                        and n.value.id == recv
                    ):
                        return True
            return False
        return en in ld

    # "tested" = the error variable was read; value-use before that is ERR1v
    def transfer(node: Node, state):
        # state: frozenset of (site_id)
        pend = set(state)
        st = stores(node)
        # reads discharge
        for sid in list(pend):
            _, vn, en, _, _ = site_by_id[sid]
            if en is not None and (reads(node, sid) or (en in st and en != "_")):
                pend.discard(sid)
        # new definition
        if node.id in site_by_id:
            _, vn, en, call, shape = site_by_id[node.id]
            # redefinition kills pending defs of the same name: recorded below
            pend.add(node.id)
        return [frozenset(pend)]

    def edge(node: Node, state, label):
        # idiom: ``if v is not None: <use v>`` — by the XOR contract of the pair
        # convention a non-None value means there is no error to read
        if (
            node.kind == "test" and node.expr is not None and label in (True, False) and state
            and not isinstance(node.owner, ast.Assert)  # an assert is a belief, not a handling
        ):
            drop = []
            for sid in state:
                _, vn, en, _, _ = site_by_id[sid]
                if vn is None:
                    continue
                pol = _none_test_polarity(node.expr, vn)
                if pol is None:
                    continue
                value_is_set = (label == pol)
                if value_is_set:
                    drop.append(sid)
            if drop:
                return frozenset(s for s in state if s not in drop)
        return state

    IN = set_dataflow(cfg, frozenset([frozenset()]), transfer, edge)

    reported: Set[Tuple[int, str]] = set()

    def report(sid: int, kind: str, at: Node, msg: str) -> None:
        if (sid, kind) in reported:
            return
        reported.add((sid, kind))
        node, vn, en, call, shape = site_by_id[sid]
        ctx.fail(rule1 if kind != "v" else rule1v, f, node.stmt, msg,
                 construct=short(node.stmt))

    for node in cfg.nodes:
        if node.id not in IN:
            continue
        ld0 = _loads_with_closures(node, closure)
        st = stores(node)
        for state in IN[node.id]:
            for sid in state:
                snode, vn, en, call, shape = site_by_id[sid]
                if en is None:
                    continue
                ld = set(ld0)
                if reads(node, sid):
                    ld.add(en)
                elif en == "_":
                    ld.discard(en)
                # killed before read
                if en in st and en not in ld and node.id != sid and en != "_":
                    report(sid, "killed", node,
                           f"the error `{en}` returned by `{short(call.func)}` is overwritten at line {node.lineno} before it was ever read")
                if en in st and node.id == sid and en not in ld and en != "_":
                    # loop: the same site redefines its own pending error
                    report(sid, "killed", node,
                           f"the error `{en}` returned by `{short(call.func)}` is overwritten by the next iteration before it was ever read")
                if node.kind in ("return", "end") and en not in ld:
                    where = f"the return at line {node.lineno}" if node.kind == "return" else "the end of the function"
                    report(sid, "exit", node,
                           f"the error `{en}` returned by `{short(call.func)}` is never read on a path to {where}")
                # value used while error untested
                if vn is not None and vn in ld and en not in ld:
                    if not _only_benign_value_use(node, vn):
                        report(sid, "v", node,
                               f"`{vn}` is used at line {node.lineno} while the error `{en}` of the same call is still untested")

    # -- tested, found set, and then dropped -------------------------------------------
    # ``armed`` = the error is known to be set (the not-None edge of a None-test was taken) and has not been consumed
    # by anything but tests since.  Reaching a normal exit armed, on a path that produces no error of its own, means
    # the run continues as if nothing had happened.
    def transfer_u(node: Node, state):
        armed = set(state)
        st = stores(node)
        ld = _loads_with_closures(node, closure)
        for sid in list(armed):
            _, vn, en, _, _ = site_by_id[sid]
            if en in st:
                armed.discard(sid)
            elif en in ld and node.kind != "test":
                armed.discard(sid)
            elif node.kind != "test" and _produces_error(node):
                armed.discard(sid)  # the path reports an error of its own
        return [frozenset(armed)]

    def edge_u(node: Node, state, label):
        if node.kind == "test" and node.expr is not None and label in (True, False) and not isinstance(node.owner, ast.Assert):
            add = set()
            for sid, (_, vn, en, _, _) in site_by_id.items():
                if en is None or en == "_":
                    continue
                pol = _none_test_polarity(node.expr, en)
                if pol is None:
                    continue
                if label == pol:  # the edge on which ``en`` is not None
                    add.add(sid)
            if add:
                return frozenset(set(state) | add)
        return state

    INU = set_dataflow(cfg, frozenset([frozenset()]), transfer_u, edge_u)
    for node in cfg.nodes:
        if node.id not in INU or node.kind not in ("return", "end"):
            continue
        ld0 = _loads_with_closures(node, closure)
        for state in INU[node.id]:
            for sid in state:
                snode, vn, en, call, shape = site_by_id[sid]
                if en in ld0 or _produces_error(node):
                    continue
                where = f"the return at line {node.lineno}" if node.kind == "return" else "the end of the function"
                report(sid, "dropped", node,
                       f"the error `{en}` returned by `{short(call.func)}` is tested and found set, but on a path to {where} it is neither handed on nor replaced by another error: the failure is swallowed")

    for sid, (node, vn, en, call, shape) in site_by_id.items():
        if en is None:
            tgt = node.stmt.targets[0] if isinstance(node.stmt, ast.Assign) else None
            ctx.fail(rule1, f, node.stmt, f"the error member of the pair returned by `{short(call.func)}` is not bound to a name")
            continue
        if not any(s == sid for (s, k) in reported if k != "v"):
            ctx.ok(rule1, f, node.stmt)
        if vn is not None and (sid, "v") not in reported:
            ctx.ok(rule1v, f, node.stmt, nontrivial=True)


def _produces_error(node: Node) -> bool:
    """The node constructs or records an error of its own (Error(...), errors.append/extend, a non-zero return code,
    write_error_report)."""
    for e in node_exprs(node):
        for n in ast.walk(e):
            if isinstance(n, ast.Call):
                d = dotted_of(n.func) or ""
                tail = d.split(".")[-1]
                if tail in ("Error", "write_error_report") or d.endswith("errors.append") or d.endswith("errors.extend") or tail in ("append", "extend") and "error" in d.lower():
                    return True
    if node.kind == "return" and isinstance(node.expr, ast.Constant) and isinstance(node.expr.value, int) and not isinstance(node.expr.value, bool) and node.expr.value != 0:
        return True
    if node.kind == "return" and isinstance(node.expr, ast.Tuple) and len(node.expr.elts) >= 2 and not (isinstance(node.expr.elts[-1], ast.Constant) and node.expr.elts[-1].value is None):
        return True  # returns something in the error slot
    return False


def _receiver_name(call: ast.Call) -> Optional[str]:
    if isinstance(call.func, ast.Attribute) and isinstance(call.func.value, ast.Name):
        return call.func.value.id
    return None


def _none_test_polarity(expr: ast.AST, name: str) -> Optional[bool]:
    """True when the True-edge of ``expr`` means "``name`` is not None"."""
    if isinstance(expr, ast.Name) and expr.id == name:
        return True
    if (
        isinstance(expr, ast.Compare)
        and len(expr.ops) == 1
        and isinstance(expr.left, ast.Name)
        and expr.left.id == name
        and isinstance(expr.comparators[0], ast.Constant)
        and expr.comparators[0].value is None
    ):
        if isinstance(expr.ops[0], ast.IsNot):
            return True
        if isinstance(expr.ops[0], ast.Is):
            return False
    return None


def _closure_readers(f: FuncInfo) -> Dict[str, Set[str]]:
    """nested function name -> names it reads from the enclosing scope."""
    out: Dict[str, Set[str]] = {}
    for name, nf in f.nested.items():
        rd = set()
        for n in ast.walk(nf.node):
            if isinstance(n, ast.Name) and isinstance(n.ctx, ast.Load):
                rd.add(n.id)
        out[name] = rd
    return out


def _loads_with_closures(node: Node, closure: Dict[str, Set[str]]) -> Set[str]:
    ld = set(loads(node))
    if closure and node.kind != "def":
        for c in calls_in(node):
            if isinstance(c.func, ast.Name) and c.func.id in closure:
                ld |= closure[c.func.id]
    return ld


def _only_benign_value_use(node: Node, vn: str) -> bool:
    """The value is only compared to None / asserted non-None / returned."""
    if node.kind == "test" and node.expr is not None and _is_none_test_of(node.expr, vn):
        return True
    if node.kind == "return":
        return True
    if node.kind == "abort":
        return True
    return False


# ---------------------------------------------------------------------------
# ERR3


def _accumulators(ctx, f: FuncInfo) -> Dict[str, ast.stmt]:
    """Local names initialised to an empty list and typed as a list of errors."""
    art = artefacts(ctx.ty, f)
    out: Dict[str, ast.stmt] = {}
    for node in art.cfg.nodes:
        if node.kind != "stmt":
            continue
        st = node.stmt
        name = None
        value = None
        ann_t: Optional[T] = None
        if isinstance(st, ast.AnnAssign) and isinstance(st.target, ast.Name):
            name, value = st.target.id, st.value
            ann_t = ctx.ty.from_annotation(f.module, st.annotation)
        elif isinstance(st, ast.Assign) and len(st.targets) == 1 and isinstance(st.targets[0], ast.Name):
            name, value = st.targets[0].id, st.value
            tc = st.type_comment or f.module.trailing_type_comment(st.lineno)
            if tc:
                try:
                    ann_t = ctx.ty.from_annotation(f.module, ast.parse(tc, mode="eval").body)
                except SyntaxError:
                    ann_t = None
        if name is None or not (isinstance(value, ast.List) and not value.elts):
            continue
        if ann_t is None:
            # untyped ``errors = []``: an accumulator if errors are put into it
            for other in art.cfg.nodes:
                mk = _mutation_kind(other, name)
                if mk is None or not isinstance(other.stmt, ast.Expr):
                    continue
                call = other.stmt.value
                if not call.args:
                    continue
                at = art.types.type_of(call.args[-1], art.env_at(other))
                if _is_errorish(at, allow_str=False) or (_is_errorish(at) and "error" in name.lower()):
                    ann_t = Seq(at.elem if isinstance(strip_opt(at), Seq) and mk == "extend" else strip_opt(at) if mk == "append" else strip_opt(at), "List")
                    if isinstance(strip_opt(at), Seq) and mk == "extend":
                        ann_t = Seq(strip_opt(at).elem, "List")
                    break
        if ann_t is None:
            continue
        if isinstance(ann_t, Seq) and (
            (isinstance(ann_t.elem, Cls) and ann_t.elem.ci.name == "Error")
            or (isinstance(ann_t.elem, Ext) and ann_t.elem.name == "str" and "error" in name.lower())
        ):
            out.setdefault(name, st)
    return out


_E, _D, _M, _X = "E", "D", "M", "X"


def _mutation_kind(node: Node, name: str) -> Optional[str]:
    """'append' | 'extend' | None for ``name.append(..)`` / ``name.extend(..)`` / ``name += ..``."""
    if node.kind == "stmt" and isinstance(node.stmt, ast.Expr) and isinstance(node.stmt.value, ast.Call):
        fn = node.stmt.value.func
        if isinstance(fn, ast.Attribute) and isinstance(fn.value, ast.Name) and fn.value.id == name:
            if fn.attr in ("append", "insert"):
                return "append"
            if fn.attr == "extend":
                return "extend"
    if node.kind == "stmt" and isinstance(node.stmt, ast.AugAssign):
        t = node.stmt.target
        if isinstance(t, ast.Name) and t.id == name:
            return "extend"
    return None


def _emptiness_test(expr: ast.AST, name: str) -> Optional[bool]:
    """
    If ``expr`` is an emptiness test of ``name``, return the truth value of
    "non-empty" on the True edge: ``len(x) > 0``/``x``/``len(x) != 0``/``len(x) >= 1``
    → True; ``len(x) == 0``/``not x`` (handled by polarity) → False.
    """
    if isinstance(expr, ast.Name) and expr.id == name:
        return True
    if isinstance(expr, ast.Compare) and len(expr.ops) == 1:
        l, op, r = expr.left, expr.ops[0], expr.comparators[0]
        def is_len(e):
            return (
                isinstance(e, ast.Call) and dotted_of(e.func) == "len" and len(e.args) == 1
                and isinstance(e.args[0], ast.Name) and e.args[0].id == name
            )
        def const(e):
            return e.value if isinstance(e, ast.Constant) and isinstance(e.value, int) else None
        if is_len(l) and const(r) is not None:
            k = const(r)
            if isinstance(op, ast.Gt) and k == 0:
                return True
            if isinstance(op, ast.GtE) and k == 1:
                return True
            if isinstance(op, ast.NotEq) and k == 0:
                return True
            if isinstance(op, ast.Eq) and k == 0:
                return False
            if isinstance(op, ast.Lt) and k == 1:
                return False
        if is_len(r) and const(l) is not None:
            k = const(l)
            if isinstance(op, ast.Lt) and k == 0:
                return True
            if isinstance(op, ast.Eq) and k == 0:
                return False
            if isinstance(op, ast.NotEq) and k == 0:
                return True
    return None


def _escapes(node: Node, name: str, closure: Optional[Dict[str, Set[str]]] = None) -> bool:
    """``name`` is read by the node other than by its own mutation/emptiness test."""
    if node.kind == "def":
        return False
    if closure:
        for c in calls_in(node):
            if isinstance(c.func, ast.Name) and name in closure.get(c.func.id, ()):
                return True
    if name not in loads(node):
        return False
    if _mutation_kind(node, name) is not None:
        # ``errors.append(x)`` mentions errors only as receiver.  Even
        # ``errors.append(Error(.., underlying=errors))`` is no hand-over: the
        # content goes into ``errors`` itself and nowhere else.
        return False
    if node.kind == "test" and node.expr is not None and _emptiness_test(node.expr, name) is not None:
        return False
    if node.kind == "abort":
        # ``assert not errors`` / assert message: not a hand-over
        return False
    return True


def check_err3(ctx, f: FuncInfo, rule: str) -> None:
    accs = _accumulators(ctx, f)
    if not accs:
        return
    art = artefacts(ctx.ty, f)
    cfg = art.cfg
    closure = _closure_readers(f)
    for name, decl in accs.items():
        decl_nodes = [n for n in cfg.nodes if n.stmt is decl]

        def transfer(node: Node, state, name=name):
            if state is None:
                return [state]
            if node.kind == "stmt" and node.stmt is not None and name in stores(node) and _mutation_kind(node, name) is None:
                # (re-)initialisation
                st = node.stmt
                val = getattr(st, "value", None)
                if isinstance(val, ast.List) and not val.elts:
                    return [_E]
                return [_X]  # assigned from elsewhere: not ours to judge
            mk = _mutation_kind(node, name)
            if mk is not None and _escapes(node, name, closure):
                mk = None
            if mk == "append":
                return [_D]
            if mk == "extend":
                return [_D if state == _D else _M]
            if _escapes(node, name, closure):
                return [_X]
            return [state]

        def edge(node: Node, state, label, name=name):
            if node.kind == "test" and node.expr is not None and label in (True, False):
                r = _emptiness_test(node.expr, name)
                if r is not None:
                    nonempty = (label == r)
                    if nonempty:
                        if state == _E:
                            return None
                        if state == _M:
                            return _D
                    else:
                        if state == _D:
                            return None
                        if state == _M:
                            return _E
            return state

        IN = set_dataflow(cfg, frozenset(["U"]), transfer, edge)
        bad: List[Tuple[Node, str]] = []
        for node in cfg.nodes:
            if node.id not in IN or node.kind not in ("return", "end"):
                continue
            if _escapes(node, name, closure):
                continue
            states = IN[node.id]
            if _D in states or _M in states:
                bad.append((node, _D if _D in states else _M))
        mutated = any(_mutation_kind(n, name) is not None for n in cfg.nodes)
        if not mutated:
            continue
        if bad:
            node, how = bad[0]
            where = f"the return at line {node.lineno}" if node.kind == "return" else "the end of the function"
            ctx.fail(
                rule, f, decl,
                f"errors collected in `{name}` are dropped: a {'non-empty' if how == _D else 'possibly non-empty'} `{name}` reaches {where} "
                f"(`{short(node.stmt) if node.stmt is not None else 'implicit return None'}`) without being returned, passed on or tested",
                construct=f"accumulator {name}",
            )
        else:
            ctx.ok(rule, f, decl, what=f"accumulator {name}")


# ---------------------------------------------------------------------------
# RET-XOR


def has_xor_ensure(f: FuncInfo) -> bool:
    for d in f.node.decorator_list:
        if isinstance(d, ast.Call) and dotted_of(d.func) in ("ensure", "icontract.ensure") and d.args and isinstance(d.args[0], ast.Lambda):
            b = norm(d.args[0].body)
            if "^" in b and "result[0]" in b and "result[1]" in b:
                return True
    return False


def _definitely(e: ast.AST) -> Optional[bool]:
    """True: definitely not None; False: definitely None; None: unknown."""
    if isinstance(e, ast.Constant):
        return e.value is not None
    if isinstance(e, (ast.List, ast.Tuple, ast.Dict, ast.Set, ast.JoinedStr, ast.ListComp, ast.DictComp, ast.SetComp)):
        return True
    return None


def check_ret_xor(ctx, f: FuncInfo, rule: str) -> None:
    """Every ``return`` of a function declaring the XOR post-condition returns a
    pair with exactly one ``None`` as far as constants tell."""
    if not has_xor_ensure(f):
        return
    art = artefacts(ctx.ty, f)
    for node in art.cfg.nodes:
        if node.kind == "end" and node.id in art.cfg.reachable():
            ctx.fail(rule, f, f.node, "a path falls off the end of a function whose post-condition promises a (value, error) pair", construct="implicit return None")
        if node.kind != "return" or node.expr is None:
            continue
        e = node.expr
        if isinstance(e, ast.Tuple) and len(e.elts) == 2:
            a, b = _definitely(e.elts[0]), _definitely(e.elts[1])
            what = f"return {short(e, 60)}"
            if a is False and b is False:
                ctx.fail(rule, f, node.stmt, "returns (None, None) although the post-condition promises exactly one of value and error: the caller's `assert value is not None` fails", construct=what)
            elif a is True and b is True:
                ctx.fail(rule, f, node.stmt, "returns both a value and an error although the post-condition promises exactly one", construct=what)
            else:
                ctx.ok(rule, f, node.stmt, what=what, nontrivial=(a is not None or b is not None))
