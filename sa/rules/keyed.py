"""
KEYED: a local mapping ``D`` that is subscripted (``D[k]``, KeyError if absent)
with keys drawn from a local list ``L`` must receive an entry for every element
appended to ``L``: each ``L.append(x)`` is preceded, in the same block, by
``D[x] = ...``.  (Found: the prefix dash of a character set was appended to
``ranges`` without an entry in ``cursor_by_range``; the overlap report then
raised KeyError.)
"""
import ast
from typing import Dict, List, Optional, Set

from ..model import FuncInfo, dotted_of, short, walk_function_body
from . import schema as S


def check_keyed(ctx, f: FuncInfo, rule: str) -> int:
    parents = S.parents_of(f)
    # local dicts
    dicts: Set[str] = set()
    lists: Set[str] = set()
    for n in walk_function_body(f.node):
        tgt = val = None
        if isinstance(n, ast.Assign) and len(n.targets) == 1 and isinstance(n.targets[0], ast.Name):
            tgt, val = n.targets[0].id, n.value
        elif isinstance(n, ast.AnnAssign) and isinstance(n.target, ast.Name) and n.value is not None:
            tgt, val = n.target.id, n.value
        if tgt is None:
            continue
        if isinstance(val, ast.Dict) and not val.keys or (isinstance(val, ast.Call) and dotted_of(val.func) in ("dict", "collections.OrderedDict") and not val.args):
            dicts.add(tgt)
        if isinstance(val, ast.List) and not val.elts:
            lists.add(tgt)
    n_checked = 0
    for d in sorted(dicts):
        loads = [n for n in walk_function_body(f.node) if isinstance(n, ast.Subscript) and isinstance(n.ctx, ast.Load) and dotted_of(n.value) == d and isinstance(n.slice, ast.Name)]
        if not loads:
            continue
        for ld in loads:
            key = ld.slice.id
            # which list does the key variable range over?
            src: Optional[str] = None
            cur: ast.AST = ld
            while id(cur) in parents:
                cur = parents[id(cur)]
                if isinstance(cur, ast.For):
                    tnames = {x.id for x in ast.walk(cur.target) if isinstance(x, ast.Name)}
                    if key in tnames:
                        for x in ast.walk(cur.iter):
                            if isinstance(x, ast.Name) and x.id in lists:
                                src = x.id
                        break
            if src is None:
                continue
            for ap in [c for c in walk_function_body(f.node) if isinstance(c, ast.Call) and isinstance(c.func, ast.Attribute) and c.func.attr == "append" and dotted_of(c.func.value) == src and c.args]:
                n_checked += 1
                arg = ap.args[0]
                st = S.stmt_of(ap, parents)
                blk = parents.get(id(st))
                body: List[ast.stmt] = []
                for fld in ("body", "orelse", "finalbody"):
                    b = getattr(blk, fld, None)
                    if isinstance(b, list) and any(st is x for x in b):
                        body = b[: [i for i, x in enumerate(b) if x is st][0]]
                registered = isinstance(arg, ast.Name) and any(
                    isinstance(s_, ast.Assign) and isinstance(s_.targets[0], ast.Subscript) and dotted_of(s_.targets[0].value) == d and dotted_of(s_.targets[0].slice) == arg.id for s_ in body)
                what = f"{f.qualname}: every element appended to `{src}` has an entry in `{d}`"
                if registered:
                    ctx.ok(rule, f, ap, what=what)
                else:
                    ctx.fail(rule, f, ap, f"`{short(ap)}` adds an element to `{src}` without `{d}[...] = ...` for it, but `{d}[{key}]` is later subscripted with elements of `{src}`: KeyError instead of the intended report", construct=what)
    return n_checked
