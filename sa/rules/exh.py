"""
G-EXH: exhaustiveness (DESIGN §3).

EXH1  an ``if/elif`` chain whose ``else`` is ``assert_never(x)`` covers every
      member of ``x``'s declared type (Union alias, enum), given the narrowing
      established by dominating early exits.
EXH2  dispatch tables keyed by enum members / classes cover the enum / union.
EXH3  sibling visitor/transformer implementations define the same handlers.
"""
import ast
from typing import Dict, List, Optional, Set, Tuple

from ..cfg import is_assert_never_call
from ..flow import artefacts
from ..model import FuncInfo, ClassInfo, dotted_of, short, walk_function_body
from ..types import T, Cls, Uni, Opt, Ext, TypeOf, Unknown, strip_opt, FuncTypes


def _chain_heads(func_node: ast.AST) -> List[ast.If]:
    """``If`` statements that start an if/elif chain (not an ``elif`` arm)."""
    heads: List[ast.If] = []
    elifs: Set[int] = set()
    for n in walk_function_body(func_node):
        if isinstance(n, ast.If):
            if len(n.orelse) == 1 and isinstance(n.orelse[0], ast.If):
                elifs.add(id(n.orelse[0]))
    for n in walk_function_body(func_node):
        if isinstance(n, ast.If) and id(n) not in elifs:
            heads.append(n)
    return heads


def _arms(head: ast.If) -> Tuple[List[ast.If], List[ast.stmt]]:
    arms = [head]
    cur = head
    while len(cur.orelse) == 1 and isinstance(cur.orelse[0], ast.If):
        cur = cur.orelse[0]
        arms.append(cur)
    return arms, cur.orelse


def _assert_never_arg(orelse: List[ast.stmt]) -> Optional[ast.expr]:
    for stmt in orelse:
        if is_assert_never_call(stmt):
            call = stmt.value  # type: ignore[attr-defined]
            if call.args:
                return call.args[0]
    return None


def members_of(ctx, t: T, top: bool = True) -> Optional[List[str]]:
    """Flatten a declared type to member labels; None if not enumerable."""
    if isinstance(t, Opt):
        inner = members_of(ctx, t.inner, top)
        if inner is None:
            return None
        return inner + ["None"]
    if isinstance(t, Uni):
        out: List[str] = []
        for m in t.members:
            sub = members_of(ctx, m, False)
            if sub is None:
                return None
            out.extend(sub)
        return out
    if isinstance(t, Cls):
        if ctx.p.is_enum(t.ci):
            return [f"{t.ci.key}.{m}" for m in ctx.p.enum_members(t.ci)]
        subs = ctx.p.subclasses(t.ci)
        if subs and top:
            # a closed-world belief about a base class: all leaf subclasses
            return [s.key for s in subs if not ctx.p.subclasses(s)]
        return [t.ci.key]
    if isinstance(t, Ext):
        if top:
            return None  # ``str``/``int`` cannot be exhausted
        return [t.name]
    return None


def _covered_by_test(ctx, ft: FuncTypes, test: ast.expr, key: str, members: List[str], env) -> Optional[Set[str]]:
    """Members certainly handled when ``test`` is true... i.e. members for which
    the test is *always* true.  None if the test does not concern ``key``."""
    if isinstance(test, ast.BoolOp) and isinstance(test.op, ast.Or):
        out: Set[str] = set()
        any_hit = False
        for v in test.values:
            c = _covered_by_test(ctx, ft, v, key, members, env)
            if c is not None:
                any_hit = True
                out |= c
        return out if any_hit else None
    if isinstance(test, ast.Call) and dotted_of(test.func) == "isinstance" and len(test.args) == 2:
        if dotted_of(test.args[0]) != key:
            return None
        ct = ft._class_arg(test.args[1])
        if ct is None:
            return set()
        cms = ct.members if isinstance(ct, Uni) else [ct]
        out = set()
        for m in members:
            for c in cms:
                if isinstance(c, Cls):
                    # member label is a class key (or ``<enum class key>.MEMBER``):
                    # covered if (its class is) a subclass of c
                    mod, _, qn = m.partition(":")
                    mi = ctx.p.modules.get(mod)
                    mci = mi.classes.get(qn) if mi else None
                    if mci is None and mi is not None and "." in qn:
                        mci = mi.classes.get(qn.rsplit(".", 1)[0])
                        if mci is not None and not ctx.p.is_enum(mci):
                            mci = None
                    if mci is not None and ctx.p.is_subclass(mci, c.ci):
                        out.add(m)
                elif isinstance(c, Ext) and c.name == m:
                    out.add(m)
        return out
    if isinstance(test, ast.Compare) and len(test.ops) == 1:
        op = test.ops[0]
        left, right = test.left, test.comparators[0]
        if dotted_of(left) == key:
            if isinstance(op, (ast.Is, ast.Eq)):
                if isinstance(right, ast.Constant) and right.value is None:
                    return {"None"} & set(members)
                lab = _enum_label(ctx, ft, right)
                if lab is not None:
                    return {lab} & set(members)
                return set()
            if isinstance(op, ast.In) and isinstance(right, (ast.Tuple, ast.List, ast.Set)):
                out = set()
                for e in right.elts:
                    lab = _enum_label(ctx, ft, e)
                    if lab is not None:
                        out.add(lab)
                return out & set(members)
            return set()
        if dotted_of(right) == key and isinstance(op, (ast.Is, ast.Eq)):
            lab = _enum_label(ctx, ft, left)
            if lab is not None:
                return {lab} & set(members)
            return set()
    return None


def _enum_label(ctx, ft: FuncTypes, e: ast.expr) -> Optional[str]:
    d = dotted_of(e)
    if d is None:
        return None
    r = ctx.p.resolve_expr_name(ft.m, d.split("."))
    if r is not None and r[0] == "classattr":
        ci, name = r[1]
        if ctx.p.is_enum(ci):
            return f"{ci.key}.{name}"
    return None


def check_exh1(ctx, f: FuncInfo, rule: str) -> None:
    heads = _chain_heads(f.node)
    if not heads:
        return
    ft: Optional[FuncTypes] = None
    for head in heads:
        arms, orelse = _arms(head)
        arg = _assert_never_arg(orelse)
        if arg is None:
            continue
        key = dotted_of(arg)
        if key is None:
            ctx.skip(rule, f, head, f"scrutinee is not a name: {short(arg)}")
            continue
        if ft is None:
            ft = artefacts(ctx.ty, f).types
        env = ft.env_for(head)
        t = ft.type_of(arg, env)
        members = members_of(ctx, t)
        if members is None or isinstance(t, Unknown):
            ctx.skip(rule, f, head, f"type of `{key}` unresolved ({t.show()})")
            continue
        covered: Set[str] = set()
        concerned = False
        for arm in arms:
            c = _covered_by_test(ctx, ft, arm.test, key, members, env)
            if c is not None:
                concerned = True
                covered |= c
        if not concerned:
            ctx.skip(rule, f, head, f"no arm tests `{key}` directly")
            continue
        missing = [m for m in members if m not in covered]
        what = f"chain over `{key}`: {t.show()}"
        if missing:
            ctx.fail(
                rule, f, head,
                f"the if/elif chain over `{key}` (declared {t.show()}) ends in assert_never but has no arm for "
                + ", ".join(m.split(":")[-1] for m in missing)
                + ": that shape crashes with an AssertionError instead of being handled",
                construct=what,
            )
        else:
            ctx.ok(rule, f, head, what=what, nontrivial=len(members) >= 2)


# ---------------------------------------------------------------------------
# EXH2


def dict_keys_labels(ctx, module, d: ast.Dict) -> List[Optional[str]]:
    out: List[Optional[str]] = []
    for k in d.keys:
        if k is None:
            out.append(None)
            continue
        dotted = dotted_of(k)
        if dotted is None:
            out.append(None)
            continue
        r = ctx.p.resolve_expr_name(module, dotted.split("."))
        if r is None:
            out.append(None)
        elif r[0] == "classattr":
            ci, name = r[1]
            out.append(f"{ci.key}.{name}")
        elif r[0] == "class":
            out.append(r[1].key)
        else:
            out.append(None)
    return out


def check_enum_keyed_dicts(ctx, rule: str, modules=None) -> None:
    """Every dict literal (module-level or in a function) whose keys are all
    members of one enum has *all* members of that enum as keys."""
    for m in ctx.p.modules.values():
        if modules is not None and not modules(m):
            continue
        for node in ast.walk(m.tree):
            if not isinstance(node, ast.Dict) or len(node.keys) < 2:
                continue
            labels = dict_keys_labels(ctx, m, node)
            if any(l is None for l in labels):
                continue
            owners = {l.rsplit(".", 1)[0] for l in labels}  # type: ignore[union-attr]
            if len(owners) != 1:
                continue
            owner = owners.pop()
            modname, _, qn = owner.partition(":")
            mi = ctx.p.modules.get(modname)
            ci = mi.classes.get(qn) if mi else None
            if ci is None or not ctx.p.is_enum(ci):
                continue
            all_members = {f"{ci.key}.{x}" for x in ctx.p.enum_members(ci)}
            missing = sorted(all_members - set(labels))  # type: ignore[arg-type]
            dup = len(labels) != len(set(labels))
            where = _enclosing(ctx, m, node)
            what = f"dict keyed by {ci.name} ({len(labels)} keys)"
            if missing and len(labels) * 2 > len(all_members) and _table_is_dead(ctx, m, node):
                ctx.skip(rule, where, node, f"partial table keyed by {ci.name} is only referenced by functions nothing calls (dead code)")
                continue
            if missing and len(labels) * 2 > len(all_members):
                # a table covering more than half of the enum is meant to be total
                ctx.fail(rule, where, node,
                         f"the table keyed by {ci.name} lacks " + ", ".join(x.rsplit('.', 1)[1] for x in missing)
                         + ": a lookup for that member raises KeyError", construct=what + f" first={short(node.keys[0])}")
            elif dup:
                ctx.fail(rule, where, node, f"duplicate key in table keyed by {ci.name}", construct=what)
            elif not missing:
                ctx.ok(rule, where, node, what=what + f" first={short(node.keys[0])}")


def _table_is_dead(ctx, module, dict_node) -> bool:
    """A module-level table is dead if every function that mentions it has no
    caller other than itself in the call graph."""
    from ..callgraph import callgraph

    name = None
    for n, v in module.constants.items():
        if v is dict_node:
            name = n
    if name is None:
        return False
    cg = callgraph(ctx)
    users = []
    for m2 in ctx.p.modules.values():
        for f in m2.functions.values():
            for x in ast.walk(f.node):
                if isinstance(x, (ast.Name, ast.Attribute)):
                    d = dotted_of(x)
                    if d is not None and d.split(".")[-1] == name:
                        r = ctx.p.resolve_expr(m2, x)
                        if r is not None and r[0] == "const" and r[1][0] is module and r[1][1] == name:
                            users.append(f)
                            break
    if not users:
        return True
    for f in users:
        callers = {c for c in cg.callers_of(f.key) if c != f.key}
        if callers:
            return False
    return True


def _enclosing(ctx, module, node):
    best = None
    for f in module.functions.values():
        fn = f.node
        if fn.lineno <= node.lineno <= (fn.end_lineno or fn.lineno):
            if best is None or fn.lineno >= best.node.lineno:
                best = f
    return best if best is not None else module


# ---------------------------------------------------------------------------
# EXH3


def handler_names(ci: ClassInfo, prefix: str) -> Set[str]:
    return {n for n in ci.methods if n.startswith(prefix)}


def check_visitor_complete(ctx, rule: str, base: ClassInfo, prefixes=("transform_", "visit_")) -> None:
    """Every concrete subclass of an abstract visitor/transformer base defines
    (or inherits from a non-abstract ancestor) each abstract handler."""
    abstract = {
        n: m for n, m in base.methods.items()
        if any(n.startswith(p) for p in prefixes)
    }
    if not abstract:
        return
    for sub in ctx.p.subclasses(base):
        if ctx.p.subclasses(sub) and ctx.p.is_abstract(sub):
            continue
        missing = []
        for name, bm in abstract.items():
            impl = ctx.p.find_method(sub, name)
            if impl is None:
                missing.append(name)
            elif impl is bm and (bm.is_stub() or any(d.endswith("abstractmethod") for d in bm.decorator_names())):
                missing.append(name)
        where = (sub.module.relpath, sub.qualname)
        if missing:
            ctx.fail(rule, where, sub.node,
                     f"{sub.name} (a {base.name}) has no implementation of " + ", ".join(sorted(missing)),
                     construct=f"class {sub.name}({base.name})")
        else:
            ctx.ok(rule, where, sub.node, what=f"class {sub.name}({base.name}): {len(abstract)} handlers")
