"""
ARG-USED: an optional argument node of the meta-model source is consumed or rejected, never ignored.

The parser of the meta-model collects the arguments of a construct (``constant_set(values=..., superset_of=...)``,
``@invariant(condition, description)``, ``@serialization(with_model_type=...)``) into locals that start as ``None`` and are
typed ``Optional[ast.X]``.  On every path to a successful return such a local is either known to be ``None`` (the argument was
not written) or has been read by something other than a type / ``None`` test: an argument that is present but only *tested*
(``if isinstance(arg, ast.List): ...`` without an ``else``) is silently dropped when the test fails, and the model is accepted
with a meaning the author did not write.

Dataflow over the statement CFG, one variable at a time; abstract states ``none`` / ``pending`` / ``used`` (disjunctive).
"""
import ast
from typing import FrozenSet, List, Optional

from ..flow import artefacts, loads, node_exprs, set_dataflow, stores
from ..model import FuncInfo, short


def candidates(f: FuncInfo) -> List[str]:
    out = []
    for st in ast.walk(f.node):
        if isinstance(st, ast.Assign) and len(st.targets) == 1 and isinstance(st.targets[0], ast.Name) and isinstance(st.value, ast.Constant) and st.value.value is None:
            tc = st.type_comment or f.module.trailing_type_comment(st.lineno) or ""
            if tc.replace(" ", "").startswith("Optional[ast."):
                if st.targets[0].id not in out:
                    out.append(st.targets[0].id)
        if isinstance(st, ast.AnnAssign) and isinstance(st.target, ast.Name) and isinstance(st.value, ast.Constant) and st.value.value is None:
            if ast.unparse(st.annotation).replace(" ", "").startswith("Optional[ast."):
                if st.target.id not in out:
                    out.append(st.target.id)
    return out


def _is_success_return(node) -> bool:
    if node.kind == "end":
        return True
    if node.kind != "return":
        return False
    v = node.expr
    if isinstance(v, ast.Tuple) and len(v.elts) == 2:
        first, second = v.elts
        if isinstance(first, ast.Constant) and first.value is None and not (isinstance(second, ast.Constant) and second.value is None):
            return False  # (None, error)
        return True
    return True


def _none_test(test: ast.AST, var: str) -> Optional[bool]:
    """True: the test is ``var is None``; False: ``var is not None``; None: another test."""
    if isinstance(test, ast.Compare) and len(test.ops) == 1 and isinstance(test.left, ast.Name) and test.left.id == var \
            and isinstance(test.comparators[0], ast.Constant) and test.comparators[0].value is None:
        if isinstance(test.ops[0], (ast.Is, ast.Eq)):
            return True
        if isinstance(test.ops[0], (ast.IsNot, ast.NotEq)):
            return False
    return None


def check_arg_used(ctx, f: FuncInfo, rule: str) -> int:
    vars_ = candidates(f)
    if not vars_:
        return 0
    art = artefacts(ctx.ty, f)
    cfg = art.cfg
    n = 0
    for var in vars_:

        def transfer(node, st, var=var):
            if node.kind == "test":
                return [st]
            if var in stores(node):
                # ``var = None`` or ``var = <node>``
                s = node.stmt
                if isinstance(s, ast.Assign) and isinstance(s.value, ast.Constant) and s.value.value is None:
                    return ["none"]
                if isinstance(s, ast.AnnAssign) and (s.value is None or (isinstance(s.value, ast.Constant) and s.value.value is None)):
                    return ["none"]
                return ["pending"]
            if var in loads(node):
                if node.kind == "abort" and isinstance(node.stmt, ast.Assert):
                    return [st]
                if isinstance(node.stmt, ast.Assert):
                    return [st]
                return ["used"] if st == "pending" else [st]
            return [st]

        def edge(node, st, label, var=var):
            if node.kind == "test" and node.expr is not None and label in (True, False):
                t = _none_test(node.expr, var)
                if t is not None:
                    is_none = (t is True and label is True) or (t is False and label is False)
                    if is_none:
                        return None if st == "used" else "none"
                    return None if st == "none" else st
            return st

        IN = set_dataflow(cfg, frozenset({"none"}), transfer, edge)
        bad = []
        for nid, states in IN.items():
            node = cfg.nodes[nid]
            if _is_success_return(node) and "pending" in states:
                # the return itself may read the variable
                if var in loads(node):
                    continue
                bad.append(node)
        n += 1
        what = f"{f.name}: argument node `{var}` is consumed or rejected before every successful return"
        if bad:
            b = bad[0]
            ctx.fail(rule, f, b.stmt if b.stmt is not None else f.node,
                     f"on some path to the successful return at line {b.lineno} the argument node `{var}` may be present (not None) but is never read except by type / None tests: "
                     f"an argument written in the meta-model is silently ignored there (e.g. when it is not of the expected node kind) instead of being rejected",
                     construct=what)
        else:
            ctx.ok(rule, f, f.node, what=what)
    return n
