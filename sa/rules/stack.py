"""
STACK-ORDER: a loop that, for each type X, combines X's own data with data
already computed *for X's parents* (an inner loop over ``X.inheritances``) is
only correct if parents are visited before children: its iteration source must
be the topologically sorted sequence of types.
"""
import ast
from typing import Optional, Set

from ..model import FuncInfo, dotted_of, short, walk_function_body


def _aliases(loop: ast.For) -> Set[str]:
    names = set()
    if isinstance(loop.target, ast.Name):
        names.add(loop.target.id)
    for s in loop.body:
        if isinstance(s, ast.Assign) and len(s.targets) == 1 and isinstance(s.targets[0], ast.Name) and isinstance(s.value, ast.Name) and s.value.id in names:
            names.add(s.targets[0].id)
    return names


def check_stack_order(ctx, f: FuncInfo, rule: str) -> None:
    for loop in [n for n in walk_function_body(f.node) if isinstance(n, ast.For)]:
        names = _aliases(loop)
        if not names:
            continue
        inner = None
        for n in ast.walk(ast.Module(body=loop.body, type_ignores=[])):
            if isinstance(n, ast.For):
                it = dotted_of(n.iter) or ""
                if it.split(".")[0] in names and it.endswith((".inheritances",)) and isinstance(n.target, ast.Name):
                    inner = n
                    break
        if inner is None:
            continue
        parent = inner.target.id
        # does the inner loop read per-type results (mapping[parent] / parent.<attr>) that this pass writes for X?
        reads_parent_result = False
        for n in ast.walk(ast.Module(body=inner.body, type_ignores=[])):
            if isinstance(n, ast.Subscript) and isinstance(n.slice, ast.Name) and n.slice.id == parent:
                reads_parent_result = True
            if isinstance(n, ast.Call) and isinstance(n.func, ast.Attribute) and n.func.attr == "get" and n.args and isinstance(n.args[0], ast.Name) and n.args[0].id == parent:
                reads_parent_result = True
            if isinstance(n, ast.Attribute) and isinstance(n.value, ast.Name) and n.value.id == parent:
                reads_parent_result = True
        writes_self = False
        for n in ast.walk(ast.Module(body=loop.body, type_ignores=[])):
            if isinstance(n, ast.Assign):
                for t in n.targets:
                    if isinstance(t, ast.Subscript) and isinstance(t.slice, ast.Name) and t.slice.id in names:
                        writes_self = True
                    if isinstance(t, ast.Attribute) and isinstance(t.value, ast.Name) and t.value.id in names:
                        writes_self = True
                    if isinstance(t, ast.Subscript) and isinstance(t.value, ast.Name):
                        # that_constraints_by_value[type_anno] = ... where that_... = mapping[cls]
                        writes_self = True
            if isinstance(n, ast.Call) and isinstance(n.func, ast.Attribute) and n.func.attr.startswith("_set_") and isinstance(n.func.value, ast.Name) and n.func.value.id in names:
                writes_self = True
        if not (reads_parent_result and writes_self):
            continue
        src = dotted_of(loop.iter) or short(loop.iter)
        what = f"{f.qualname}: stacking loop over {src}"
        if src.endswith("topologically_sorted"):
            ctx.ok(rule, f, loop, what=what)
        else:
            ctx.fail(rule, f, loop,
                     f"this loop merges each type with the results of its parents (`for {parent} in ....inheritances`) but iterates `{src}`, which does not guarantee that parents come first: "
                     f"a child declared before its parent misses what the parent inherits from the grandparent",
                     construct=what)
