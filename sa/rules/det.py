"""
G-DET: sources of run-to-run nondeterminism (DESIGN §3).

DET-SET  order-sensitive consumption of a set-typed expression
DET-FS   a file-system listing consumed without ``sorted``
DET-ENT  entropy (id/hash/uuid/time/random/pid/environ) formatted into text
DET-REPR an object whose text form carries its address interpolated into a message
"""
import ast
from typing import Dict, List, Optional, Set, Tuple

from ..flow import artefacts
from ..model import FuncInfo, ClassInfo, dotted_of, short, walk_with_lambdas
from ..types import Seq, Cls, Opt, Uni, Unknown, strip_opt, T

SET_COLLS = {"Set", "FrozenSet", "AbstractSet", "MutableSet", "set", "frozenset"}
ORDER_FREE_CONSUMERS = {"sorted", "len", "set", "frozenset", "min", "max", "sum", "any", "all", "bool", "sortedcontainers.SortedSet", "isinstance"}
FS_LISTING = {"glob", "rglob", "iterdir"}
FS_LISTING_FUNCS = {"os.listdir", "os.walk", "os.scandir", "glob.glob", "glob.iglob"}
ENTROPY_FUNCS = {
    "id", "hash", "uuid.uuid1", "uuid.uuid4", "time.time", "time.time_ns", "time.monotonic", "time.perf_counter",
    "datetime.datetime.now", "datetime.datetime.utcnow", "datetime.date.today", "random.random", "random.randint",
    "random.choice", "random.shuffle", "random.sample", "os.getpid", "os.urandom", "secrets.token_hex",
    "os.environ.get", "os.getenv", "os.getcwd", "pathlib.Path.cwd", "socket.gethostname", "getpass.getuser",
}


NON_INJECTIVE_ATTRS = {"lower", "upper", "casefold", "swapcase", "title", "capitalize", "name", "stem", "suffix", "suffixes", "parent", "strip", "lstrip", "rstrip"}


def _sort_key_injective(call: ast.Call) -> bool:
    """``sorted(xs)`` orders totally; ``sorted(xs, key=K)`` only up to ties of ``K``, and ties keep the input
    order (the sort is stable).  A key is accepted when it cannot map two different elements to one value: the
    element itself, ``str``/``repr`` of it, ``as_posix()``, ``parts``, a tuple containing such a component."""
    key = next((kw.value for kw in call.keywords if kw.arg == "key"), None)
    if key is None:
        return True
    if not isinstance(key, ast.Lambda) or len(key.args.args) != 1:
        return dotted_of(key) in ("str", "repr")
    x = key.args.args[0].arg

    def inj(e: ast.AST) -> bool:
        if isinstance(e, ast.Name) and e.id == x:
            return True
        if isinstance(e, ast.Tuple):
            return any(inj(c) for c in e.elts)
        if isinstance(e, ast.Call) and dotted_of(e.func) in ("str", "repr") and len(e.args) == 1:
            return inj(e.args[0])
        if isinstance(e, ast.Call) and isinstance(e.func, ast.Attribute) and e.func.attr in ("as_posix", "__str__", "resolve", "absolute") and not e.args:
            return inj(e.func.value)
        if isinstance(e, ast.Attribute) and e.attr in ("parts",):
            return inj(e.value)
        return False

    return inj(key.body)


def _is_set_type(t: T) -> bool:
    t = strip_opt(t)
    return isinstance(t, Seq) and t.coll in SET_COLLS


def _parents(root: ast.AST) -> Dict[int, ast.AST]:
    out: Dict[int, ast.AST] = {}
    for n in ast.walk(root):
        for c in ast.iter_child_nodes(n):
            out[id(c)] = n
    return out


def check_sets_and_listings(ctx, f: FuncInfo, rule_set: str, rule_fs: str) -> None:
    art = artefacts(ctx.ty, f)
    ft = art.types
    parents = _parents(f.node)

    def env_of(node: ast.AST):
        cur = node
        while cur is not None and not isinstance(cur, ast.stmt):
            cur = parents.get(id(cur))
        if cur is None:
            return ft.env_at_entry()
        env = ft.env_for(cur)
        return env if env else ft.final_env()

    def consumer(node: ast.AST) -> Tuple[str, Optional[ast.AST]]:
        """How is the value of ``node`` consumed: 'free' (order-independent),
        'ordered' (order-sensitive), 'pass' (flows on; not judged here)."""
        par = parents.get(id(node))
        if par is None:
            return "pass", None
        if isinstance(par, ast.Call):
            d = dotted_of(par.func)
            if node in par.args or any(kw.value is node for kw in par.keywords):
                if d in ORDER_FREE_CONSUMERS:
                    if d == "sorted" and not _sort_key_injective(par):
                        return "ordered", par
                    return "free", par
                if d in ("list", "tuple", "enumerate", "iter", "next", "reversed", "zip", "map", "filter", "itertools.chain", "collections.OrderedDict", "dict", "str", "repr"):
                    return "ordered", par
                if isinstance(par.func, ast.Attribute) and par.func.attr == "join":
                    return "ordered", par
                if isinstance(par.func, ast.Attribute) and par.func.attr in ("extend",):
                    return "ordered", par
                if isinstance(par.func, ast.Attribute) and par.func.attr in ("update", "union", "intersection", "difference", "issubset", "issuperset", "isdisjoint", "symmetric_difference", "difference_update", "intersection_update"):
                    return "free", par
                return "pass", par
            return "pass", par
        if isinstance(par, (ast.For, ast.AsyncFor)) and par.iter is node:
            if all(isinstance(b, ast.Assert) for b in par.body) and not par.orelse:
                return "free", par  # a loop of assertions is order-independent
            return "ordered", par
        if isinstance(par, ast.comprehension) and par.iter is node:
            comp = parents.get(id(par))
            # a set/dict comprehension or a generator fed to an order-free consumer is fine
            if isinstance(comp, ast.SetComp):
                return "free", comp
            if isinstance(comp, ast.GeneratorExp):
                how, who = consumer(comp)
                if how == "free":
                    return "free", who
                if how == "pass":
                    return "pass", who
                return "ordered", who
            if isinstance(comp, ast.DictComp):
                return "ordered", comp
            if isinstance(comp, ast.ListComp):
                how, who = consumer(comp)
                if how == "free":
                    return "free", who
            return "ordered", comp
        if isinstance(par, ast.Starred):
            return "ordered", par
        if isinstance(par, ast.FormattedValue) and par.value is node:
            # the text of a set lists its elements in iteration order; texts of
            # assertion failures / raised exceptions are crash diagnostics, not output
            if _in_crash_message(par, parents):
                return "pass", par
            return "ordered", par
        if isinstance(par, ast.Compare):
            return "free", par
        if isinstance(par, ast.Subscript) and par.value is node:
            return "ordered", par
        return "pass", par

    for n in walk_with_lambdas(f.node):
        if n is f.node or not isinstance(n, ast.expr):
            continue
        # file-system listings
        is_listing = False
        if isinstance(n, ast.Call):
            d = dotted_of(n.func)
            if d in FS_LISTING_FUNCS or (isinstance(n.func, ast.Attribute) and n.func.attr in FS_LISTING and not (d or "").startswith("re.")):
                is_listing = True
        if is_listing:
            how, who = consumer(n)
            what = f"listing {short(n)}"
            if how == "free":
                ctx.ok(rule_fs, f, n, what=what + " consumed through an order-free function")
            else:
                if isinstance(who, ast.Call) and dotted_of(who.func) == "sorted":
                    ctx.fail(rule_fs, f, n, f"`{short(n)}` yields entries in file-system order and is sorted with the key `{short(next(kw.value for kw in who.keywords if kw.arg == 'key'))}`, under which different entries can tie; ties keep the file-system order: output/errors depend on directory order", construct=what)
                else:
                    ctx.fail(rule_fs, f, n, f"`{short(n)}` yields entries in file-system order and is consumed without sorted(): output/errors depend on directory order", construct=what)
            continue
        if isinstance(n, (ast.Name, ast.Attribute, ast.Call, ast.Set, ast.SetComp, ast.BinOp)):
            how, who = consumer(n)
            if how != "ordered":
                continue
            if isinstance(n, (ast.Set, ast.SetComp)):
                is_set = True
                tshow = "set display"
            else:
                t = ft.type_of(n, env_of(n))
                is_set = _is_set_type(t)
                tshow = t.show()
            if not is_set:
                continue
            what = f"{short(n)} : {tshow} consumed by {type(who).__name__ if who is not None else '?'}"
            ctx.fail(rule_set, f, n, f"`{short(n)}` is a set ({tshow}) and is consumed in iteration order ({short(who, 80) if who is not None else ''}): the result depends on the hash seed", construct=f"{short(n)} in {type(who).__name__}")


def address_bearing_classes(ctx) -> Set[str]:
    """Classes whose str() carries an address: no __str__ and a __repr__ that
    formats id(self) (or no __repr__ at all, i.e. object.__repr__)."""
    out: Set[str] = set()
    for ci in ctx.p.all_classes():
        if ctx.p.is_enum(ci):
            continue
        s = ctx.p.find_method(ci, "__str__")
        if s is not None:
            continue
        r = ctx.p.find_method(ci, "__repr__")
        if r is None:
            # NamedTuple / str subclasses / exceptions have value-based text
            names = " ".join(ctx.p.base_names(c) and " ".join(ctx.p.base_names(c)) or "" for c in ctx.p.mro(ci))
            if any(b in names for b in ("str", "int", "NamedTuple", "Exception", "tuple", "enum", "Enum", "bytes", "float")):
                continue
            out.add(ci.key)
            continue
        if any(isinstance(c, ast.Call) and dotted_of(c.func) == "id" for c in ast.walk(r.node)):
            out.add(ci.key)
    return out


def check_entropy(ctx, f: FuncInfo, rule_ent: str, rule_repr: str, addr_classes: Set[str]) -> None:
    if f.name in ("__repr__", "__hash__"):
        return
    art = None
    parents = None
    for n in walk_with_lambdas(f.node):
        if isinstance(n, ast.JoinedStr):
            for v in n.values:
                if not isinstance(v, ast.FormattedValue):
                    continue
                # entropy call formatted into text
                for c in ast.walk(v.value):
                    if isinstance(c, ast.Call) and dotted_of(c.func) in ENTROPY_FUNCS:
                        if parents is None:
                            parents = _parents(f.node)
                        if _in_crash_message(n, parents):
                            continue
                        ctx.fail(rule_ent, f, n, f"`{short(c)}` is formatted into text: the text differs from run to run", construct=f"{short(c)} in f-string")
                # address-bearing object formatted
                if art is None:
                    art = artefacts(ctx.ty, f)
                    parents = parents or _parents(f.node)
                if _in_crash_message(n, parents):
                    continue
                cur: Optional[ast.AST] = n
                while cur is not None and not isinstance(cur, ast.stmt):
                    cur = parents.get(id(cur))
                env = dict((art.types.env_for(cur) if cur is not None else {}) or art.types.final_env())
                # names bound by enclosing comprehensions shadow the locals
                up: Optional[ast.AST] = n
                comps = []
                while up is not None and not isinstance(up, ast.stmt):
                    if isinstance(up, (ast.ListComp, ast.SetComp, ast.GeneratorExp, ast.DictComp)):
                        comps.append(up)
                    up = parents.get(id(up))
                for comp in reversed(comps):
                    for g in comp.generators:
                        it = art.types.type_of(g.iter, env)
                        el = art.types._elem_of(it, g.iter, env)
                        art.types._bind(g.target, el, env)
                t = strip_opt(art.types.type_of(v.value, env))
                members = t.members if isinstance(t, Uni) else [t]
                bad = [m for m in members if isinstance(m, Cls) and m.ci.key in addr_classes]
                if bad and v.conversion in (-1, 115, 114):  # default, !s, !r
                    ctx.fail(rule_repr, f, n,
                             f"`{{{short(v.value)}}}` has type {bad[0].ci.name} whose text form is its repr with the object address (0x{{id(self):x}}): the message differs from run to run",
                             construct=f"{{{short(v.value)}}} : {bad[0].ci.name}")
                elif not isinstance(t, Unknown):
                    ctx.ok(rule_repr, f, v, what=f"{{{short(v.value)}}} : {t.show()[:60]}", nontrivial=False)


def _in_crash_message(n: ast.AST, parents: Dict[int, ast.AST]) -> bool:
    """The f-string is (part of) an assertion message / raised exception text."""
    cur: Optional[ast.AST] = n
    while cur is not None:
        par = parents.get(id(cur))
        if isinstance(par, ast.Assert) and par.msg is cur:
            return True
        if isinstance(par, ast.Raise):
            return True
        if isinstance(par, ast.Call):
            d = dotted_of(par.func) or ""
            if d.split(".")[-1] in ("AssertionError", "NotImplementedError", "ValueError", "KeyError", "TypeError", "RuntimeError", "Exception"):
                return True
        if isinstance(par, ast.stmt):
            # ``non_anchored_exception_message = (...)``: follow only direct crash contexts
            return False
        cur = par
    return False
