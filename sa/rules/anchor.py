"""
ANCHOR-ATOMS: the predicates that decide whether a pattern is "anchored" test
the same features in the front end (which rejects with an error) and in the
regex-VM translator (which raises): emptiness, a single top-level alternative,
first term is the START symbol, last term is the END symbol.
"""
import ast
from typing import Dict, Set

from ..model import FuncInfo, dotted_of


def features(f: FuncInfo) -> Dict[str, bool]:
    """Which anchoring features the function's conditions consult."""
    src_nodes = list(ast.walk(f.node))
    feats = {"EMPTY": False, "SINGLE": False, "START": False, "END": False}
    conds = []
    for n in src_nodes:
        if isinstance(n, (ast.If, ast.While)):
            conds.append(n.test)
        if isinstance(n, ast.Assign):
            conds.append(n.value)  # boolean helper variables such as first_symbol_is_start
    for c in conds:
        for x in ast.walk(c):
            if isinstance(x, ast.Compare) and len(x.ops) == 1 and isinstance(x.left, ast.Call) and dotted_of(x.left.func) == "len" and x.left.args:
                arg = ast.unparse(x.left.args[0])
                k = x.comparators[0].value if isinstance(x.comparators[0], ast.Constant) else None
                if arg.endswith(".uniates") and ((isinstance(x.ops[0], ast.NotEq) and k == 1) or (isinstance(x.ops[0], ast.Gt) and k == 1) or (isinstance(x.ops[0], ast.Eq) and k == 1)):
                    feats["SINGLE"] = True
                if arg.endswith(".uniates") and isinstance(x.ops[0], ast.Eq) and k == 0:
                    feats["EMPTY"] = True
            if isinstance(x, ast.Attribute) and x.attr == "START" and (dotted_of(x) or "").endswith("SymbolKind.START"):
                feats["START"] = True
            if isinstance(x, ast.Attribute) and x.attr == "END" and (dotted_of(x) or "").endswith("SymbolKind.END"):
                feats["END"] = True
    return feats


def check_anchor_agreement(ctx, rule: str) -> None:
    p = ctx.p
    fe = p.func("intermediate._translate:_verify_patterns_anchored_at_start_and_end")
    vm = p.func("intermediate.revm:_Translator.transform_regex")
    a, b = features(fe), features(vm)
    ctx.require_anchor(any(b.values()), "revm.transform_regex tests anchoring features")
    names = {"EMPTY": "the pattern is non-empty", "SINGLE": "there is exactly one top-level alternative", "START": "the first term is ^", "END": "the last term is $"}
    for k in ("EMPTY", "SINGLE", "START", "END"):
        what = f"front end and regex-VM translator both test that {names[k]}"
        if a[k] and b[k]:
            ctx.ok(rule, fe, fe.node, what=what)
        elif b[k] and not a[k]:
            ctx.fail(rule, fe, fe.node,
                     f"the front end's anchoring check does not test that {names[k]}, but revm.transform_regex raises NotImplementedError unless it holds: "
                     f"such a pattern is accepted and then crashes the C++ target (and is not anchored as the rules require)",
                     construct=f"front-end anchoring: {k}")
        elif a[k] and not b[k]:
            ctx.ok(rule, fe, fe.node, what=what + " (front end only)")
        else:
            ctx.fail(rule, fe, fe.node, f"neither the front end nor the translator tests that {names[k]}", construct=f"anchoring: {k}")
