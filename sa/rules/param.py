"""
G-PARAM: constructor / setter parameter flow.

In ``__init__`` (and ``_set_X`` setters), an assignment ``self.X = e`` or
``self._X = e`` where ``X`` is a parameter name: ``e`` mentions parameter ``X``
(a constant or another parameter instead of ``X`` severs the plumbing).
"""
import ast
from typing import Set

from ..model import FuncInfo, walk_function_body, short


def check_param_flow(ctx, f: FuncInfo, rule: str) -> None:
    params = set(f.param_names()) - {"self", "cls"}
    if not params:
        return
    for node in walk_function_body(f.node):
        tgt = None
        val = None
        if isinstance(node, ast.Assign) and len(node.targets) == 1:
            tgt, val = node.targets[0], node.value
        elif isinstance(node, ast.AnnAssign) and node.value is not None:
            tgt, val = node.target, node.value
        if not (
            isinstance(tgt, ast.Attribute)
            and isinstance(tgt.value, ast.Name)
            and tgt.value.id == "self"
        ):
            continue
        attr = tgt.attr.lstrip("_")
        if attr not in params:
            continue
        names: Set[str] = {n.id for n in ast.walk(val) if isinstance(n, ast.Name)}
        what = f"self.{tgt.attr} <- parameter {attr}"
        if attr in names:
            ctx.ok(rule, f, node, what=what)
        else:
            ctx.fail(
                rule, f, node,
                f"`self.{tgt.attr}` is assigned `{short(val)}`, which does not depend on the parameter `{attr}`: the caller's value is ignored",
                construct=what,
            )
