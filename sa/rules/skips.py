"""
SKIPS: verification / resolution loops do not gain new ways of skipping an
element.  For a function whose job is to examine every element of a collection,
each ``continue`` / ``break`` / ``return`` inside a loop is a decision not to
examine (the rest of) an element, and each further ``return`` statement an
additional way of ending the examination early.  The skip statements of today's tree were
read and are the reference (``baselines/skips.json``: per function the number of
``continue``, ``break`` and in-loop ``return`` statements, and the guards they sit
under, for the report); a function that has MORE of a kind than its reference
skips something it used to examine.  Fewer is fine; a function that is not in
the reference is not judged (counted as skipped).  Counts, not texts, are
compared, so renaming variables or re-wrapping conditions does not fire.
"""
import ast
import json
import pathlib
from typing import Dict, List

from ..model import FuncInfo, short
from . import schema as S

BASELINE = pathlib.Path(__file__).resolve().parent.parent.parent / "baselines" / "skips.json"


def skip_profile(f: FuncInfo) -> Dict[str, object]:
    parents = S.parents_of(f)
    prof = {"continue": 0, "break": 0, "return_in_loop": 0, "return": 0, "comp_ifs": 0, "comp_if_atoms": 0, "unguarded_recursions": 0, "guards": []}
    # filters of comprehensions skip elements just like `continue`; recursive descents (self.visit / self.transform on a child)
    # that are not under any condition are the ones every input reaches
    for n in ast.walk(f.node):
        if isinstance(n, ast.comprehension):
            prof["comp_ifs"] += len(n.ifs)
            # every conjunct of a filter is one more reason to leave an element out
            for flt in n.ifs:
                prof["comp_if_atoms"] += len(flt.values) if isinstance(flt, ast.BoolOp) and isinstance(flt.op, ast.And) else 1
        if isinstance(n, ast.Call) and isinstance(n.func, ast.Attribute) and isinstance(n.func.value, ast.Name) and n.func.value.id == "self" \
                and n.func.attr in ("visit", "transform") and not S.guards_of(n, parents):
            prof["unguarded_recursions"] += 1
    def on_error_path(n: ast.AST) -> bool:
        """The block that ends in this skip records or returns an error first: leaving early there is the error path of the
        function, not a decision to leave something unexamined."""
        blk = parents.get(id(n))
        for fld in ("body", "orelse", "finalbody"):
            b = getattr(blk, fld, None)
            if isinstance(b, list) and any(n is x for x in b):
                for st in b:
                    if isinstance(st, (ast.If, ast.For, ast.While, ast.With, ast.Try, ast.FunctionDef, ast.ClassDef)) and st is not n:
                        continue  # what a nested block records does not make the statements after it an error path
                    for c in ast.walk(st):
                        if isinstance(c, ast.Call):
                            d = ast.unparse(c.func)
                            if d.endswith(("errors.append", "errors.extend", "Error")) or d.endswith("write_error_report"):
                                return True
                    if st is n:
                        break
        if isinstance(n, ast.Return) and n.value is not None:
            v = n.value
            if isinstance(v, ast.Tuple) and len(v.elts) == 2 and isinstance(v.elts[0], ast.Constant) and v.elts[0].value is None:
                return True  # return None, <error>
            if isinstance(v, ast.Constant) and isinstance(v.value, int) and not isinstance(v.value, bool) and v.value != 0:
                return True  # non-zero exit code
        return False

    for n in ast.walk(f.node):
        kind = None
        if isinstance(n, (ast.Continue, ast.Break, ast.Return)) and on_error_path(n):
            continue
        if isinstance(n, ast.Continue):
            kind = "continue"
        elif isinstance(n, ast.Break):
            kind = "break"
        elif isinstance(n, ast.Return):
            cur = n
            in_loop = False
            while id(cur) in parents:
                cur = parents[id(cur)]
                if isinstance(cur, (ast.For, ast.While)):
                    in_loop = True
                    break
                if isinstance(cur, (ast.FunctionDef, ast.Lambda)):
                    break
            if in_loop:
                kind = "return_in_loop"
        if isinstance(n, ast.Return):
            # every return statement of the function itself (an added early return ends the examination for all that follows)
            cur2 = n
            own = True
            while id(cur2) in parents:
                cur2 = parents[id(cur2)]
                if isinstance(cur2, (ast.FunctionDef, ast.AsyncFunctionDef, ast.Lambda)):
                    own = cur2 is f.node
                    break
            if own:
                prof["return"] += 1
        if kind is None:
            continue
        # nested function definitions are profiled on their own
        cur = n
        nested = False
        while id(cur) in parents:
            cur = parents[id(cur)]
            if isinstance(cur, (ast.FunctionDef, ast.AsyncFunctionDef, ast.Lambda)) and cur is not f.node:
                nested = True
                break
        if nested:
            continue
        prof[kind] += 1
        g = S.guards_of(n, parents)
        prof["guards"].append(f"{kind} under " + (("" if g[-1][1] else "not ") + ast.unparse(g[-1][0])[:90] if g else "<loop body>"))
    return prof


def load_baseline() -> Dict[str, Dict[str, object]]:
    return json.loads(BASELINE.read_text()) if BASELINE.exists() else {}


def check_skips(ctx, f: FuncInfo, rule: str, baseline: Dict[str, Dict[str, object]]) -> None:
    ref = baseline.get(f.key)
    if ref is None:
        ctx.skip(rule, f, f.node, "function not in the reference of skip statements")
        return
    prof = skip_profile(f)
    worse = [k for k in ("continue", "break", "return_in_loop", "return", "comp_ifs", "comp_if_atoms") if prof[k] > ref.get(k, prof[k] if k in ("return", "comp_ifs", "comp_if_atoms") else 0)]
    if prof["unguarded_recursions"] < ref.get("unguarded_recursions", 0):
        worse.append("fewer unconditional descents into children")
    what = (f"{f.qualname}: {prof['continue']} continue / {prof['break']} break / {prof['return_in_loop']} return-in-loop / {prof['return']} return "
            f"(reference {ref.get('continue', 0)}/{ref.get('break', 0)}/{ref.get('return_in_loop', 0)}/{ref.get('return', '?')})")
    if not worse:
        ctx.ok(rule, f, f.node, what=what, nontrivial=(prof["continue"] + prof["break"] + prof["return_in_loop"]) > 0)
        return
    new = [g for g in prof["guards"] if g not in ref.get("guards", [])]
    what += f"; {prof['comp_ifs']} comprehension filters with {prof['comp_if_atoms']} conjuncts (reference {ref.get('comp_ifs', '?')} with {ref.get('comp_if_atoms', '?')}); {prof['unguarded_recursions']} unconditional self.visit/self.transform (reference {ref.get('unguarded_recursions', '?')})"
    ctx.fail(rule, f, f.node,
             f"{f.qualname} examines every element of its collections; compared with the reference it has: {'; '.join(worse)} "
             f"({what}). New or changed: {new[:3]}: elements that were examined before are skipped",
             construct=f"{f.qualname}: more skips than the reference")
