"""
ERR4: exit code <-> stream pairing on every CFG path of an ``execute``.

* a path to ``return <non-zero constant>`` has written to ``stderr``;
* a path to ``return 0`` has written nothing to ``stderr`` and (when the
  function owns a ``stdout``) has written to ``stdout``, the stdout write being
  the last stream write on that path;
* ``return <call forwarding the streams>`` delegates the obligation to the callee.
"""
import ast
from typing import Optional, Set

from ..cfg import Node
from ..flow import artefacts, calls_in, set_dataflow
from ..model import FuncInfo, dotted_of, short


def _writes(node: Node, stream: str) -> bool:
    for c in calls_in(node):
        d = dotted_of(c.func)
        if d == f"{stream}.write" or d == f"{stream}.writelines":
            return True
        if d is not None and d.split(".")[-1] == "write_error_report":
            for kw in c.keywords:
                if kw.arg == "stderr" and isinstance(kw.value, ast.Name) and kw.value.id == stream:
                    return True
            if len(c.args) >= 3 and isinstance(c.args[2], ast.Name) and c.args[2].id == stream:
                return True
        if d == "print":
            for kw in c.keywords:
                if kw.arg == "file" and isinstance(kw.value, ast.Name) and kw.value.id == stream:
                    return True
    return False


def _forwards_streams(call: ast.Call, has_stdout: bool) -> bool:
    names = set()
    for kw in call.keywords:
        if isinstance(kw.value, ast.Name):
            names.add((kw.arg, kw.value.id))
    for a in call.args:
        if isinstance(a, ast.Name):
            names.add((a.id, a.id))
    ok = ("stderr", "stderr") in names
    if has_stdout:
        ok = ok and ("stdout", "stdout") in names
    return ok


def check_exit_contract(ctx, f: FuncInfo, rule: str) -> None:
    params = f.param_names()
    ctx.require_anchor("stderr" in params, f"{f.key} has a `stderr` parameter")
    has_stdout = "stdout" in params
    art = artefacts(ctx.ty, f)
    cfg = art.cfg

    # state: (stderr_written, stdout_written, last)  last in {None,"err","out"}
    def transfer(node: Node, st):
        e, o, last = st
        if _writes(node, "stderr"):
            e, last = True, "err"
        if has_stdout and _writes(node, "stdout"):
            o, last = True, "out"
        return [(e, o, last)]

    IN = set_dataflow(cfg, frozenset([(False, False, None)]), transfer)
    n_returns = 0
    for node in cfg.nodes:
        if node.id not in IN:
            continue
        if node.kind == "end":
            ctx.fail(rule, f, f.node, "a path falls off the end of the function: the exit code is None", construct="implicit return")
            continue
        if node.kind != "return":
            continue
        n_returns += 1
        val = node.expr
        if isinstance(val, ast.Name) and len(node.preds) == 1:
            # `code = other.execute(...); return code`: the value is the call of the only predecessor
            pred = cfg.nodes[node.preds[0][0] if isinstance(node.preds[0], tuple) else node.preds[0]]
            ps = pred.stmt
            if pred.kind == "stmt" and isinstance(ps, ast.Assign) and len(ps.targets) == 1 and isinstance(ps.targets[0], ast.Name) and ps.targets[0].id == val.id:
                val = ps.value
        states = {transfer(node, s)[0] for s in IN[node.id]}
        what = f"{short(node.stmt)} @ predecessor-state"
        if isinstance(val, ast.Constant) and isinstance(val.value, int) and not isinstance(val.value, bool):
            if val.value != 0:
                bad = [s for s in states if not s[0]]
                if bad:
                    ctx.fail(rule, f, node.stmt,
                             f"a path reaches `return {val.value}` at line {node.lineno} without any write to stderr: a failing run with an empty error report",
                             construct=f"return {val.value} #{_ordinal(cfg, node)}")
                else:
                    ctx.ok(rule, f, node.stmt, what=f"return {val.value} #{_ordinal(cfg, node)}: stderr written on all paths")
            else:
                bad_e = [s for s in states if s[0]]
                bad_o = [s for s in states if has_stdout and (not s[1] or s[2] != "out")]
                if bad_e:
                    ctx.fail(rule, f, node.stmt,
                             f"a path reaches `return 0` at line {node.lineno} after writing to stderr: exit status 0 with a non-empty stderr",
                             construct=f"return 0 #{_ordinal(cfg, node)} (stderr)")
                elif bad_o:
                    ctx.fail(rule, f, node.stmt,
                             f"a path reaches `return 0` at line {node.lineno} without the closing stdout line as its last output",
                             construct=f"return 0 #{_ordinal(cfg, node)} (stdout)")
                else:
                    ctx.ok(rule, f, node.stmt, what=f"return 0 #{_ordinal(cfg, node)}: no stderr, stdout line last")
        elif isinstance(val, ast.Call) and _forwards_streams(val, has_stdout):
            bad_e = [s for s in states if s[0] or s[1]]
            if bad_e:
                ctx.fail(rule, f, node.stmt, "streams were already written before delegating to another execute",
                         construct=f"delegation {short(val.func)}")
            else:
                ctx.ok(rule, f, node.stmt, what=f"delegation to {short(val.func)} with untouched streams")
        else:
            ctx.fail(rule, f, node.stmt, f"exit code `{short(val) if val is not None else 'None'}` is neither a constant nor a delegation forwarding the streams",
                     construct=f"return {short(val) if val is not None else 'None'}")
    ctx.require_anchor(n_returns > 0, f"{f.key} has reachable return statements")


def _ordinal(cfg, node: Node) -> int:
    """Ordinal of this return among the function's returns (stable under line shifts)."""
    rets = sorted((n.lineno, n.id) for n in cfg.nodes if n.kind == "return")
    return [i for i, (_, nid) in enumerate(rets) if nid == node.id][0]
