"""
G-CONTRACT: icontract lambdas are well-typed with respect to the decorated
function's signature (mypy cannot see into them: the lambda parameters are
untyped).  ``result`` is typed by the return annotation, other parameters by the
function's parameters.  Checked: class compatibility of arguments of resolved
calls inside the lambda, and numeric format specs.
"""
import ast
from typing import Dict, List, Optional

from ..flow import artefacts
from ..model import FuncInfo, dotted_of, short
from ..types import T, Cls, Ext, Opt, Seq, Uni, Unknown, FuncTypes, strip_opt, UNKNOWN


def _compatible(ctx, arg_t: T, param_t: T) -> Optional[bool]:
    """True/False when decidable for class-typed values, None when not."""
    a, b = strip_opt(arg_t), strip_opt(param_t)
    if isinstance(a, Unknown) or isinstance(b, Unknown):
        return None
    if isinstance(a, Uni):
        rs = [_compatible(ctx, m, b) for m in a.members]
        if all(r is True for r in rs):
            return True
        if any(r is False for r in rs):
            return False
        return None
    if isinstance(b, Uni):
        rs = [_compatible(ctx, a, m) for m in b.members]
        if any(r is True for r in rs):
            return True
        if all(r is False for r in rs):
            return False
        return None
    if isinstance(a, Cls) and isinstance(b, Cls):
        if ctx.p.is_subclass(a.ci, b.ci):
            return True
        # ``b`` may be a NewType-like str subclass and ``a`` unrelated
        return False
    if isinstance(a, Cls) and isinstance(b, Ext):
        if b.name in ("object",):
            return True
        bases = {x for c in ctx.p.mro(a.ci) for x in ctx.p.base_names(c)}
        if b.name in bases:
            return True
        if b.name in ("str", "int", "float", "bool", "bytes"):
            return False
        return None
    return None


def check_contract_lambdas(ctx, f: FuncInfo, rule: str) -> None:
    decs = [d for d in f.node.decorator_list if isinstance(d, ast.Call) and dotted_of(d.func) in ("require", "ensure", "snapshot", "icontract.require", "icontract.ensure") and d.args and isinstance(d.args[0], ast.Lambda)]
    if not decs:
        return
    ft = artefacts(ctx.ty, f).types
    for d in decs:
        lam = d.args[0]
        env: Dict[str, T] = {}
        for a in lam.args.args:
            if a.arg == "result":
                env["result"] = ctx.ty.return_type(f)
            elif a.arg == "self" and f.cls is not None:
                env["self"] = Cls(f.cls)
            elif a.arg == "OLD":
                env["OLD"] = UNKNOWN
            else:
                env[a.arg] = ctx.ty.param_type(f, a.arg)
        _check_expr(ctx, f, ft, lam.body, env, rule)


def _check_expr(ctx, f, ft: FuncTypes, e: ast.AST, env: Dict[str, T], rule: str) -> None:
    if isinstance(e, (ast.GeneratorExp, ast.ListComp, ast.SetComp, ast.DictComp)):
        env = dict(env)
        for g in e.generators:
            _check_expr(ctx, f, ft, g.iter, env, rule)
            it = ft.type_of(g.iter, env)
            el = ft._elem_of(it, g.iter, env)
            ft._bind(g.target, el, env)
            for cond in g.ifs:
                _check_expr(ctx, f, ft, cond, env, rule)
                ft._narrow(cond, True, env)
        if isinstance(e, ast.DictComp):
            _check_expr(ctx, f, ft, e.key, env, rule)
            _check_expr(ctx, f, ft, e.value, env, rule)
        else:
            _check_expr(ctx, f, ft, e.elt, env, rule)
        return
    if isinstance(e, ast.Lambda):
        return
    if isinstance(e, ast.Call):
        target = ft.resolve_call(e, env)
        if isinstance(target, FuncInfo):
            params = [p for p in target.params if p.arg not in ("self", "cls")]
            pairs = list(zip(e.args, params))
            byname = {p.arg: p for p in params}
            for kw in e.keywords:
                if kw.arg in byname:
                    pairs.append((kw.value, byname[kw.arg]))
            for arg, prm in pairs:
                if isinstance(arg, ast.Starred):
                    continue
                at = ft.type_of(arg, env)
                pt = ctx.ty.from_annotation(target.module, prm.annotation)
                comp = _compatible(ctx, at, pt)
                what = f"{short(e.func)}({prm.arg}={short(arg)})"
                if comp is False:
                    ctx.fail(rule, f, e,
                             f"in a contract of {f.qualname}: `{short(arg)}` has type {strip_opt(at).show().split(':')[-1]} but `{target.qualname}` expects `{prm.arg}: {strip_opt(pt).show().split(':')[-1]}`; "
                             f"the contract itself raises when it is evaluated",
                             construct=what)
                elif comp is True:
                    ctx.ok(rule, f, e, what=what)
    for c in ast.iter_child_nodes(e):
        _check_expr(ctx, f, ft, c, env, rule)
