"""
Self-test of the checkers, both ways (DESIGN §7).

A *variant* is an edit of /repo's sources that is applied to a scratch copy of
the touched files only (``mktemp -d`` outside /repo and /verif, removed as soon
as the variant is judged) and handed to the analyser as an overlay:

* ``breaking``  variants must make the named property's check report a
  violation in the named rule (a missed one fails the thorough run, exit 2:
  it is a checker defect, not a repository violation);
* ``preserving`` variants leave behaviour unchanged and must stay silent.

Variants come from three sources:
  selftest/regressions/*.diff   reverse patches of the ``fix:`` commits
  selftest/variants/*.json      hand-written search/replace edits
  seeded/<id>/patch.diff        changes written by independent sub-agents
"""
import concurrent.futures
import importlib
import io
import json
import os
import pathlib
import shutil
import subprocess
import sys
import tempfile
import contextlib
from typing import Any, Dict, List, Optional, Tuple

from .model import Program, AnalysisError, repo_root
from .types import Typer
from .report import Ctx, load_known, EVIDENCE_DIR

ROOT = pathlib.Path(__file__).resolve().parent.parent


def analyse(prop: str, tier: str = "quick", overlay_text: Optional[Dict[str, str]] = None) -> Ctx:
    program = Program(overlay_text=overlay_text)
    typer = Typer(program)
    ctx = Ctx(prop, tier, program, typer)
    mod = importlib.import_module(f"sa.props.{prop.lower()}")
    mod.run(ctx)
    return ctx


def _touched_files(diff_text: str) -> List[str]:
    out = []
    for line in diff_text.splitlines():
        if line.startswith("+++ "):
            p = line[4:].strip()
            if p.startswith("b/"):
                p = p[2:]
            if p != "/dev/null" and p not in out:
                out.append(p)
    return out


def overlay_from_patch(diff_path: pathlib.Path) -> Dict[str, str]:
    diff_text = diff_path.read_text()
    files = _touched_files(diff_text)
    tmp = pathlib.Path(tempfile.mkdtemp(prefix="sa-variant-"))
    try:
        for rel in files:
            src = repo_root() / rel
            dst = tmp / rel
            dst.parent.mkdir(parents=True, exist_ok=True)
            if src.exists():
                shutil.copy(src, dst)
        r = subprocess.run(
            ["patch", "-p1", "-s", "-f", "-d", str(tmp), "-i", str(diff_path)],
            capture_output=True, text=True,
        )
        if r.returncode != 0:
            raise AnalysisError(f"variant patch {diff_path.name} does not apply to the current tree: {r.stdout.strip()[:200]}")
        return {rel: (tmp / rel).read_text(encoding="utf-8") for rel in files if rel.endswith(".py") and rel.startswith("aas_core_codegen/")}
    finally:
        shutil.rmtree(tmp, ignore_errors=True)


def overlay_from_edits(edits: List[Dict[str, Any]]) -> Dict[str, str]:
    out: Dict[str, str] = {}
    for e in edits:
        rel = e["file"]
        text = out.get(rel)
        if text is None:
            text = (repo_root() / rel).read_text(encoding="utf-8")
        n = text.count(e["old"])
        if n != e.get("count", 1):
            raise AnalysisError(f"variant edit does not match the current tree ({n} occurrences): {rel}: {e['old'][:60]!r}")
        out[rel] = text.replace(e["old"], e["new"])
    return out


def load_variants(prop: Optional[str] = None) -> List[Dict[str, Any]]:
    variants: List[Dict[str, Any]] = []
    reg = ROOT / "selftest" / "regressions.json"
    if reg.exists():
        for v in json.loads(reg.read_text()):
            v["source"] = "regression"
            variants.append(v)
    vdir = ROOT / "selftest" / "variants"
    if vdir.exists():
        for f in sorted(vdir.glob("*.json")):
            for v in json.loads(f.read_text()):
                v["source"] = f"variants/{f.name}"
                variants.append(v)
    sdir = ROOT / "seeded"
    if sdir.exists():
        for d in sorted(sdir.iterdir()):
            meta = d / "meta.json"
            if meta.exists() and (d / "patch.diff").exists():
                m = json.loads(meta.read_text())
                if m.get("detected_by"):
                    variants.append({
                        "name": f"seeded/{d.name}", "patch": f"seeded/{d.name}/patch.diff",
                        "kind": "breaking", "expect": m["detected_by"], "source": "seeded",
                    })
    if prop is not None:
        variants = [v for v in variants if prop in v.get("expect", {}) or prop in v.get("silent_for", [])]
    return variants


def judge(variant: Dict[str, Any], only_prop: Optional[str] = None) -> Dict[str, Any]:
    """Run the relevant checks on the variant; return a verdict record."""
    try:
        if "patch" in variant:
            ov = overlay_from_patch(ROOT / variant["patch"])
        else:
            ov = overlay_from_edits(variant["edits"])
    except AnalysisError as exc:
        return {"name": variant["name"], "ok": False, "error": str(exc)}
    res: Dict[str, Any] = {"name": variant["name"], "kind": variant["kind"], "ok": True, "details": []}
    known = load_known()
    props = list(variant.get("expect", {}).keys()) + list(variant.get("silent_for", []))
    for prop in props:
        if only_prop is not None and prop != only_prop:
            continue
        buf = io.StringIO()
        try:
            with contextlib.redirect_stdout(buf):
                ctx = analyse(prop, "quick", overlay_text=ov)
            kk = {k["key"] for k in known if k.get("property") == prop and k.get("status") == "known"}
            viol = [f for f in ctx.findings if f.key not in kk]
            floors_ok = all(ctx.obligations.get(r, 0) >= fl or any(f.rule == r for f in ctx.findings) for r, fl in ctx.floors.items())
        except AnalysisError as exc:
            viol, floors_ok = [], False
            res["details"].append(f"{prop}: ANALYSIS-ERROR {exc}")
        rules = sorted({f.rule for f in viol})
        if prop in variant.get("expect", {}):
            want = variant["expect"][prop]
            hit = [r for r in want if r in rules] if want else rules
            good = bool(hit) or (not floors_ok and variant.get("anchor_loss_ok", False))
            res["details"].append(f"{prop}: expected {want or 'any'}; reported {rules or 'nothing'}{'' if floors_ok else ' (floor/anchor lost)'}")
            if not good:
                res["ok"] = False
        else:
            res["details"].append(f"{prop}: expected silence; reported {rules or 'nothing'}")
            if viol or not floors_ok:
                res["ok"] = False
                res["details"].extend(f"    {f.relpath}:{f.lineno} [{f.rule}] {f.construct}" for f in viol[:5])
    return res


def _judge_star(args):
    sys.path.insert(0, str(ROOT))
    return judge(*args)


def run_for(prop: str) -> int:
    """Thorough tier: judge this property's slice of the variant corpus."""
    variants = load_variants(prop)
    if not variants:
        print(f"{prop} [thorough] no variants in the corpus for this property")
        return 0
    results = []
    with concurrent.futures.ProcessPoolExecutor(max_workers=min(16, len(variants))) as ex:
        for r in ex.map(_judge_star, [(v, prop) for v in variants]):
            results.append(r)
    bad = [r for r in results if not r["ok"]]
    nb = sum(1 for r in results if r.get("kind") == "breaking")
    np_ = sum(1 for r in results if r.get("kind") == "preserving")
    nb_ok = sum(1 for r in results if r.get("kind") == "breaking" and r["ok"])
    np_ok = sum(1 for r in results if r.get("kind") == "preserving" and r["ok"])
    print(f"{prop} [thorough] self-test: breaking variants detected {nb_ok}/{nb}, preserving variants silent {np_ok}/{np_}")
    for r in results:
        for d in r.get("details", []):
            print(f"  {r['name']}: {d}")
        if "error" in r:
            print(f"  {r['name']}: {r['error']}")
    # record in the evidence file written by the clean-tree run
    ev_path = EVIDENCE_DIR / f"{prop}.json"
    if ev_path.exists():
        ev = json.loads(ev_path.read_text())
        ev["tier"] = "thorough"
        ev["coverage"]["selftest"] = {
            "variants_breaking_detected": f"{nb_ok}/{nb}",
            "variants_preserving_silent": f"{np_ok}/{np_}",
            "variants": [{"name": r["name"], "kind": r.get("kind"), "ok": r["ok"], "details": r.get("details", [])} for r in results],
        }
        ev_path.write_text(json.dumps(ev, indent=1, default=str))
    if bad:
        print(f"ANALYSIS-ERROR self-test of the {prop} checker failed on: " + ", ".join(r["name"] for r in bad))
        return 2
    return 0


if __name__ == "__main__":
    # python -m sa.selftest [name-substring]
    sel = sys.argv[1] if len(sys.argv) > 1 else ""
    vs = [v for v in load_variants() if sel in v["name"]]
    with concurrent.futures.ProcessPoolExecutor(max_workers=16) as ex:
        for r in ex.map(_judge_star, [(v, None) for v in vs]):
            print(("PASS " if r["ok"] else "FAIL ") + r["name"])
            for d in r.get("details", []):
                print("     " + d)
            if "error" in r:
                print("     " + r["error"])
