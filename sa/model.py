"""
Program model: all modules of ``aas_core_codegen`` parsed to ``ast``.

Nothing is imported from /repo; everything is read from the source text of the
current working tree (``SA_REPO`` environment variable, default ``/repo``).
"""
import ast
import io
import os
import pathlib
import tokenize
from typing import Dict, List, Optional, Tuple, Iterator, Union, Any

PKG = "aas_core_codegen"


def repo_root() -> pathlib.Path:
    return pathlib.Path(os.environ.get("SA_REPO", "/repo"))


class AnalysisError(Exception):
    """An anchor vanished or the analyser cannot do its job: exit 2, never a pass."""


class ClassInfo:
    def __init__(self, module: "Module", node: ast.ClassDef, qualname: str) -> None:
        self.module = module
        self.node = node
        self.name = node.name
        self.qualname = qualname
        self.methods: Dict[str, "FuncInfo"] = {}
        # class-level ``x: T`` annotations
        self.annotations: Dict[str, ast.expr] = {}
        # class-level ``X = <expr>`` assignments
        self.assigns: Dict[str, ast.expr] = {}
        for stmt in node.body:
            if isinstance(stmt, ast.AnnAssign) and isinstance(stmt.target, ast.Name):
                self.annotations[stmt.target.id] = stmt.annotation
                if stmt.value is not None:
                    self.assigns[stmt.target.id] = stmt.value
            elif isinstance(stmt, ast.Assign):
                for tgt in stmt.targets:
                    if isinstance(tgt, ast.Name):
                        self.assigns[tgt.id] = stmt.value

    @property
    def key(self) -> str:
        return f"{self.module.name}:{self.qualname}"

    def __repr__(self) -> str:
        return f"<class {self.key}>"


class FuncInfo:
    def __init__(
        self,
        module: "Module",
        node: Union[ast.FunctionDef, ast.AsyncFunctionDef],
        qualname: str,
        cls: Optional[ClassInfo],
        parent: Optional["FuncInfo"],
    ) -> None:
        self.module = module
        self.node = node
        self.name = node.name
        self.qualname = qualname
        self.cls = cls
        self.parent = parent
        self.nested: Dict[str, "FuncInfo"] = {}

    @property
    def key(self) -> str:
        return f"{self.module.name}:{self.qualname}"

    @property
    def params(self) -> List[ast.arg]:
        a = self.node.args
        return list(a.posonlyargs) + list(a.args) + list(a.kwonlyargs)

    def param_names(self) -> List[str]:
        return [p.arg for p in self.params]

    def decorator_names(self) -> List[str]:
        out = []
        for d in self.node.decorator_list:
            f = d.func if isinstance(d, ast.Call) else d
            out.append(ast.unparse(f))
        return out

    def is_stub(self) -> bool:
        """Body is only docstring + ``raise NotImplementedError`` / ``...`` / ``pass``."""
        body = list(self.node.body)
        if (
            body
            and isinstance(body[0], ast.Expr)
            and isinstance(body[0].value, ast.Constant)
            and isinstance(body[0].value.value, str)
        ):
            body = body[1:]
        if not body:
            return True
        for stmt in body:
            if isinstance(stmt, ast.Pass):
                continue
            if isinstance(stmt, ast.Expr) and isinstance(stmt.value, ast.Constant):
                continue
            if isinstance(stmt, ast.Raise) and stmt.exc is not None:
                e = stmt.exc.func if isinstance(stmt.exc, ast.Call) else stmt.exc
                if isinstance(e, ast.Name) and e.id == "NotImplementedError":
                    continue
            return False
        return True

    def __repr__(self) -> str:
        return f"<func {self.key}>"


# -- alpha-normalisation against the reference ------------------------------------------
#
# Several rules recognise a construct through the name of a local variable (``errors``, ``primitive_type``,
# ``cache_path`` ...).  Renaming a local is behaviour-preserving; to keep such an edit from changing a verdict, the locals
# of every function are mapped back to the names they have in the reference (``baselines/locals.json``, written from the
# unchanged tree by tools/gen_baselines.py): names that do not occur in the reference are matched, in order of first
# assignment, with the reference names that no longer occur.  A function whose set of locals is unchanged, or whose
# number of new names differs from the number of vanished ones, is left as it is.

_LOCALS_REF: Optional[Dict[str, List[str]]] = None


def ordered_locals(fn: ast.AST) -> List[str]:
    params = set()
    args = fn.args  # type: ignore[attr-defined]
    for a in list(args.posonlyargs) + list(args.args) + list(args.kwonlyargs) + ([args.vararg] if args.vararg else []) + ([args.kwarg] if args.kwarg else []):
        params.add(a.arg)
    sites = []

    def walk(n: ast.AST) -> None:
        for c in ast.iter_child_nodes(n):
            if isinstance(c, (ast.FunctionDef, ast.AsyncFunctionDef, ast.ClassDef)):
                continue
            if isinstance(c, ast.Name) and isinstance(c.ctx, ast.Store):
                sites.append((c.lineno, c.col_offset, c.id))
            walk(c)

    walk(fn)
    out: List[str] = []
    for _, _, name in sorted(sites):
        if name not in params and name not in out and name != "_":
            out.append(name)
    return out


def _derename(module_name: str, tree: ast.AST) -> None:
    global _LOCALS_REF
    if _LOCALS_REF is None:
        ref_path = pathlib.Path(__file__).resolve().parent.parent / "baselines" / "locals.json"
        try:
            import json as _json
            _LOCALS_REF = _json.loads(ref_path.read_text())
        except Exception:  # noqa: no reference, no normalisation
            _LOCALS_REF = {}
    if not _LOCALS_REF:
        return

    def visit(body, prefix: str) -> None:
        for st in body:
            if isinstance(st, (ast.FunctionDef, ast.AsyncFunctionDef)):
                qn = prefix + st.name
                ref = _LOCALS_REF.get(f"{module_name}:{qn}")
                if ref is not None:
                    cur = ordered_locals(st)
                    new = [x for x in cur if x not in ref]
                    gone = [x for x in ref if x not in cur]
                    if new and len(new) == len(gone):
                        mapping = dict(zip(new, gone))
                        for n in ast.walk(st):
                            if isinstance(n, ast.Name) and n.id in mapping:
                                n.id = mapping[n.id]
                visit(st.body, qn + ".")
            elif isinstance(st, ast.ClassDef):
                visit(st.body, prefix + st.name + ".")

    visit(tree.body, "")  # type: ignore[attr-defined]


# ``if not c: A else: B`` and ``if c: B else: A`` are the same program.  Rules that read the arms of a conditional (which arm
# handles which case, which guard protects which statement) see one canonical form: a negated test with a plain ``else`` is
# flipped (also when the ``else`` holds a further ``if``: ``if not c: A elif d: B`` reads ``if c: (if d: B) else: A``).

def _normalise_ifs(tree: ast.AST) -> None:
    for n in ast.walk(tree):
        if not isinstance(n, ast.If):
            continue
        while (
            isinstance(n.test, ast.UnaryOp)
            and isinstance(n.test.op, ast.Not)
            and n.orelse
        ):
            n.test = n.test.operand
            n.body, n.orelse = n.orelse, n.body


# ``a == b`` and ``b == a`` are the same test (likewise ``!=``, ``is``, ``is not``).  Canonical form: a constant-like side (a literal,
# ``None``, an UPPER_CASE name or enumeration member) stands on the right.  Two non-constant sides keep their order (rules that compare such tests do so modulo the order).

def _constant_like(e: ast.expr) -> bool:
    if isinstance(e, ast.Constant):
        return True
    if isinstance(e, ast.Attribute):
        return e.attr.isupper()
    if isinstance(e, ast.Name):
        return e.id.isupper()
    if isinstance(e, ast.UnaryOp) and isinstance(e.op, ast.USub):
        return _constant_like(e.operand)
    return False


def _normalise_symmetric_comparisons(tree: ast.AST) -> None:
    for n in ast.walk(tree):
        if isinstance(n, ast.Compare) and len(n.ops) == 1 and isinstance(n.ops[0], (ast.Eq, ast.NotEq, ast.Is, ast.IsNot)):
            a, b = n.left, n.comparators[0]
            ca, cb = _constant_like(a), _constant_like(b)
            if ca and not cb:
                n.left, n.comparators = b, [a]


# ``if c: ...; return  else: REST`` and ``if c: ...; return`` followed by ``REST`` are the same program.  Canonical form: the
# ``else`` of a conditional whose body always leaves (return / continue / break / raise) is dissolved into the enclosing block.
# ``elif`` chains keep their shape (the exhaustiveness rules read them as chains).

_LEAVES = (ast.Return, ast.Continue, ast.Break, ast.Raise)


def _negated(test: ast.expr) -> ast.expr:
    if isinstance(test, ast.UnaryOp) and isinstance(test.op, ast.Not):
        return test.operand
    return ast.copy_location(ast.UnaryOp(op=ast.Not(), operand=test), test)


def _block_leaves(block) -> bool:
    if not block:
        return False
    last = block[-1]
    if isinstance(last, _LEAVES):
        return True
    if isinstance(last, ast.If) and last.orelse:
        return _block_leaves(last.body) and _block_leaves(last.orelse)
    return False


def _is_error_branch(block) -> bool:
    for st in block:
        for n in ast.walk(st):
            if isinstance(n, ast.Call):
                name = dotted_of(n.func) or ""
                if "error" in name.lower() or name == "assert_never":
                    return True
    return False


def _chain_has_final_else(st: ast.If) -> bool:
    cur = st
    while len(cur.orelse) == 1 and isinstance(cur.orelse[0], ast.If):
        cur = cur.orelse[0]
    return bool(cur.orelse)


def _normalise_else_after_leave(tree: ast.AST) -> None:
    """Canonical form of ``if c: A else: B`` when a branch always leaves (ends in return / continue / break / raise): the leaving
    branch is the body (the test negated if necessary) and the other branch follows the conditional; when both leave, the test
    is the positive one.  All of ``if c: A; return`` + ``B``, ``if c: A; return  else: B`` and ``if not c: B  else: A; return``
    read the same."""
    changed = True
    while changed:
        changed = False
        for owner in ast.walk(tree):
            for attr in ("body", "orelse", "finalbody"):
                block = getattr(owner, attr, None)
                if not (isinstance(block, list) and block and isinstance(block[0], ast.stmt)):
                    continue
                if isinstance(owner, ast.If) and attr == "orelse" and len(block) == 1 and isinstance(block[0], ast.If):
                    continue  # an elif
                i = 0
                while i < len(block):
                    st = block[i]
                    if isinstance(st, ast.If) and len(st.orelse) == 1 and isinstance(st.orelse[0], ast.If) and _block_leaves(st.body) \
                            and not _chain_has_final_else(st):
                        # ``if c: leave  elif d: X`` without a final ``else`` is ``if c: leave`` followed by ``if d: X``
                        rest = st.orelse
                        st.orelse = []
                        block[i + 1:i + 1] = rest
                        changed = True
                    elif isinstance(st, ast.If) and st.orelse and not (len(st.orelse) == 1 and isinstance(st.orelse[0], ast.If)):
                        body_leaves = _block_leaves(st.body)
                        else_leaves = _block_leaves(st.orelse)
                        if body_leaves and else_leaves:
                            # both leave: the order is kept as written (so that adding or removing the ``else`` of a guard clause
                            # changes nothing); only the ``else`` is dissolved
                            pass
                        elif else_leaves and not body_leaves and not (len(st.body) == 1 and isinstance(st.body[0], ast.If)):
                            st.test = _negated(st.test)
                            st.body, st.orelse = st.orelse, st.body
                            body_leaves = True
                        if body_leaves:
                            rest = st.orelse
                            st.orelse = []
                            block[i + 1:i + 1] = rest
                            changed = True
                    i += 1


class Module:
    def __init__(self, name: str, path: pathlib.Path, relpath: str, source: str):
        self.name = name
        self.path = path
        self.relpath = relpath
        self.source = source
        self.lines = source.splitlines()
        self.is_package = path.name == "__init__.py"
        try:
            self.tree = ast.parse(source, filename=str(path), type_comments=True)
        except SyntaxError as exc:
            raise AnalysisError(f"cannot parse {relpath}: {exc}")
        _derename(self.name, self.tree)
        _normalise_else_after_leave(self.tree)
        _normalise_ifs(self.tree)
        _normalise_symmetric_comparisons(self.tree)
        # local name -> dotted target ("pkg.mod" or "pkg.mod.symbol")
        self.imports: Dict[str, str] = {}
        self.functions: Dict[str, FuncInfo] = {}  # by qualname, incl. methods/nested
        self.classes: Dict[str, ClassInfo] = {}  # by qualname
        self.constants: Dict[str, ast.expr] = {}  # module-level NAME = expr
        self.const_annotations: Dict[str, ast.expr] = {}
        self.all_names: Optional[List[str]] = None
        self._trailing_type_comments: Optional[Dict[int, str]] = None
        self._index()

    # -- indexing -------------------------------------------------------------
    def _index(self) -> None:
        pkg_of_module = self.name if self.is_package else self.name.rpartition(".")[0]
        for node in ast.walk(self.tree):
            if isinstance(node, ast.Import):
                for alias in node.names:
                    if alias.asname:
                        self.imports[alias.asname] = alias.name
                    else:
                        top = alias.name.split(".")[0]
                        self.imports.setdefault(top, top)
            elif isinstance(node, ast.ImportFrom):
                base = node.module or ""
                if node.level:
                    parts = pkg_of_module.split(".")
                    if node.level > 1:
                        parts = parts[: -(node.level - 1)]
                    base = ".".join(parts + ([node.module] if node.module else []))
                for alias in node.names:
                    self.imports[alias.asname or alias.name] = f"{base}.{alias.name}"

        def visit(body, prefix, cls, parent):
            for stmt in body:
                if isinstance(stmt, (ast.FunctionDef, ast.AsyncFunctionDef)):
                    qn = f"{prefix}{stmt.name}"
                    fi = FuncInfo(self, stmt, qn, cls, parent)
                    # overloads/properties with setters: keep the last non-stub
                    prev = self.functions.get(qn)
                    if prev is None or not fi.is_stub() or prev.is_stub():
                        self.functions[qn] = fi
                        if cls is not None and parent is None:
                            cls.methods[stmt.name] = fi
                        if parent is not None:
                            parent.nested[stmt.name] = fi
                    visit_nested(stmt.body, f"{qn}.<locals>.", fi)
                elif isinstance(stmt, ast.ClassDef):
                    qn = f"{prefix}{stmt.name}"
                    ci = ClassInfo(self, stmt, qn)
                    self.classes[qn] = ci
                    visit(stmt.body, f"{qn}.", ci, None)
                elif isinstance(stmt, (ast.If, ast.Try, ast.With)):
                    for sub in _sub_bodies(stmt):
                        visit(sub, prefix, cls, parent)

        def visit_nested(body, prefix, parent):
            for stmt in body:
                for node in _walk_no_nested_scopes(stmt):
                    if isinstance(node, (ast.FunctionDef, ast.AsyncFunctionDef)):
                        qn = f"{prefix}{node.name}"
                        fi = FuncInfo(self, node, qn, parent.cls, parent)
                        self.functions[qn] = fi
                        parent.nested[node.name] = fi
                        visit_nested(node.body, f"{qn}.<locals>.", fi)
                    elif isinstance(node, ast.ClassDef):
                        qn = f"{prefix}{node.name}"
                        ci = ClassInfo(self, node, qn)
                        self.classes[qn] = ci
                        visit(node.body, f"{qn}.", ci, None)

        visit(self.tree.body, "", None, None)

        for stmt in self.tree.body:
            if isinstance(stmt, ast.Assign):
                for tgt in stmt.targets:
                    if isinstance(tgt, ast.Name):
                        self.constants[tgt.id] = stmt.value
                        tc = stmt.type_comment
                        if tc is None:
                            tc = self.trailing_type_comment(stmt.end_lineno or stmt.lineno)
                        if tc:
                            try:
                                self.const_annotations[tgt.id] = ast.parse(tc, mode="eval").body
                            except SyntaxError:
                                pass
                        if tgt.id == "__all__" and isinstance(
                            stmt.value, (ast.List, ast.Tuple)
                        ):
                            self.all_names = [
                                e.value
                                for e in stmt.value.elts
                                if isinstance(e, ast.Constant)
                            ]
            elif isinstance(stmt, ast.AnnAssign) and isinstance(stmt.target, ast.Name):
                self.const_annotations[stmt.target.id] = stmt.annotation
                if stmt.value is not None:
                    self.constants[stmt.target.id] = stmt.value

    # -- helpers --------------------------------------------------------------
    def trailing_type_comment(self, lineno: int) -> Optional[str]:
        """``# type: T`` comment on the given physical line (1-based), if any."""
        if self._trailing_type_comments is None:
            found: Dict[int, str] = {}
            try:
                for tok in tokenize.generate_tokens(io.StringIO(self.source).readline):
                    if tok.type == tokenize.COMMENT:
                        text = tok.string.lstrip("#").strip()
                        if text.startswith("type:"):
                            rest = text[len("type:"):].strip()
                            if not rest.startswith("ignore"):
                                found[tok.start[0]] = rest
            except tokenize.TokenError:
                pass
            self._trailing_type_comments = found
        return self._trailing_type_comments.get(lineno)

    def segment(self, node: ast.AST) -> str:
        return ast.get_source_segment(self.source, node) or ast.unparse(node)

    def __repr__(self) -> str:
        return f"<module {self.name}>"


def _sub_bodies(stmt: ast.stmt) -> Iterator[List[ast.stmt]]:
    for field in ("body", "orelse", "finalbody"):
        sub = getattr(stmt, field, None)
        if sub:
            yield sub
    for h in getattr(stmt, "handlers", []) or []:
        yield h.body


def _walk_no_nested_scopes(node: ast.AST) -> Iterator[ast.AST]:
    """Walk ``node`` but do not descend *into* nested function/class bodies."""
    yield node
    if isinstance(node, (ast.FunctionDef, ast.AsyncFunctionDef, ast.ClassDef)):
        return
    for child in ast.iter_child_nodes(node):
        yield from _walk_no_nested_scopes(child)


def walk_function_body(func_node: ast.AST) -> Iterator[ast.AST]:
    """All nodes of a function, excluding nested defs/classes/lambdas' insides."""
    for stmt in func_node.body:  # type: ignore[attr-defined]
        yield from _walk_shallow(stmt)


def _walk_shallow(node: ast.AST) -> Iterator[ast.AST]:
    yield node
    if isinstance(node, (ast.FunctionDef, ast.AsyncFunctionDef, ast.ClassDef, ast.Lambda)):
        return
    for child in ast.iter_child_nodes(node):
        yield from _walk_shallow(child)


def walk_with_lambdas(node: ast.AST, _root: bool = True) -> Iterator[ast.AST]:
    """Walk including lambda bodies but not nested defs/classes (the root is entered)."""
    yield node
    if not _root and isinstance(node, (ast.FunctionDef, ast.AsyncFunctionDef, ast.ClassDef)):
        return
    for child in ast.iter_child_nodes(node):
        yield from walk_with_lambdas(child, False)


class Program:
    """All modules of the package, with name resolution."""

    def __init__(
        self,
        root: Optional[pathlib.Path] = None,
        overlay: Optional[Dict[str, str]] = None,
        overlay_text: Optional[Dict[str, str]] = None,
        base: Optional["Program"] = None,
    ):
        self.root = root or repo_root()
        self.modules: Dict[str, Module] = {}
        pkg_dir = self.root / PKG
        if not pkg_dir.is_dir():
            raise AnalysisError(f"package directory missing: {pkg_dir}")
        overlay = overlay or {}
        for path in sorted(pkg_dir.rglob("*.py")):
            rel = path.relative_to(self.root).as_posix()
            parts = list(path.relative_to(self.root).with_suffix("").parts)
            if parts[-1] == "__init__":
                parts = parts[:-1]
            name = ".".join(parts)
            if base is not None and not (overlay_text and rel in overlay_text) and rel not in overlay and name in base.modules:
                # unchanged module: reuse the parsed, immutable Module object
                self.modules[name] = base.modules[name]
                continue
            if overlay_text and rel in overlay_text:
                source = overlay_text[rel]
            elif rel in overlay:
                source = pathlib.Path(overlay[rel]).read_text(encoding="utf-8")
            else:
                source = path.read_text(encoding="utf-8")
            self.modules[name] = Module(name, path, rel, source)
        self._mro_cache: Dict[str, List[ClassInfo]] = {}
        self._subclasses: Optional[Dict[str, List[ClassInfo]]] = None

    # -- lookup ---------------------------------------------------------------
    def module(self, name: str) -> Module:
        if not name.startswith(PKG):
            name = f"{PKG}.{name}" if name else PKG
        m = self.modules.get(name)
        if m is None:
            raise AnalysisError(f"anchor vanished: module {name}")
        return m

    def func(self, key: str) -> FuncInfo:
        """``pkg.mod:qualname`` (``aas_core_codegen.`` prefix optional)."""
        modname, _, qn = key.partition(":")
        m = self.module(modname)
        f = m.functions.get(qn)
        if f is None:
            raise AnalysisError(f"anchor vanished: function {key}")
        return f

    def cls(self, key: str) -> ClassInfo:
        modname, _, qn = key.partition(":")
        m = self.module(modname)
        c = m.classes.get(qn)
        if c is None:
            raise AnalysisError(f"anchor vanished: class {key}")
        return c

    def all_functions(self) -> Iterator[FuncInfo]:
        for m in self.modules.values():
            yield from m.functions.values()

    def all_classes(self) -> Iterator[ClassInfo]:
        for m in self.modules.values():
            yield from m.classes.values()

    # -- resolution -----------------------------------------------------------
    def resolve_dotted(self, dotted: str, _depth: int = 0) -> Optional[Tuple[str, Any]]:
        """
        Resolve an absolute dotted name to
        ("module", Module) | ("func", FuncInfo) | ("class", ClassInfo) |
        ("const", (Module, name)) | ("external", dotted).
        """
        if _depth > 12:
            return None
        if not dotted.startswith(PKG):
            return ("external", dotted)
        if dotted in self.modules:
            return ("module", self.modules[dotted])
        # longest module prefix
        parts = dotted.split(".")
        for i in range(len(parts) - 1, 0, -1):
            modname = ".".join(parts[:i])
            if modname in self.modules:
                return self._resolve_in_module(self.modules[modname], parts[i:], _depth)
        return None

    def _resolve_in_module(self, module: Module, parts: List[str], _depth: int = 0):
        if not parts:
            return ("module", module)
        head, rest = parts[0], parts[1:]
        if head in module.classes:
            ci = module.classes[head]
            return self._resolve_in_class(ci, rest)
        if head in module.functions and not rest:
            return ("func", module.functions[head])
        if head in module.imports:
            target = module.imports[head]
            return self.resolve_dotted(".".join([target] + rest), _depth + 1)
        if head in module.constants:
            # alias such as ``X = other.Y`` (the package ``__init__`` re-exports)
            val = module.constants[head]
            dotted = _dotted_of(val)
            if dotted is not None and dotted.split(".")[0] != head and _depth < 12:
                r = self._resolve_written(module, dotted.split("."), _depth + 1)
                if r is not None:
                    if r[0] == "class":
                        return self._resolve_in_class(r[1], rest)
                    if r[0] == "module":
                        return self._resolve_in_module(r[1], rest, _depth + 1)
                    if not rest and r[0] in ("func", "const", "classattr"):
                        return r
            if not rest:
                return ("const", (module, head))
            return None
        sub = f"{module.name}.{head}"
        if sub in self.modules:
            return self._resolve_in_module(self.modules[sub], rest, _depth + 1)
        return None

    def _resolve_in_class(self, ci: ClassInfo, rest: List[str]):
        if not rest:
            return ("class", ci)
        if len(rest) == 1:
            m = self.find_method(ci, rest[0])
            if m is not None:
                return ("func", m)
            for c in self.mro(ci):
                if rest[0] in c.assigns or rest[0] in c.annotations:
                    return ("classattr", (c, rest[0]))
        # nested class
        nested = ci.module.classes.get(f"{ci.qualname}.{rest[0]}")
        if nested is not None:
            return self._resolve_in_class(nested, rest[1:])
        return None

    def resolve_expr_name(self, module: Module, parts: List[str]):
        """Resolve a dotted name as written in ``module`` (through its imports)."""
        return self._resolve_written(module, parts, 0)

    def _resolve_written(self, module: Module, parts: List[str], _depth: int):
        head = parts[0]
        if head in module.classes or head in module.functions or head in module.constants:
            return self._resolve_in_module(module, parts, _depth)
        if head in module.imports:
            return self.resolve_dotted(
                ".".join([module.imports[head]] + parts[1:]), _depth + 1
            )
        return None

    def resolve_expr(self, module: Module, expr: ast.expr):
        dotted = _dotted_of(expr)
        if dotted is None:
            return None
        return self.resolve_expr_name(module, dotted.split("."))

    # -- classes --------------------------------------------------------------
    def bases_of(self, ci: ClassInfo) -> List[ClassInfo]:
        out = []
        for b in ci.node.bases:
            if isinstance(b, ast.Subscript):  # Generic[T], Visitor[T]
                b = b.value
            r = self.resolve_expr(ci.module, b)
            if r is not None and r[0] == "class":
                out.append(r[1])
        return out

    def base_names(self, ci: ClassInfo) -> List[str]:
        out = []
        for b in ci.node.bases:
            if isinstance(b, ast.Subscript):
                b = b.value
            out.append(ast.unparse(b))
        return out

    def mro(self, ci: ClassInfo) -> List[ClassInfo]:
        if ci.key in self._mro_cache:
            return self._mro_cache[ci.key]
        self._mro_cache[ci.key] = [ci]  # cycle guard
        out = [ci]
        for b in self.bases_of(ci):
            for c in self.mro(b):
                if c not in out:
                    out.append(c)
        self._mro_cache[ci.key] = out
        return out

    def find_method(self, ci: ClassInfo, name: str) -> Optional[FuncInfo]:
        for c in self.mro(ci):
            if name in c.methods:
                return c.methods[name]
        return None

    def subclasses(self, ci: ClassInfo, transitive: bool = True) -> List[ClassInfo]:
        if self._subclasses is None:
            sub: Dict[str, List[ClassInfo]] = {}
            for c in self.all_classes():
                for b in self.bases_of(c):
                    sub.setdefault(b.key, []).append(c)
            self._subclasses = sub
        direct = self._subclasses.get(ci.key, [])
        if not transitive:
            return list(direct)
        out: List[ClassInfo] = []
        stack = list(direct)
        while stack:
            c = stack.pop()
            if c in out:
                continue
            out.append(c)
            stack.extend(self._subclasses.get(c.key, []))
        return out

    def is_subclass(self, ci: ClassInfo, other: ClassInfo) -> bool:
        return other in self.mro(ci)

    def is_enum(self, ci: ClassInfo) -> bool:
        for c in self.mro(ci):
            for b in self.base_names(c):
                if b in ("enum.Enum", "Enum", "enum.IntEnum", "enum.Flag"):
                    return True
        return False

    def enum_members(self, ci: ClassInfo) -> List[str]:
        return [
            n
            for n in ci.assigns
            if not n.startswith("_")
        ]

    def is_abstract(self, ci: ClassInfo) -> bool:
        names = self.base_names(ci)
        if any(n in ("abc.ABC", "ABC", "DBC") for n in names):
            pass
        for m in ci.methods.values():
            if any(d.endswith("abstractmethod") for d in m.decorator_names()):
                return True
        return False


def _dotted_of(expr: ast.AST) -> Optional[str]:
    parts: List[str] = []
    cur = expr
    while isinstance(cur, ast.Attribute):
        parts.append(cur.attr)
        cur = cur.value
    if isinstance(cur, ast.Name):
        parts.append(cur.id)
        return ".".join(reversed(parts))
    return None


dotted_of = _dotted_of


def norm(node: ast.AST) -> str:
    """Normalised text of a node (keys findings; independent of layout)."""
    text = ast.unparse(node)
    return " ".join(text.split())


def short(node: ast.AST, limit: int = 140) -> str:
    t = norm(node)
    return t if len(t) <= limit else t[: limit - 3] + "..."
