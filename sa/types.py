"""
Annotation-driven local types (DESIGN §2.3).

Best effort: an expression whose type cannot be derived from annotations is
``Unknown``; rules *skip and count* such instances, they never guess.
"""
import ast
from typing import Dict, List, Optional, Tuple, Iterator, Any

from .model import Program, Module, FuncInfo, ClassInfo, dotted_of, walk_function_body


class T:
    """Type term."""

    kind = "?"

    def __repr__(self) -> str:
        return self.show()

    def show(self) -> str:
        return "?"


class Unknown(T):
    kind = "unknown"


UNKNOWN = Unknown()


class Cls(T):
    kind = "cls"

    def __init__(self, ci: ClassInfo):
        self.ci = ci

    def show(self) -> str:
        return self.ci.key

    def __eq__(self, other):
        return isinstance(other, Cls) and other.ci is self.ci

    def __hash__(self):
        return hash(self.ci.key)


class Ext(T):
    """External / builtin type, by dotted name (``str``, ``int``, ``ast.Call``)."""

    kind = "ext"

    def __init__(self, name: str):
        self.name = name

    def show(self) -> str:
        return self.name

    def __eq__(self, other):
        return isinstance(other, Ext) and other.name == self.name

    def __hash__(self):
        return hash(self.name)


class Opt(T):
    kind = "opt"

    def __init__(self, inner: T):
        self.inner = inner

    def show(self) -> str:
        return f"Optional[{self.inner.show()}]"


class Seq(T):
    kind = "seq"

    def __init__(self, elem: T, coll: str = "List"):
        self.elem = elem
        self.coll = coll  # List, Sequence, Set, FrozenSet, Iterable, Iterator ...

    def show(self) -> str:
        return f"{self.coll}[{self.elem.show()}]"


class Tup(T):
    kind = "tup"

    def __init__(self, elems: List[T]):
        self.elems = elems

    def show(self) -> str:
        return "Tuple[" + ", ".join(e.show() for e in self.elems) + "]"


class Map(T):
    kind = "map"

    def __init__(self, key: T, val: T):
        self.key = key
        self.val = val

    def show(self) -> str:
        return f"Mapping[{self.key.show()}, {self.val.show()}]"


class Uni(T):
    kind = "union"

    def __init__(self, members: List[T], alias: Optional[str] = None):
        self.members = members
        self.alias = alias

    def show(self) -> str:
        return self.alias or "Union[" + ", ".join(m.show() for m in self.members) + "]"


class TypeOf(T):
    """``Type[X]``: the class object itself."""

    kind = "typeof"

    def __init__(self, inner: T):
        self.inner = inner

    def show(self) -> str:
        return f"Type[{self.inner.show()}]"


class Fn(T):
    kind = "fn"

    def __init__(self, ret: T):
        self.ret = ret

    def show(self) -> str:
        return f"Callable[..., {self.ret.show()}]"


_SEQ_NAMES = {
    "List", "Sequence", "Set", "FrozenSet", "Iterable", "Iterator", "MutableSequence",
    "AbstractSet", "MutableSet", "Collection", "Deque", "list", "set", "frozenset",
    "Generator",
}
_MAP_NAMES = {"Mapping", "Dict", "MutableMapping", "OrderedDict", "DefaultDict", "dict", "ChainMap"}
_PASS_THROUGH = {"Final", "ClassVar", "Annotated"}


class Typer:
    def __init__(self, program: Program):
        self.p = program
        self._alias_guard: set = set()
        self._ret_cache: Dict[str, T] = {}
        self._attr_cache: Dict[Tuple[str, str], T] = {}

    # -- annotations ----------------------------------------------------------
    def from_annotation(self, module: Module, ann: Optional[ast.expr]) -> T:
        if ann is None:
            return UNKNOWN
        if isinstance(ann, ast.Constant):
            if ann.value is None:
                return Ext("None")
            if isinstance(ann.value, str):
                try:
                    inner = ast.parse(ann.value, mode="eval").body
                except SyntaxError:
                    return UNKNOWN
                return self.from_annotation(module, inner)
            return UNKNOWN
        if isinstance(ann, ast.BinOp) and isinstance(ann.op, ast.BitOr):
            return self._union(
                [self.from_annotation(module, ann.left), self.from_annotation(module, ann.right)]
            )
        if isinstance(ann, ast.Subscript):
            head = dotted_of(ann.value)
            if head is None:
                return UNKNOWN
            base = head.split(".")[-1]
            args = (
                list(ann.slice.elts) if isinstance(ann.slice, ast.Tuple) else [ann.slice]
            )
            if base == "Optional":
                return Opt(self.from_annotation(module, args[0]))
            if base in _PASS_THROUGH:
                return self.from_annotation(module, args[0])
            if base == "Union":
                return self._union([self.from_annotation(module, a) for a in args])
            if base in ("Tuple", "tuple"):
                if len(args) == 2 and isinstance(args[1], ast.Constant) and args[1].value is Ellipsis:
                    return Seq(self.from_annotation(module, args[0]), "Tuple")
                return Tup([self.from_annotation(module, a) for a in args])
            if base in _SEQ_NAMES:
                return Seq(self.from_annotation(module, args[0]), base)
            if base in _MAP_NAMES:
                if len(args) == 2:
                    return Map(
                        self.from_annotation(module, args[0]),
                        self.from_annotation(module, args[1]),
                    )
                return UNKNOWN
            if base == "Type":
                return TypeOf(self.from_annotation(module, args[0]))
            if base == "Callable":
                if len(args) == 2:
                    return Fn(self.from_annotation(module, args[1]))
                return UNKNOWN
            # generic user class, e.g. Visitor[T]
            r = self.p.resolve_expr(module, ann.value)
            if r is not None and r[0] == "class":
                return Cls(r[1])
            return UNKNOWN
        dotted = dotted_of(ann)
        if dotted is None:
            return UNKNOWN
        return self._from_dotted(module, dotted)

    def _from_dotted(self, module: Module, dotted: str) -> T:
        r = self.p.resolve_expr_name(module, dotted.split("."))
        if r is None:
            last = dotted.split(".")[-1]
            if dotted in ("str", "int", "bool", "float", "bytes", "bytearray", "object", "None"):
                return Ext(dotted)
            if last in _SEQ_NAMES:
                return Seq(UNKNOWN, last)
            if last in _MAP_NAMES:
                return Map(UNKNOWN, UNKNOWN)
            if last == "Any":
                return UNKNOWN
            return Ext(dotted)
        kind, val = r
        if kind == "class":
            return Cls(val)
        if kind == "external":
            name = val
            if name.startswith("typing."):
                last = name.split(".")[-1]
                if last in _SEQ_NAMES:
                    return Seq(UNKNOWN, last)
                if last in _MAP_NAMES:
                    return Map(UNKNOWN, UNKNOWN)
                if last == "Any":
                    return UNKNOWN
            return Ext(name)
        if kind == "const":
            mod, name = val
            key = (mod.name, name)
            if key in self._alias_guard:
                return UNKNOWN
            self._alias_guard.add(key)
            try:
                t = self.from_annotation(mod, mod.constants[name])
            finally:
                self._alias_guard.discard(key)
            if isinstance(t, Uni) and t.alias is None:
                t = Uni(t.members, alias=f"{mod.name}:{name}")
            return t
        return UNKNOWN

    def _union(self, members: List[T]) -> T:
        flat: List[T] = []
        has_none = False
        for m in members:
            if isinstance(m, Ext) and m.name == "None":
                has_none = True
            elif isinstance(m, Uni):
                flat.extend(m.members)
            elif isinstance(m, Opt):
                has_none = True
                flat.append(m.inner)
            else:
                flat.append(m)
        if len(flat) == 1:
            u: T = flat[0]
        else:
            u = Uni(flat)
        return Opt(u) if has_none else u

    # -- callables ------------------------------------------------------------
    def return_type(self, f: FuncInfo) -> T:
        if f.key in self._ret_cache:
            return self._ret_cache[f.key]
        self._ret_cache[f.key] = UNKNOWN
        t = self.from_annotation(f.module, f.node.returns)
        if f.node.returns is None and f.node.type_comment:
            try:
                ft = ast.parse(f.node.type_comment, mode="func_type")
                t = self.from_annotation(f.module, ft.returns)  # type: ignore[attr-defined]
            except SyntaxError:
                pass
        self._ret_cache[f.key] = t
        return t

    def param_type(self, f: FuncInfo, name: str) -> T:
        for p in f.params:
            if p.arg == name:
                if p.annotation is not None:
                    return self.from_annotation(f.module, p.annotation)
                if name == "self" and f.cls is not None:
                    return Cls(f.cls)
                if name == "cls" and f.cls is not None:
                    return TypeOf(Cls(f.cls))
        return UNKNOWN

    # -- attributes -----------------------------------------------------------
    def attr_type(self, ci: ClassInfo, attr: str) -> T:
        key = (ci.key, attr)
        if key in self._attr_cache:
            return self._attr_cache[key]
        self._attr_cache[key] = UNKNOWN
        t = self._attr_type(ci, attr)
        self._attr_cache[key] = t
        return t

    def _attr_type(self, ci: ClassInfo, attr: str) -> T:
        for c in self.p.mro(ci):
            if attr in c.annotations:
                return self.from_annotation(c.module, c.annotations[attr])
            m = c.methods.get(attr)
            if m is not None:
                if any(d in ("property", "functools.cached_property", "cached_property") for d in m.decorator_names()):
                    return self.return_type(m)
                return Fn(self.return_type(m))
            init = c.methods.get("__init__")
            if init is not None:
                for node in walk_function_body(init.node):
                    tgt = None
                    val = None
                    ann = None
                    if isinstance(node, ast.Assign) and len(node.targets) == 1:
                        tgt, val = node.targets[0], node.value
                    elif isinstance(node, ast.AnnAssign):
                        tgt, val, ann = node.target, node.value, node.annotation
                    if (
                        isinstance(tgt, ast.Attribute)
                        and isinstance(tgt.value, ast.Name)
                        and tgt.value.id == "self"
                        and tgt.attr == attr
                    ):
                        if ann is not None:
                            return self.from_annotation(c.module, ann)
                        tc = c.module.trailing_type_comment(node.lineno)
                        if tc:
                            try:
                                return self.from_annotation(c.module, ast.parse(tc, mode="eval").body)
                            except SyntaxError:
                                pass
                        if isinstance(val, ast.Name) and val.id in init.param_names():
                            return self.param_type(init, val.id)
                        if val is not None:
                            env = FuncTypes(self, init)
                            return env.type_of(val, env.env_at_entry())
            if attr in c.assigns:
                if self.p.is_enum(c):
                    return Cls(c)
        return UNKNOWN


def strip_opt(t: T) -> T:
    return t.inner if isinstance(t, Opt) else t


class FuncTypes:
    """
    Scoped type environment over one function.

    ``env_for(stmt)`` gives name → type valid *before* ``stmt`` executes, with
    ``isinstance`` / ``is not None`` narrowing applied along the enclosing
    ``if`` bodies, preceding ``assert``s and early exits of the same block.
    """

    def __init__(self, typer: Typer, f: FuncInfo):
        self.ty = typer
        self.f = f
        self.m = f.module
        self._env_before: Dict[int, Dict[str, T]] = {}
        self._built = False

    # -- public ---------------------------------------------------------------
    def env_at_entry(self) -> Dict[str, T]:
        env: Dict[str, T] = {}
        # closure variables from enclosing functions (flow-insensitive)
        chain = []
        cur = self.f.parent
        while cur is not None:
            chain.append(cur)
            cur = cur.parent
        for outer in reversed(chain):
            ft = FuncTypes(self.ty, outer)
            env.update(ft.final_env())
        for p in self.f.params:
            env[p.arg] = self.ty.param_type(self.f, p.arg)
        a = self.f.node.args
        if a.vararg is not None:
            env[a.vararg.arg] = Seq(self.ty.from_annotation(self.m, a.vararg.annotation), "Tuple")
        return env

    def build(self) -> None:
        if self._built:
            return
        self._built = True
        env = self.env_at_entry()
        self._final = self._block(self.f.node.body, env)

    def final_env(self) -> Dict[str, T]:
        self.build()
        return self._final

    def env_for(self, stmt: ast.stmt) -> Dict[str, T]:
        self.build()
        return self._env_before.get(id(stmt), {})

    # -- walking --------------------------------------------------------------
    def _block(self, body: List[ast.stmt], env: Dict[str, T]) -> Dict[str, T]:
        env = dict(env)
        for stmt in body:
            self._env_before[id(stmt)] = dict(env)
            self._stmt(stmt, env)
        return env

    def _stmt(self, stmt: ast.stmt, env: Dict[str, T]) -> None:
        if isinstance(stmt, ast.AnnAssign):
            t = self.ty.from_annotation(self.m, stmt.annotation)
            if isinstance(stmt.target, ast.Name):
                env[stmt.target.id] = t
        elif isinstance(stmt, ast.Assign):
            t = UNKNOWN
            tc = stmt.type_comment or self.m.trailing_type_comment(stmt.lineno)
            if tc is None and stmt.end_lineno and stmt.end_lineno != stmt.lineno:
                tc = self.m.trailing_type_comment(stmt.end_lineno)
            if tc:
                try:
                    t = self.ty.from_annotation(self.m, ast.parse(tc, mode="eval").body)
                except SyntaxError:
                    t = UNKNOWN
            if isinstance(t, Unknown):
                t = self.type_of(stmt.value, env)
            for tgt in stmt.targets:
                self._bind(tgt, t, env)
        elif isinstance(stmt, ast.AugAssign):
            pass
        elif isinstance(stmt, (ast.For, ast.AsyncFor)):
            it = self.type_of(stmt.iter, env)
            elem = self._elem_of(it, stmt.iter, env)
            self._bind(stmt.target, elem, env)
            inner = self._block(stmt.body, env)
            self._merge(env, inner)
            if stmt.orelse:
                self._merge(env, self._block(stmt.orelse, env))
        elif isinstance(stmt, ast.While):
            benv = dict(env)
            self._narrow(stmt.test, True, benv)
            self._merge(env, self._block(stmt.body, benv))
            if stmt.orelse:
                self._merge(env, self._block(stmt.orelse, env))
        elif isinstance(stmt, ast.If):
            tenv = dict(env)
            self._narrow(stmt.test, True, tenv)
            self._walrus(stmt.test, tenv)
            t_out = self._block(stmt.body, tenv)
            fenv = dict(env)
            self._narrow(stmt.test, False, fenv)
            self._walrus(stmt.test, fenv)
            f_out = self._block(stmt.orelse, fenv) if stmt.orelse else fenv
            t_exits = _always_exits(stmt.body)
            f_exits = _always_exits(stmt.orelse) if stmt.orelse else False
            if t_exits and not f_exits:
                env.clear()
                env.update(f_out)
            elif f_exits and not t_exits:
                env.clear()
                env.update(t_out)
            else:
                # join: keep agreeing entries, new names from either side
                joined = dict(env)
                for k in set(t_out) | set(f_out):
                    a, b = t_out.get(k), f_out.get(k)
                    if a is not None and b is not None:
                        if a.show() == b.show():
                            joined[k] = a
                        elif k in env:
                            joined[k] = env[k] if not _assigned_in(stmt, k) else self._join(a, b)
                        else:
                            joined[k] = self._join(a, b)
                    else:
                        joined[k] = a or b  # type: ignore[assignment]
                env.clear()
                env.update(joined)
        elif isinstance(stmt, ast.Assert):
            self._narrow(stmt.test, True, env)
        elif isinstance(stmt, ast.With):
            for item in stmt.items:
                if item.optional_vars is not None:
                    t = self.type_of(item.context_expr, env)
                    self._bind(item.optional_vars, t, env)
            out = self._block(stmt.body, env)
            env.clear()
            env.update(out)
        elif isinstance(stmt, ast.Try):
            out = self._block(stmt.body, env)
            self._merge(env, out)
            for h in stmt.handlers:
                henv = dict(env)
                if h.name:
                    henv[h.name] = self.ty.from_annotation(self.m, h.type) if h.type is not None and not isinstance(h.type, ast.Tuple) else UNKNOWN
                self._merge(env, self._block(h.body, henv))
            if stmt.orelse:
                self._merge(env, self._block(stmt.orelse, env))
            if stmt.finalbody:
                self._merge(env, self._block(stmt.finalbody, env))
        elif isinstance(stmt, ast.Expr):
            self._walrus(stmt.value, env)

    def _walrus(self, expr: ast.AST, env: Dict[str, T]) -> None:
        for n in ast.walk(expr):
            if isinstance(n, ast.NamedExpr) and isinstance(n.target, ast.Name):
                env[n.target.id] = self.type_of(n.value, env)

    def _join(self, a: T, b: T) -> T:
        if a.show() == b.show():
            return a
        if isinstance(a, Unknown) or isinstance(b, Unknown):
            return UNKNOWN
        return self.ty._union([a, b])

    def _merge(self, env: Dict[str, T], other: Dict[str, T]) -> None:
        for k, v in other.items():
            if k not in env:
                env[k] = v
            elif env[k].show() != v.show():
                if isinstance(env[k], Unknown):
                    env[k] = v

    def _bind(self, tgt: ast.expr, t: T, env: Dict[str, T]) -> None:
        if isinstance(tgt, ast.Name):
            for k in [k for k in env if k.startswith(tgt.id + ".") or k.startswith(tgt.id + "[")]:
                del env[k]
            env[tgt.id] = t
        elif isinstance(tgt, (ast.Tuple, ast.List)):
            inner = strip_opt(t) if isinstance(t, Opt) else t
            if isinstance(inner, Tup) and len(inner.elems) == len(tgt.elts):
                for e, et in zip(tgt.elts, inner.elems):
                    self._bind(e, et, env)
            elif isinstance(inner, Seq):
                for e in tgt.elts:
                    self._bind(e, inner.elem, env)
            else:
                for e in tgt.elts:
                    self._bind(e, UNKNOWN, env)
        elif isinstance(tgt, ast.Starred):
            self._bind(tgt.value, UNKNOWN, env)

    def _elem_of(self, it: T, iter_expr: ast.expr, env: Dict[str, T]) -> T:
        it = strip_opt(it) if isinstance(it, Opt) else it
        if isinstance(it, Seq):
            return it.elem
        if isinstance(it, Map):
            return it.key
        if isinstance(it, TypeOf) and isinstance(it.inner, Cls) and self.ty.p.is_enum(it.inner.ci):
            return it.inner
        if isinstance(iter_expr, ast.Call):
            fn = dotted_of(iter_expr.func)
            if fn == "enumerate" and iter_expr.args:
                inner = self._elem_of(self.type_of(iter_expr.args[0], env), iter_expr.args[0], env)
                return Tup([Ext("int"), inner])
            if fn == "zip":
                return Tup([self._elem_of(self.type_of(a, env), a, env) for a in iter_expr.args])
            if fn in ("sorted", "reversed", "list", "tuple", "set", "iter") and iter_expr.args:
                return self._elem_of(self.type_of(iter_expr.args[0], env), iter_expr.args[0], env)
            if fn == "range":
                return Ext("int")
            if fn in ("itertools.chain",):
                ts = [self._elem_of(self.type_of(a, env), a, env) for a in iter_expr.args]
                if ts and all(t.show() == ts[0].show() for t in ts):
                    return ts[0]
            if isinstance(iter_expr.func, ast.Attribute) and iter_expr.func.attr in ("items",):
                mt = strip_opt(self.type_of(iter_expr.func.value, env))
                if isinstance(mt, Map):
                    return Tup([mt.key, mt.val])
            if isinstance(iter_expr.func, ast.Attribute) and iter_expr.func.attr in ("values",):
                mt = strip_opt(self.type_of(iter_expr.func.value, env))
                if isinstance(mt, Map):
                    return mt.val
            if isinstance(iter_expr.func, ast.Attribute) and iter_expr.func.attr in ("keys",):
                mt = strip_opt(self.type_of(iter_expr.func.value, env))
                if isinstance(mt, Map):
                    return mt.key
        return UNKNOWN

    # -- narrowing ------------------------------------------------------------
    def _narrow(self, test: ast.expr, polarity: bool, env: Dict[str, T]) -> None:
        if isinstance(test, ast.UnaryOp) and isinstance(test.op, ast.Not):
            self._narrow(test.operand, not polarity, env)
            return
        if isinstance(test, ast.BoolOp):
            if isinstance(test.op, ast.And) and polarity:
                for v in test.values:
                    self._narrow(v, True, env)
            elif isinstance(test.op, ast.Or) and not polarity:
                for v in test.values:
                    self._narrow(v, False, env)
            return
        if isinstance(test, ast.Call) and dotted_of(test.func) == "isinstance" and len(test.args) == 2:
            key = _narrow_key(test.args[0])
            if key is None:
                return
            if polarity:
                t = self._class_arg(test.args[1])
                if t is not None:
                    env[key] = t
            else:
                cur = env.get(key)
                if cur is None:
                    cur = self.type_of(test.args[0], env)
                excl = self._class_arg(test.args[1])
                if excl is not None:
                    env[key] = self.exclude(cur, excl)
            return
        if isinstance(test, ast.Compare) and len(test.ops) == 1:
            op = test.ops[0]
            left, right = test.left, test.comparators[0]
            if isinstance(right, ast.Constant) and right.value is None and isinstance(op, (ast.Is, ast.IsNot)):
                key = _narrow_key(left)
                if key is None:
                    return
                is_none = isinstance(op, ast.Is) == polarity
                cur = env.get(key)
                if cur is None:
                    cur = self.type_of(left, env)
                if not is_none and isinstance(cur, Opt):
                    env[key] = cur.inner
                return
        if isinstance(test, (ast.Name, ast.Attribute)) and polarity:
            key = _narrow_key(test)
            if key is not None:
                cur = env.get(key) or self.type_of(test, env)
                if isinstance(cur, Opt):
                    env[key] = cur.inner

    def _class_arg(self, arg: ast.expr) -> Optional[T]:
        if isinstance(arg, ast.Tuple):
            ms = [self._class_arg(e) for e in arg.elts]
            if any(m is None for m in ms):
                return None
            return Uni([m for m in ms if m is not None])
        d = dotted_of(arg)
        if d is None:
            return None
        r = self.ty.p.resolve_expr_name(self.m, d.split("."))
        if r is not None and r[0] == "const":
            mod, name = r[1]
            val = mod.constants.get(name)
            if isinstance(val, ast.Tuple):
                sub = FuncTypes.__new__(FuncTypes)
                sub.ty, sub.m = self.ty, mod
                ms = [sub._class_arg(e) for e in val.elts]
                if any(m is None for m in ms):
                    return None
                flat: List[T] = []
                for m in ms:
                    flat.extend(m.members if isinstance(m, Uni) else [m])  # type: ignore[union-attr]
                return Uni(flat)
        t = self.ty._from_dotted(self.m, d)
        if isinstance(t, Unknown):
            return None
        return t

    def exclude(self, cur: T, excl: T) -> T:
        """``cur`` minus the members covered by ``excl`` (for union-typed values)."""
        excl_members = excl.members if isinstance(excl, Uni) else [excl]
        if isinstance(cur, Opt):
            return Opt(self.exclude(cur.inner, excl))
        if isinstance(cur, Uni):
            rest = [m for m in cur.members if not any(self.covers(e, m) for e in excl_members)]
            if len(rest) == 1:
                return rest[0]
            return Uni(rest)
        return cur

    def covers(self, general: T, specific: T) -> bool:
        if isinstance(general, Cls) and isinstance(specific, Cls):
            return self.ty.p.is_subclass(specific.ci, general.ci)
        return general.show() == specific.show()

    # -- expressions ----------------------------------------------------------
    def type_of(self, e: ast.expr, env: Dict[str, T]) -> T:
        key = _narrow_key(e)
        if key is not None and key in env:
            return env[key]
        if isinstance(e, ast.Name):
            r = self.ty.p.resolve_expr_name(self.m, [e.id])
            if r is not None:
                if r[0] == "class":
                    return TypeOf(Cls(r[1]))
                if r[0] == "func":
                    return Fn(self.ty.return_type(r[1]))
                if r[0] == "const":
                    return self._const_type(r[1])
            # nested function of this or enclosing function
            cur: Optional[FuncInfo] = self.f
            while cur is not None:
                if e.id in cur.nested:
                    return Fn(self.ty.return_type(cur.nested[e.id]))
                cur = cur.parent
            return UNKNOWN
        if isinstance(e, ast.Constant):
            v = e.value
            if v is None:
                return Ext("None")
            return Ext(type(v).__name__)
        if isinstance(e, ast.JoinedStr):
            return Ext("str")
        if isinstance(e, ast.Attribute):
            # module attribute / class / enum member?
            d = dotted_of(e)
            if d is not None:
                r = self.ty.p.resolve_expr_name(self.m, d.split("."))
                root = d.split(".")[0]
                if r is not None and root not in env:
                    if r[0] == "class":
                        return TypeOf(Cls(r[1]))
                    if r[0] == "func":
                        return Fn(self.ty.return_type(r[1]))
                    if r[0] == "classattr":
                        c, name = r[1]
                        if self.ty.p.is_enum(c):
                            return Cls(c)
                        if name in c.annotations:
                            return self.ty.from_annotation(c.module, c.annotations[name])
                    if r[0] == "const":
                        return self._const_type(r[1])
                    if r[0] == "external":
                        return UNKNOWN
            bt = self.type_of(e.value, env)
            return self._attr_on(bt, e.attr)
        if isinstance(e, ast.Call):
            return self._call_type(e, env)
        if isinstance(e, ast.Subscript):
            bt = strip_opt(self.type_of(e.value, env))
            if isinstance(bt, Seq):
                if isinstance(e.slice, ast.Slice):
                    return bt
                return bt.elem
            if isinstance(bt, Map):
                return bt.val
            if isinstance(bt, Tup):
                if isinstance(e.slice, ast.Constant) and isinstance(e.slice.value, int):
                    i = e.slice.value
                    if -len(bt.elems) <= i < len(bt.elems):
                        return bt.elems[i]
            if isinstance(bt, Ext) and bt.name == "str":
                return bt
            return UNKNOWN
        if isinstance(e, ast.IfExp):
            a = self.type_of(e.body, env)
            b = self.type_of(e.orelse, env)
            return self._join(a, b)
        if isinstance(e, (ast.List, ast.ListComp)):
            if isinstance(e, ast.List) and e.elts:
                return Seq(self.type_of(e.elts[0], env), "List")
            return Seq(UNKNOWN, "List")
        if isinstance(e, (ast.Set, ast.SetComp)):
            return Seq(UNKNOWN, "Set")
        if isinstance(e, (ast.Dict, ast.DictComp)):
            return Map(UNKNOWN, UNKNOWN)
        if isinstance(e, ast.Tuple):
            return Tup([self.type_of(x, env) for x in e.elts])
        if isinstance(e, ast.Compare) or (isinstance(e, ast.UnaryOp) and isinstance(e.op, ast.Not)):
            return Ext("bool")
        if isinstance(e, ast.BoolOp):
            return UNKNOWN
        if isinstance(e, ast.BinOp):
            lt = self.type_of(e.left, env)
            rt = self.type_of(e.right, env)
            if isinstance(lt, Ext) and isinstance(rt, Ext) and lt.name == rt.name:
                return lt
            if isinstance(lt, Ext) and lt.name == "str" and isinstance(e.op, ast.Mod):
                return lt
            return UNKNOWN
        if isinstance(e, ast.NamedExpr):
            return self.type_of(e.value, env)
        if isinstance(e, ast.Lambda):
            return Fn(UNKNOWN)
        return UNKNOWN

    def _const_type(self, ref) -> T:
        mod, name = ref
        if name in mod.const_annotations:
            return self.ty.from_annotation(mod, mod.const_annotations[name])
        val = mod.constants.get(name)
        if isinstance(val, ast.Call):
            r = self.ty.p.resolve_expr(mod, val.func)
            if r is not None and r[0] == "class":
                return Cls(r[1])
            if r is not None and r[0] == "func":
                return self.ty.return_type(r[1])
        if isinstance(val, ast.Constant):
            return Ext(type(val.value).__name__)
        if isinstance(val, (ast.Dict, ast.DictComp)):
            return Map(UNKNOWN, UNKNOWN)
        if isinstance(val, (ast.Set, ast.SetComp)):
            return Seq(UNKNOWN, "Set")
        if isinstance(val, (ast.List, ast.ListComp)):
            return Seq(UNKNOWN, "List")
        return UNKNOWN

    def _attr_on(self, bt: T, attr: str) -> T:
        bt = strip_opt(bt) if isinstance(bt, Opt) else bt
        if isinstance(bt, Cls):
            return self.ty.attr_type(bt.ci, attr)
        if isinstance(bt, TypeOf) and isinstance(bt.inner, Cls):
            ci = bt.inner.ci
            if self.ty.p.is_enum(ci) and attr in ci.assigns:
                return Cls(ci)
            m = self.ty.p.find_method(ci, attr)
            if m is not None:
                return Fn(self.ty.return_type(m))
            for c in self.ty.p.mro(ci):
                if attr in c.annotations:
                    return self.ty.from_annotation(c.module, c.annotations[attr])
            return UNKNOWN
        if isinstance(bt, Uni):
            ts = [self._attr_on(m, attr) for m in bt.members]
            if ts and all(not isinstance(t, Unknown) for t in ts):
                if all(t.show() == ts[0].show() for t in ts):
                    return ts[0]
                return self.ty._union(ts)
            return UNKNOWN
        return UNKNOWN

    def resolve_call(self, call: ast.Call, env: Dict[str, T]) -> Optional[Any]:
        """Resolve the callee: FuncInfo, ClassInfo (constructor), or None."""
        fn = call.func
        d = dotted_of(fn)
        if d is not None:
            root = d.split(".")[0]
            if root not in env or root in ("self", "cls"):
                pass
            if root not in env:
                # nested functions first
                if "." not in d:
                    cur: Optional[FuncInfo] = self.f
                    while cur is not None:
                        if d in cur.nested:
                            return cur.nested[d]
                        cur = cur.parent
                r = self.ty.p.resolve_expr_name(self.m, d.split("."))
                if r is not None:
                    if r[0] == "func":
                        return r[1]
                    if r[0] == "class":
                        return r[1]
        if isinstance(fn, ast.Attribute):
            bt = self.type_of(fn.value, env)
            return self._method_on(bt, fn.attr)
        if isinstance(fn, ast.Call):
            # super().__init__ etc.
            return None
        return None

    def _method_on(self, bt: T, name: str):
        bt = strip_opt(bt) if isinstance(bt, Opt) else bt
        if isinstance(bt, Cls):
            return self.ty.p.find_method(bt.ci, name)
        if isinstance(bt, TypeOf) and isinstance(bt.inner, Cls):
            return self.ty.p.find_method(bt.inner.ci, name)
        if isinstance(bt, Uni):
            for m in bt.members:
                r = self._method_on(m, name)
                if r is not None:
                    return r
        return None

    def resolve_call_all(self, call: ast.Call, env: Dict[str, T]) -> List[Any]:
        """All candidate callees (union receivers give several; overriding
        methods of subclasses are added by the call graph, not here)."""
        fn = call.func
        if isinstance(fn, ast.Attribute):
            d = dotted_of(fn)
            if d is None or d.split(".")[0] in env:
                bt = self.type_of(fn.value, env)
                bt = strip_opt(bt) if isinstance(bt, Opt) else bt
                if isinstance(bt, Uni):
                    out = []
                    for m in bt.members:
                        r = self._method_on(m, fn.attr)
                        if r is not None and r not in out:
                            out.append(r)
                    return out
        r = self.resolve_call(call, env)
        return [r] if r is not None else []

    def _call_type(self, e: ast.Call, env: Dict[str, T]) -> T:
        d = dotted_of(e.func)
        if d == "len":
            return Ext("int")
        if d in ("str", "repr", "ast.unparse", "ast.dump"):
            return Ext("str")
        if d in ("int", "ord"):
            return Ext("int")
        if d == "bool" or d == "isinstance" or d == "any" or d == "all":
            return Ext("bool")
        if d in ("sorted", "list") and e.args:
            at = self.type_of(e.args[0], env)
            el = self._elem_of(at, e.args[0], env)
            return Seq(el, "List")
        if d in ("set", "frozenset") and e.args:
            at = self.type_of(e.args[0], env)
            el = self._elem_of(at, e.args[0], env)
            return Seq(el, "Set")
        if d in ("set", "frozenset"):
            return Seq(UNKNOWN, "Set")
        if d in ("dict", "collections.OrderedDict"):
            return Map(UNKNOWN, UNKNOWN)
        if d == "cast" or d == "typing.cast":
            if len(e.args) == 2:
                return self.ty.from_annotation(self.m, e.args[0])
        if d in ("iter", "reversed") and e.args:
            at = self.type_of(e.args[0], env)
            return Seq(self._elem_of(at, e.args[0], env), "Iterator")
        if d in ("next",) and e.args:
            return self._elem_of(self.type_of(e.args[0], env), e.args[0], env)
        if d in ("min", "max") and e.args:
            return self.type_of(e.args[0], env) if len(e.args) > 1 else UNKNOWN
        target = self.resolve_call(e, env)
        if isinstance(target, FuncInfo):
            if target.name == "__init__" and target.cls is not None:
                return Cls(target.cls)
            return self.ty.return_type(target)
        if isinstance(target, ClassInfo):
            return Cls(target)
        if isinstance(e.func, ast.Attribute):
            bt = strip_opt(self.type_of(e.func.value, env))
            a = e.func.attr
            if isinstance(bt, Map):
                if a == "get":
                    if len(e.args) >= 2:
                        dt = self.type_of(e.args[1], env)
                        if isinstance(dt, Ext) and dt.name == "None":
                            return Opt(bt.val)
                        return bt.val
                    return Opt(bt.val)
                if a in ("pop", "setdefault"):
                    return bt.val
                if a == "items":
                    return Seq(Tup([bt.key, bt.val]), "Iterable")
                if a == "values":
                    return Seq(bt.val, "Iterable")
                if a == "keys":
                    return Seq(bt.key, "Iterable")
                if a == "copy":
                    return bt
            if isinstance(bt, Seq):
                if a == "pop":
                    return bt.elem
                if a in ("copy", "union", "intersection", "difference"):
                    return bt
            if isinstance(bt, Ext) and bt.name == "str":
                if a in ("strip", "lstrip", "rstrip", "lower", "upper", "replace", "format", "join", "capitalize", "title"):
                    return bt
                if a in ("split", "splitlines"):
                    return Seq(bt, "List")
                if a in ("startswith", "endswith", "isidentifier"):
                    return Ext("bool")
            ft = self.type_of(e.func, env)
            if isinstance(ft, Fn):
                return ft.ret
        else:
            ft = self.type_of(e.func, env)
            if isinstance(ft, Fn):
                return ft.ret
        return UNKNOWN


def _narrow_key(e: ast.AST) -> Optional[str]:
    """Stable key for a narrowable reference: ``x``, ``x.a.b``, ``x.a[0].b``, ``x[-1]``
    (subscripts with a constant index only)."""
    if isinstance(e, ast.Name):
        return e.id
    if isinstance(e, ast.Attribute):
        b = _narrow_key(e.value)
        return None if b is None else f"{b}.{e.attr}"
    if isinstance(e, ast.Subscript):
        b = _narrow_key(e.value)
        if b is None:
            return None
        sl = e.slice
        if isinstance(sl, ast.Constant) and isinstance(sl.value, (int, str)):
            return f"{b}[{sl.value!r}]"
        if isinstance(sl, ast.UnaryOp) and isinstance(sl.op, ast.USub) and isinstance(sl.operand, ast.Constant) and isinstance(sl.operand.value, int):
            return f"{b}[-{sl.operand.value}]"
        return None
    return None


def _always_exits(body: List[ast.stmt]) -> bool:
    if not body:
        return False
    last = body[-1]
    if isinstance(last, (ast.Return, ast.Raise, ast.Continue, ast.Break)):
        return True
    if isinstance(last, ast.Expr) and isinstance(last.value, ast.Call):
        d = dotted_of(last.value.func)
        if d is not None and d.split(".")[-1] == "assert_never":
            return True
    if isinstance(last, ast.If) and last.orelse:
        return _always_exits(last.body) and _always_exits(last.orelse)
    if isinstance(last, ast.With):
        return _always_exits(last.body)
    return False


always_exits = _always_exits


def _assigned_in(stmt: ast.stmt, name: str) -> bool:
    for n in ast.walk(stmt):
        if isinstance(n, ast.Name) and n.id == name and isinstance(n.ctx, ast.Store):
            return True
    return False
