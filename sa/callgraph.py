"""
Call graph over resolved callees (DESIGN §2.10).

Edges: direct calls, method calls through resolved receivers (plus overriding
methods in subclasses of the receiver's class), constructor calls
(``Cls(...)`` -> ``Cls.__init__``), visitor dispatch (a call of ``transform`` /
``visit`` on a Transformer/Visitor reaches every ``transform_*``/``visit_*`` of
the receiver class and its subclasses), function values stored in lambdas
(calls inside a lambda are attributed to the enclosing function).
"""
import ast
from typing import Dict, List, Optional, Set, Tuple

from .model import Program, FuncInfo, ClassInfo, dotted_of, walk_with_lambdas
from .types import Typer, FuncTypes, Cls, TypeOf, Uni, Opt, strip_opt


class CallGraph:
    def __init__(self, program: Program, typer: Typer):
        self.p = program
        self.ty = typer
        self.edges: Dict[str, Set[str]] = {}
        self.sites: Dict[Tuple[str, str], List[ast.Call]] = {}
        self.funcs: Dict[str, FuncInfo] = {f.key: f for f in program.all_functions()}
        self.unresolved = 0
        self.resolved = 0
        self._build()
        self.rev: Dict[str, Set[str]] = {}
        for a, bs in self.edges.items():
            for b in bs:
                self.rev.setdefault(b, set()).add(a)

    def _add(self, a: FuncInfo, b: FuncInfo, call: ast.Call) -> None:
        self.edges.setdefault(a.key, set()).add(b.key)
        self.sites.setdefault((a.key, b.key), []).append(call)

    def _build(self) -> None:
        from .flow import artefacts

        for f in list(self.funcs.values()):
            ft = artefacts(self.ty, f).types
            parents: Dict[int, ast.AST] = {}
            for n in ast.walk(f.node):
                for c in ast.iter_child_nodes(n):
                    parents[id(c)] = n
            for n in walk_with_lambdas(f.node):
                if n is f.node or not isinstance(n, ast.Call):
                    continue
                cur: Optional[ast.AST] = n
                while cur is not None and not isinstance(cur, ast.stmt):
                    cur = parents.get(id(cur))
                env = (ft.env_for(cur) if cur is not None else None) or ft.final_env()
                targets = ft.resolve_call_all(n, env)
                if not targets:
                    targets = self._table_targets(f, n)
                if not targets:
                    self.unresolved += 1
                    continue
                self.resolved += 1
                for t in targets:
                    if isinstance(t, ClassInfo):
                        init = self.p.find_method(t, "__init__")
                        if init is not None:
                            self._add(f, init, n)
                        continue
                    self._add(f, t, n)
                    if t.cls is not None:
                        # overriding methods in subclasses
                        for sub in self.p.subclasses(t.cls):
                            m = sub.methods.get(t.name)
                            if m is not None:
                                self._add(f, m, n)
                        # visitor dispatch
                        if t.name in ("transform", "visit"):
                            prefix = t.name + "_"
                            recv_classes = [t.cls] + self.p.subclasses(t.cls)
                            for rc in recv_classes:
                                for name, m in rc.methods.items():
                                    if name.startswith(prefix):
                                        self._add(f, m, n)

    def _table_targets(self, f: FuncInfo, call: ast.Call) -> List[FuncInfo]:
        """``TABLE[key](...)`` / ``fn = TABLE.get(key)`` ... ``fn(...)`` where TABLE is a
        module-level dict whose values are functions: every value is a callee."""
        from .rules.own import local_defs

        def table_of(e: ast.AST) -> Optional[ast.Dict]:
            if isinstance(e, ast.Subscript):
                e = e.value
            elif isinstance(e, ast.Call) and isinstance(e.func, ast.Attribute) and e.func.attr == "get":
                e = e.func.value
            else:
                return None
            r = self.p.resolve_expr(f.module, e)
            if r is not None and r[0] == "const":
                mod, name = r[1]
                v = mod.constants.get(name)
                if isinstance(v, ast.Dict):
                    self._table_mod = mod
                    return v
            return None

        cands: List[ast.AST] = [call.func]
        if isinstance(call.func, ast.Name):
            cands = list(local_defs(f).get(call.func.id, []))
        out: List[FuncInfo] = []
        for c in cands:
            d = table_of(c)
            if d is None:
                continue
            for v in d.values:
                r = self.p.resolve_expr(self._table_mod, v)
                if r is not None and r[0] == "func":
                    out.append(r[1])
        return out

    def reachable_from(self, roots: List[str]) -> Set[str]:
        seen = set(roots)
        stack = list(roots)
        while stack:
            k = stack.pop()
            for b in self.edges.get(k, ()):
                if b not in seen:
                    seen.add(b)
                    stack.append(b)
        return seen

    def callers_of(self, key: str) -> Set[str]:
        return self.rev.get(key, set())


_CG: Dict[int, CallGraph] = {}


def callgraph(ctx) -> CallGraph:
    cg = _CG.get(id(ctx.p))
    if cg is None:
        cg = CallGraph(ctx.p, ctx.ty)
        _CG.clear()
        _CG[id(ctx.p)] = cg
    return cg
