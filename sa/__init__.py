"""Static analyser for aas-core-codegen (stdlib only; nothing in /repo is imported or run)."""
