"""
Statement-level control-flow graph per function (DESIGN §2.4).

Node kinds
  entry / exit           unique; ``exit`` is reached by ``return`` nodes and by
                         falling off the end (through the ``end`` node)
  stmt                   a simple statement (or the header of ``with``)
  test                   one *atom* of a branch condition; out-edges labelled
                         True / False (short-circuit ``and``/``or``/``not`` are
                         split so facts are per atom)
  for                    loop header; out-edges "iter" and "done"
  return / raise         terminal statements
  abort                  ``assert_never(...)``, failed ``assert``: exits that are
                         neither success nor an error *value*
  end                    implicit ``return None`` when falling off the end
  handler                entry of an ``except`` clause

Edges: (src, dst, label) with label in {None, True, False, "iter", "done", "exc"}.
"""
import ast
from typing import Dict, List, Optional, Tuple, Set, Iterator, Callable, Any

from .model import dotted_of


class Node:
    __slots__ = ("id", "kind", "stmt", "expr", "owner", "succs", "preds")

    def __init__(self, id: int, kind: str, stmt: Optional[ast.AST], expr: Optional[ast.AST] = None, owner: Optional[ast.AST] = None):
        self.id = id
        self.kind = kind
        self.stmt = stmt
        self.expr = expr
        self.owner = owner
        self.succs: List[Tuple[int, Any]] = []
        self.preds: List[Tuple[int, Any]] = []

    @property
    def lineno(self) -> int:
        n = self.expr if self.expr is not None else self.stmt
        return getattr(n, "lineno", 0) or 0

    def __repr__(self) -> str:
        return f"<{self.kind}#{self.id}@{self.lineno}>"


def is_assert_never_call(stmt: ast.AST) -> bool:
    if isinstance(stmt, ast.Expr) and isinstance(stmt.value, ast.Call):
        d = dotted_of(stmt.value.func)
        return d is not None and d.split(".")[-1] == "assert_never"
    return False


class CFG:
    def __init__(self, func_node: ast.AST):
        self.func = func_node
        self.nodes: List[Node] = []
        self.entry = self._new("entry", None)
        self.exit = self._new("exit", None)
        self.raise_exit = self._new("raise_exit", None)
        self._loop_stack: List[Tuple[int, List[int]]] = []  # (continue target, break sources)
        self._try_stack: List[dict] = []
        body = func_node.body if not isinstance(func_node, ast.Lambda) else None
        if body is None:
            n = self._new("return", None, expr=func_node.body)  # type: ignore[attr-defined]
            self._edge(self.entry.id, n.id, None)
            self._edge(n.id, self.exit.id, None)
        else:
            outs = self._block(body, [(self.entry.id, None)])
            if outs:
                end = self._new("end", None)
                for src, lab in outs:
                    self._edge(src, end.id, lab)
                self._edge(end.id, self.exit.id, None)
        self._stmt_nodes: Dict[int, List[Node]] = {}
        for n in self.nodes:
            if n.stmt is not None:
                self._stmt_nodes.setdefault(id(n.stmt), []).append(n)

    # -- construction ---------------------------------------------------------
    def _new(self, kind, stmt, expr=None, owner=None) -> Node:
        n = Node(len(self.nodes), kind, stmt, expr, owner)
        self.nodes.append(n)
        return n

    def _edge(self, src: int, dst: int, label) -> None:
        self.nodes[src].succs.append((dst, label))
        self.nodes[dst].preds.append((src, label))

    def _connect(self, ins: List[Tuple[int, Any]], dst: int) -> None:
        for src, lab in ins:
            self._edge(src, dst, lab)

    def _exc_edges(self, node: Node) -> None:
        """A statement inside ``try`` may raise into the innermost handlers."""
        if self._try_stack:
            top = self._try_stack[-1]
            top["raisers"].append(node.id)

    def _block(self, body: List[ast.stmt], ins: List[Tuple[int, Any]]) -> List[Tuple[int, Any]]:
        cur = ins
        for stmt in body:
            if not cur:
                # unreachable code: still build it (detached) so that nodes exist
                cur = []
            cur = self._stmt(stmt, cur)
        return cur

    def _cond(self, test: ast.expr, ins, owner) -> Tuple[List[Tuple[int, Any]], List[Tuple[int, Any]]]:
        """Return (true_outs, false_outs)."""
        if isinstance(test, ast.BoolOp):
            if isinstance(test.op, ast.And):
                falses: List[Tuple[int, Any]] = []
                cur = ins
                for v in test.values:
                    t, f = self._cond(v, cur, owner)
                    falses.extend(f)
                    cur = t
                return cur, falses
            else:
                trues: List[Tuple[int, Any]] = []
                cur = ins
                for v in test.values:
                    t, f = self._cond(v, cur, owner)
                    trues.extend(t)
                    cur = f
                return trues, cur
        if isinstance(test, ast.UnaryOp) and isinstance(test.op, ast.Not):
            t, f = self._cond(test.operand, ins, owner)
            return f, t
        n = self._new("test", owner, expr=test, owner=owner)
        self._connect(ins, n.id)
        self._exc_edges(n)
        if isinstance(test, ast.Constant):
            if test.value:
                return [(n.id, True)], []
            return [], [(n.id, False)]
        return [(n.id, True)], [(n.id, False)]

    def _stmt(self, stmt: ast.stmt, ins) -> List[Tuple[int, Any]]:
        if isinstance(stmt, ast.If):
            t, f = self._cond(stmt.test, ins, stmt)
            outs = self._block(stmt.body, t)
            if stmt.orelse:
                outs = outs + self._block(stmt.orelse, f)
            else:
                outs = outs + f
            return outs
        if isinstance(stmt, ast.While):
            # loop entry
            head = self._new("stmt", stmt, expr=None, owner=stmt)  # loop join point
            head.kind = "loophead"
            self._connect(ins, head.id)
            t, f = self._cond(stmt.test, [(head.id, None)], stmt)
            self._loop_stack.append((head.id, []))
            body_outs = self._block(stmt.body, t)
            self._connect(body_outs, head.id)
            _, breaks = self._loop_stack.pop()
            outs = list(f)
            if stmt.orelse:
                outs = self._block(stmt.orelse, outs)
            return outs + [(b, None) for b in breaks]
        if isinstance(stmt, (ast.For, ast.AsyncFor)):
            head = self._new("for", stmt, expr=stmt.iter, owner=stmt)
            self._connect(ins, head.id)
            self._exc_edges(head)
            self._loop_stack.append((head.id, []))
            body_outs = self._block(stmt.body, [(head.id, "iter")])
            self._connect(body_outs, head.id)
            _, breaks = self._loop_stack.pop()
            outs = [(head.id, "done")]
            if stmt.orelse:
                outs = self._block(stmt.orelse, outs)
            return outs + [(b, None) for b in breaks]
        if isinstance(stmt, ast.Return):
            n = self._new("return", stmt, expr=stmt.value)
            self._connect(ins, n.id)
            self._exc_edges(n)
            self._leave(n.id, "return")
            return []
        if isinstance(stmt, ast.Raise):
            n = self._new("raise", stmt, expr=stmt.exc)
            self._connect(ins, n.id)
            if self._try_stack:
                self._try_stack[-1]["raisers"].append(n.id)
            else:
                self._edge(n.id, self.raise_exit.id, None)
            return []
        if isinstance(stmt, ast.Assert):
            t, f = self._cond(stmt.test, ins, stmt)
            if f:
                ab = self._new("abort", stmt)
                self._connect(f, ab.id)
                self._edge(ab.id, self.raise_exit.id, None)
            return t
        if isinstance(stmt, ast.Break):
            n = self._new("stmt", stmt)
            self._connect(ins, n.id)
            if self._loop_stack:
                self._loop_stack[-1][1].append(n.id)
            return []
        if isinstance(stmt, ast.Continue):
            n = self._new("stmt", stmt)
            self._connect(ins, n.id)
            if self._loop_stack:
                self._edge(n.id, self._loop_stack[-1][0], None)
            return []
        if isinstance(stmt, (ast.With, ast.AsyncWith)):
            n = self._new("stmt", stmt, owner=stmt)
            n.kind = "with"
            self._connect(ins, n.id)
            self._exc_edges(n)
            return self._block(stmt.body, [(n.id, None)])
        if isinstance(stmt, ast.Try) or (hasattr(ast, "TryStar") and isinstance(stmt, getattr(ast, "TryStar"))):
            return self._try(stmt, ins)
        if is_assert_never_call(stmt):
            n = self._new("abort", stmt)
            self._connect(ins, n.id)
            self._edge(n.id, self.raise_exit.id, None)
            return []
        if isinstance(stmt, (ast.FunctionDef, ast.AsyncFunctionDef, ast.ClassDef)):
            n = self._new("stmt", stmt)
            n.kind = "def"
            self._connect(ins, n.id)
            return [(n.id, None)]
        # simple statement
        n = self._new("stmt", stmt)
        self._connect(ins, n.id)
        self._exc_edges(n)
        return [(n.id, None)]

    def _leave(self, nid: int, how: str) -> None:
        """``return`` from inside try/finally: run pending finally bodies first."""
        cur = [(nid, None)]
        for frame in reversed(self._try_stack):
            fb = frame.get("finalbody")
            if fb:
                saved = self._try_stack
                self._try_stack = saved[: saved.index(frame)]
                cur = self._block(fb, cur)
                self._try_stack = saved
        self._connect(cur, self.exit.id)

    def _try(self, stmt, ins):
        frame = {"raisers": [], "finalbody": stmt.finalbody}
        self._try_stack.append(frame)
        body_outs = self._block(stmt.body, ins)
        self._try_stack.pop()
        raisers = frame["raisers"]
        outs: List[Tuple[int, Any]] = []
        normal = body_outs
        if stmt.orelse:
            normal = self._block(stmt.orelse, normal)
        handler_outs: List[Tuple[int, Any]] = []
        catches_all = False
        # while building handlers, exceptions raised inside go outward, but the
        # ``finally`` of *this* try still applies
        inner_frame = {"raisers": [], "finalbody": stmt.finalbody}
        if stmt.finalbody:
            self._try_stack.append(inner_frame)
        for h in stmt.handlers:
            hn = self._new("handler", h, owner=stmt)
            for r in raisers:
                self._edge(r, hn.id, "exc")
            if h.type is None or (dotted_of(h.type) in ("Exception", "BaseException")):
                catches_all = True
            handler_outs.extend(self._block(h.body, [(hn.id, None)]))
        if stmt.finalbody:
            self._try_stack.pop()
        escaping = list(inner_frame["raisers"])
        if not catches_all:
            escaping.extend(raisers)
        if stmt.finalbody:
            normal_out = self._block(stmt.finalbody, normal + handler_outs)
            outs = normal_out
            if escaping:
                # exceptional copy of the finally body, then propagate
                fin_in = [(r, "exc") for r in escaping]
                fin_out = self._block(stmt.finalbody, fin_in)
                rr = self._new("raise", stmt)
                rr.kind = "reraise"
                self._connect(fin_out, rr.id)
                if self._try_stack:
                    self._try_stack[-1]["raisers"].append(rr.id)
                else:
                    self._edge(rr.id, self.raise_exit.id, None)
        else:
            outs = normal + handler_outs
            for r in escaping:
                if self._try_stack:
                    self._try_stack[-1]["raisers"].append(r)
                else:
                    if self.nodes[r].kind in ("raise", "reraise"):
                        self._edge(r, self.raise_exit.id, None)
                    # ordinary statements that *may* raise: no explicit edge
        return outs

    # -- queries --------------------------------------------------------------
    def nodes_of(self, stmt: ast.AST) -> List[Node]:
        return self._stmt_nodes.get(id(stmt), [])

    def first_node_of(self, stmt: ast.AST) -> Optional[Node]:
        ns = self.nodes_of(stmt)
        return ns[0] if ns else None

    def reachable(self) -> Set[int]:
        seen = {self.entry.id}
        stack = [self.entry.id]
        while stack:
            n = stack.pop()
            for d, _ in self.nodes[n].succs:
                if d not in seen:
                    seen.add(d)
                    stack.append(d)
        return seen

    def dominators(self) -> Dict[int, Set[int]]:
        reach = self.reachable()
        order = self._rpo(reach)
        dom: Dict[int, Set[int]] = {n: set(reach) for n in reach}
        dom[self.entry.id] = {self.entry.id}
        changed = True
        while changed:
            changed = False
            for n in order:
                if n == self.entry.id:
                    continue
                preds = [p for p, _ in self.nodes[n].preds if p in reach]
                if not preds:
                    continue
                new = set.intersection(*(dom[p] for p in preds)) | {n}
                if new != dom[n]:
                    dom[n] = new
                    changed = True
        return dom

    def _rpo(self, reach: Set[int]) -> List[int]:
        seen: Set[int] = set()
        post: List[int] = []
        stack: List[Tuple[int, int]] = [(self.entry.id, 0)]
        seen.add(self.entry.id)
        while stack:
            n, i = stack[-1]
            succs = self.nodes[n].succs
            if i < len(succs):
                stack[-1] = (n, i + 1)
                d = succs[i][0]
                if d not in seen:
                    seen.add(d)
                    stack.append((d, 0))
            else:
                stack.pop()
                post.append(n)
        return list(reversed(post))

    def rpo(self) -> List[int]:
        return self._rpo(self.reachable())

    def can_reach(self, src: int, dst: int, avoid: Optional[Set[int]] = None, skip_exc: bool = False) -> bool:
        avoid = avoid or set()
        seen = {src}
        stack = [src]
        while stack:
            n = stack.pop()
            for d, lab in self.nodes[n].succs:
                if skip_exc and lab == "exc":
                    continue
                if d == dst:
                    return True
                if d in seen or d in avoid:
                    continue
                seen.add(d)
                stack.append(d)
        return False


def forward_dataflow(
    cfg: CFG,
    init: Any,
    transfer: Callable[[Node, Any], Any],
    edge_transfer: Optional[Callable[[Node, Any, Any, Node], Any]],
    join: Callable[[Any, Any], Any],
    equal: Callable[[Any, Any], bool],
    max_iter: int = 100000,
) -> Dict[int, Any]:
    """
    Generic forward worklist solver.  Returns IN state per node id (state that
    holds *before* the node executes).  ``transfer(node, in)`` gives OUT;
    ``edge_transfer(src, out, label, dst)`` refines OUT along an edge (may return
    ``None`` for an infeasible edge).
    """
    IN: Dict[int, Any] = {cfg.entry.id: init}
    work = [cfg.entry.id]
    inwork = {cfg.entry.id}
    it = 0
    order_index = {n: i for i, n in enumerate(cfg.rpo())}
    while work:
        it += 1
        if it > max_iter:
            raise RuntimeError("dataflow did not converge")
        work.sort(key=lambda n: order_index.get(n, 1 << 30), reverse=True)
        nid = work.pop()
        inwork.discard(nid)
        node = cfg.nodes[nid]
        out = transfer(node, IN[nid])
        for dst, label in node.succs:
            st = out
            if edge_transfer is not None:
                st = edge_transfer(node, out, label, cfg.nodes[dst])
                if st is None:
                    continue
            if dst in IN:
                merged = join(IN[dst], st)
                if equal(merged, IN[dst]):
                    continue
                IN[dst] = merged
            else:
                IN[dst] = st
            if dst not in inwork:
                inwork.add(dst)
                work.append(dst)
    return IN
