"""
Reporting, fail-closed counters, known findings, evidence (DESIGN §2.11, §1).
"""
import ast
import hashlib
import json
import os
import pathlib
import time
from typing import Any, Dict, List, Optional, Tuple

from .model import AnalysisError, FuncInfo, Module, norm, short

VERIF = pathlib.Path(__file__).resolve().parent.parent
EVIDENCE_DIR = VERIF / "evidence"
VIOLATION_DIR = EVIDENCE_DIR / "violations"
KNOWN_FINDINGS = VERIF / "known_findings.json"


class Finding:
    def __init__(self, prop: str, rule: str, relpath: str, qualname: str, lineno: int, construct: str, message: str):
        self.prop = prop
        self.rule = rule
        self.relpath = relpath
        self.qualname = qualname
        self.lineno = lineno
        self.construct = construct
        self.message = message

    @property
    def key(self) -> str:
        return f"{self.rule}|{self.relpath}|{self.qualname}|{self.construct}"

    def to_json(self) -> Dict[str, Any]:
        return {
            "property": self.prop,
            "rule": self.rule,
            "file": self.relpath,
            "function": self.qualname,
            "line": self.lineno,
            "construct": self.construct,
            "diagnosis": self.message,
            "key": self.key,
        }


def load_known() -> List[Dict[str, Any]]:
    if not KNOWN_FINDINGS.exists():
        return []
    return json.loads(KNOWN_FINDINGS.read_text())["findings"]


class Ctx:
    """Collector handed to each property check."""

    def __init__(self, prop: str, tier: str, program, typer) -> None:
        self.prop = prop
        self.tier = tier
        self.p = program
        self.ty = typer
        self.findings: List[Finding] = []
        self._finding_keys: set = set()
        self.obligations: Dict[str, int] = {}
        self.discharged: Dict[str, int] = {}
        self.nontrivial: Dict[str, set] = {}
        self.skipped: Dict[str, int] = {}
        self.skip_samples: Dict[str, List[str]] = {}
        self.samples: Dict[str, List[Any]] = {}
        self.floors: Dict[str, int] = {}
        self.rule_docs: Dict[str, str] = {}
        self.assumptions: List[str] = []
        self.extra: Dict[str, Any] = {}
        self.functions_analysed: set = set()
        self.t0 = time.time()

    # -- declaring ------------------------------------------------------------
    def rule(self, rule: str, doc: str, floor: int = 1) -> None:
        self.rule_docs[rule] = doc
        self.floors[rule] = floor
        self.obligations.setdefault(rule, 0)
        self.discharged.setdefault(rule, 0)
        self.nontrivial.setdefault(rule, set())

    def assume(self, text: str) -> None:
        if text not in self.assumptions:
            self.assumptions.append(text)

    # -- recording ------------------------------------------------------------
    def _site(self, where, node) -> Tuple[str, str, int]:
        if isinstance(where, FuncInfo):
            rel, qn = where.module.relpath, where.qualname
            self.functions_analysed.add(where.key)
        elif isinstance(where, Module):
            rel, qn = where.relpath, "<module>"
        elif isinstance(where, tuple):
            rel, qn = where
        else:
            rel, qn = str(where), "<module>"
        ln = getattr(node, "lineno", 0) if node is not None else 0
        return rel, qn, ln or 0

    def ok(self, rule: str, where, node=None, what: str = "", nontrivial: bool = True) -> None:
        rel, qn, ln = self._site(where, node)
        self.obligations[rule] = self.obligations.get(rule, 0) + 1
        self.discharged[rule] = self.discharged.get(rule, 0) + 1
        text = what or (short(node) if isinstance(node, ast.AST) else "")
        if nontrivial:
            self.nontrivial.setdefault(rule, set()).add(f"{rel}|{qn}|{text}")
        s = self.samples.setdefault(rule, [])
        if len(s) < 4:
            s.append({"rule": rule, "at": f"{rel}:{ln}", "function": qn, "obligation": text, "verdict": "holds"})

    def fail(self, rule: str, where, node, message: str, construct: Optional[str] = None) -> None:
        rel, qn, ln = self._site(where, node)
        self.obligations[rule] = self.obligations.get(rule, 0) + 1
        text = construct if construct is not None else (short(node) if isinstance(node, ast.AST) else str(node))
        self.nontrivial.setdefault(rule, set()).add(f"{rel}|{qn}|{text}")
        f = Finding(self.prop, rule, rel, qn, ln, text, message)
        if f.key in self._finding_keys:
            return
        self._finding_keys.add(f.key)
        self.findings.append(f)

    def skip(self, rule: str, where, node, why: str) -> None:
        rel, qn, ln = self._site(where, node)
        self.skipped[rule] = self.skipped.get(rule, 0) + 1
        s = self.skip_samples.setdefault(rule, [])
        if len(s) < 50:
            s.append(f"{rel}:{ln} {qn}: {why}")

    def require_anchor(self, cond: bool, what: str) -> None:
        if not cond:
            raise AnalysisError(f"anchor vanished: {what}")

    # -- finishing ------------------------------------------------------------
    def finish(self) -> int:
        # floors
        rules_with_findings = {f.rule for f in self.findings}
        for rule, floor in self.floors.items():
            n = self.obligations.get(rule, 0)
            if n < floor and rule not in rules_with_findings:
                raise AnalysisError(
                    f"rule {rule} matched {n} instance(s), below its floor {floor}: "
                    f"the idiom it is bound to is no longer recognised"
                )
        known = [k for k in load_known() if k.get("property") == self.prop]
        known_keys = {k["key"]: k for k in known if k.get("status") == "known"}
        violations: List[Finding] = []
        known_hit: List[Finding] = []
        for f in self.findings:
            if f.key in known_keys:
                known_hit.append(f)
            else:
                violations.append(f)
        for f in known_hit:
            print(f"KNOWN-FINDING: property={self.prop} {f.rule} {f.relpath}:{f.lineno} {f.qualname}: {f.construct} -- {f.message}")
        stale = [k for key, k in known_keys.items() if key not in {f.key for f in known_hit}]
        for k in stale:
            print(f"NOTE: listed known finding no longer reported (repaired or moved?): {k['key']}")
        VIOLATION_DIR.mkdir(parents=True, exist_ok=True)
        # remove stale replay files of this property
        for old in VIOLATION_DIR.glob(f"{self.prop}-*.json"):
            old.unlink()
        for f in violations:
            h = hashlib.sha1(f.key.encode()).hexdigest()[:12]
            path = VIOLATION_DIR / f"{self.prop}-{h}.json"
            path.write_text(json.dumps(f.to_json(), indent=1))
            print(f"{f.relpath}:{f.lineno}: [{f.rule}] in {f.qualname}: {f.construct}\n    {f.message}")
            print(f"VIOLATION property={self.prop} replay={path}")
        self.write_evidence(len(violations), known_hit)
        total = sum(self.obligations.values())
        print(
            f"{self.prop} [{self.tier}] rules={len(self.floors)} obligations={total} "
            f"discharged={sum(self.discharged.values())} known_findings={len(known_hit)} "
            f"violations={len(violations)} skipped={sum(self.skipped.values())} "
            f"wall={time.time() - self.t0:.1f}s"
        )
        return 1 if violations else 0

    def write_evidence(self, n_violations: int, known_hit: List[Finding]) -> None:
        EVIDENCE_DIR.mkdir(parents=True, exist_ok=True)
        total = sum(self.obligations.values())
        samples: List[Any] = []
        for rule in sorted(self.samples):
            samples.extend(self.samples[rule][:3])
        for f in known_hit[:6]:
            samples.append({"rule": f.rule, "at": f"{f.relpath}:{f.lineno}", "function": f.qualname, "obligation": f.construct, "verdict": "known finding"})
        per_rule = {
            r: {
                "doc": self.rule_docs.get(r, ""),
                "instances": self.obligations.get(r, 0),
                "discharged": self.discharged.get(r, 0),
                "distinct_nontrivial": len(self.nontrivial.get(r, ())),
                "floor": self.floors.get(r, 0),
                "skipped_unresolved": self.skipped.get(r, 0),
                "skip_samples": self.skip_samples.get(r, []),
            }
            for r in sorted(self.floors)
        }
        ev = {
            "property_id": self.prop,
            "tier": self.tier,
            "seed": int(os.environ.get("VERIF_SEED", "0") or 0),
            "level": "other",
            "coverage": {
                "explanation": (
                    "Static analysis of /repo's current sources (ast, resolved names, "
                    "annotation-driven types, CFG, dataflow); nothing in /repo is executed. "
                    "Each rule instance is one obligation evaluated on a construct of the "
                    "source; rules: " + "; ".join(f"{r}: {d}" for r, d in sorted(self.rule_docs.items()))
                ),
                "obligations": total,
                "discharged": sum(self.discharged.values()),
                "evaluations": total,
                "distinct_nontrivial": sum(len(v) for v in self.nontrivial.values()),
                "rule": "an instance is one (rule, file, function, normalised construct); it is non-trivial when the rule had something to prove at that construct (not vacuous, not skipped); distinct by that 4-tuple",
                "samples": samples[:40],
                "exhaustive": True,
                "rules": per_rule,
                "modules_parsed": len(self.p.modules),
                "functions_analysed": len(self.functions_analysed),
                "known_findings_reported": [f.key for f in known_hit],
                **self.extra,
            },
            "assumptions": self.assumptions,
            "wall_s": round(time.time() - self.t0, 3),
            "violations": n_violations,
        }
        (EVIDENCE_DIR / f"{self.prop}.json").write_text(json.dumps(ev, indent=1, default=str))
