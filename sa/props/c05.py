"""C05 Intermediate model faithfully resolves inheritance (DESIGN §4 C05)."""
import ast

from ..flow import find_calls
from ..model import dotted_of, short, walk_function_body
from ..rules import exh, param, seq, stack
from ..scopes import PKG

CLAIM = (
    "(1) every pass that merges a type with what its parents already carry (inner loop over X.inheritances reading the parents' results) "
    "iterates the types in topological order; (2) every such merge of a per-parent collection into one list is guarded by a "
    "membership/conflict test on a container updated in the same loop (no duplicates across diamonds), including the inversion of "
    "ancestors into descendants in the ontology; (3) the stacked list is chain(inherited, own) in that order; (4) in intermediate.translate "
    "the passes run in dependency order on every path to success (inheritances < ancestors/descendants < stack serializations/invariants/"
    "properties/methods/constructors < interfaces < _verify); (5) IR constructors and _set_* setters store the same-named parameter and "
    "recompute the id-set from it; (6) interfaces are created exactly under `abstract or has descendants`; (7) chains over OurType in the "
    "second passes are exhaustive."
    " SKIPS: the loops of the functions in scope have no more `continue`, `break` or in-loop `return` statements than the reference "
    "read on the unchanged tree (baselines/skips.json): a new skip means elements that were handled are no longer handled."
)
NOTE = (
    "Trusted base: recognition of stacking loops by shape (outer loop over types, inner loop over <type>.inheritances). "
    "Not decided: closure/topological correctness for all DAGs, constructor in-lining results, model-type propagation values: runtime data."
)
TECHNIQUE = "static analysis: structural rules on the stacking passes (iteration source, guarded merge, argument order), must-pass-through ordering of the passes, parameter flow"

TR = "intermediate._translate"


def run(ctx) -> None:
    p = ctx.p
    ctx.rule("STACK-ORDER", "stacking passes iterate in topological order", floor=3)
    ctx.rule("MERGE", "merging parents' collections is guarded against duplicates (diamonds)", floor=4)
    ctx.rule("CHAIN", "stacked list = chain(inherited, own)", floor=3)
    ctx.rule("SEQ", "second passes run in dependency order on every path to success", floor=1)
    ctx.rule("PARAM", "constructors/setters of the IR store the same-named parameter; id-sets recomputed from it", floor=100)
    ctx.rule("IFACE", "interfaces exactly for abstract classes and classes with descendants", floor=1)
    ctx.rule("INHERIT-STORE", "once the inherited with_model_type is determined, every non-error path of the iteration stores it into the class", floor=1)
    ctx.rule("EXH1", "assert_never chains in the IR translation are exhaustive", floor=18)
    m = p.module(TR)
    for f in m.functions.values():
        stack.check_stack_order(ctx, f, "STACK-ORDER")
        exh.check_exh1(ctx, f, "EXH1")
        _check_merges(ctx, f)
    # ontology inversion
    onto_init = p.func("intermediate._hierarchy:_UnverifiedOntology.__init__")
    _check_inversion(ctx, onto_init)
    translate = p.func(f"{TR}:translate")
    seq.check_sequence(
        ctx, translate, "SEQ",
        [
            "_second_pass_to_resolve_inheritances_in_place",
            "_second_pass_to_resolve_ancestors_and_descendants_in_place",
            "_second_pass_to_stack_serializations_in_place",
            "_second_pass_to_stack_invariants_in_place",
            "_second_pass_to_stack_properties_in_place",
            "_second_pass_to_stack_methods_in_place",
            "_second_pass_to_stack_constructors_in_place",
            "_second_pass_to_resolve_interfaces_in_place",
            "_verify",
        ],
        seq.returns_value_none,
    )
    for f in p.module("intermediate._types").functions.values():
        if f.name == "__init__" or f.name.startswith("_set_"):
            param.check_param_flow(ctx, f, "PARAM")
            _check_id_set(ctx, f)
    _check_interfaces(ctx)
    _check_inherit_store(ctx)
    ctx.rule("SKIPS", "the loops of the functions in scope have no more continue/break/return-in-loop statements than the reference read on the unchanged tree", floor=20)
    from ..rules import skips as _skips
    _base = _skips.load_baseline()
    for _m in ctx.p.modules.values():
        if _m.name in ("aas_core_codegen.intermediate._hierarchy", "aas_core_codegen.intermediate._translate", "aas_core_codegen.intermediate.construction"):
            for _f in _m.functions.values():
                _skips.check_skips(ctx, _f, "SKIPS", _base)


def _check_merges(ctx, f) -> None:
    """for P in X.inheritances: for item in P.<coll>: <acc>.append(item)  must be guarded."""
    for outer in [n for n in walk_function_body(f.node) if isinstance(n, ast.For)]:
        it = dotted_of(outer.iter) or ""
        if not it.endswith(".inheritances") or not isinstance(outer.target, ast.Name):
            continue
        parent = outer.target.id
        for inner in [n for n in ast.walk(ast.Module(body=outer.body, type_ignores=[])) if isinstance(n, ast.For)]:
            src = dotted_of(inner.iter) or ""
            if not src.startswith(parent + ".") or not isinstance(inner.target, ast.Name):
                continue
            item = inner.target.id
            appends = []
            for n in ast.walk(ast.Module(body=inner.body, type_ignores=[])):
                if isinstance(n, ast.Call) and isinstance(n.func, ast.Attribute) and n.func.attr == "append" and n.args and isinstance(n.args[0], ast.Name) and n.args[0].id == item:
                    appends.append(n)
            for app in appends:
                acc = dotted_of(app.func.value)
                # guard: an `if` in the inner body whose test is a (not) in / get(...) is None on a container that is updated in the same body
                guarded = False
                updated = set()
                for n in ast.walk(ast.Module(body=inner.body, type_ignores=[])):
                    if isinstance(n, ast.Call) and isinstance(n.func, ast.Attribute) and n.func.attr == "add":
                        updated.add(dotted_of(n.func.value))
                    if isinstance(n, ast.Assign) and isinstance(n.targets[0], ast.Subscript):
                        updated.add(dotted_of(n.targets[0].value))
                for n in ast.walk(ast.Module(body=inner.body, type_ignores=[])):
                    if isinstance(n, ast.If):
                        tested = set()
                        for c in ast.walk(n.test):
                            if isinstance(c, ast.Compare) and isinstance(c.ops[0], (ast.In, ast.NotIn)):
                                tested.add(dotted_of(c.comparators[0]))
                            if isinstance(c, ast.Name):
                                # conflicting_parent = d.get(name); `if conflicting_parent is not None`
                                for a in ast.walk(ast.Module(body=inner.body, type_ignores=[])):
                                    if isinstance(a, ast.Assign) and isinstance(a.targets[0], ast.Name) and a.targets[0].id == c.id and isinstance(a.value, ast.Call) \
                                            and isinstance(a.value.func, ast.Attribute) and a.value.func.attr == "get":
                                        tested.add(dotted_of(a.value.func.value))
                        if tested & updated:
                            in_body = any(x is app for x in ast.walk(ast.Module(body=n.body, type_ignores=[])))
                            exits = any(isinstance(x, (ast.Continue,)) for x in n.body)
                            after = not any(x is app for x in ast.walk(n)) and exits
                            if in_body or after:
                                guarded = True
                what = f"{f.qualname}: {acc}.append({item}) for {item} in {src}"
                # a silent de-duplication must be keyed by the identity of the item: keyed by one of its attributes
                # (description, name, ...) it also drops a DIFFERENT item that happens to share the attribute
                if guarded:
                    body_mod = ast.Module(body=inner.body, type_ignores=[])
                    id_vars = {a.targets[0].id for a in ast.walk(body_mod) if isinstance(a, ast.Assign) and isinstance(a.targets[0], ast.Name) and isinstance(a.value, ast.Call)
                               and dotted_of(a.value.func) == "id" and a.value.args and dotted_of(a.value.args[0]) == item}
                    reports = any(isinstance(c, ast.Call) and ((dotted_of(c.func) or "").endswith("errors.append") or dotted_of(c.func) == "Error") for c in ast.walk(body_mod))
                    for add in [c for c in ast.walk(body_mod) if isinstance(c, ast.Call) and isinstance(c.func, ast.Attribute) and c.func.attr == "add" and c.args]:
                        k = add.args[0]
                        by_identity = (isinstance(k, ast.Name) and (k.id in id_vars or k.id == item)) or (isinstance(k, ast.Call) and dotted_of(k.func) == "id" and k.args and dotted_of(k.args[0]) == item)
                        if not by_identity and not reports:
                            ctx.fail("MERGE", f, add, f"the inherited `{src}` are de-duplicated by `{short(k)}`, not by the identity of the {item}: two different {item}s that agree on it (coming from two unrelated parents) are collapsed silently, and later checks never see the second one", construct=f"{f.qualname}: de-duplication of {src} keyed by identity")
                            guarded = None
                if guarded is None:
                    pass
                elif guarded:
                    ctx.ok("MERGE", f, app, what=what)
                else:
                    ctx.fail("MERGE", f, app,
                             f"`{short(app)}` collects `{src}` of every parent without a membership/conflict test on a container updated in the same loop: with diamond inheritance the shared ancestor's entries appear twice",
                             construct=what)
            # order of the stacked list
        setters = [c for c in find_calls(f.node, lambda c: isinstance(c.func, ast.Attribute) and c.func.attr.startswith("_set_"))]
    for c in [c for c in find_calls(f.node, lambda c: isinstance(c.func, ast.Attribute) and c.func.attr.startswith("_set_") and c.args)]:
        a = c.args[0]
        chain = None
        for x in ast.walk(a):
            if isinstance(x, ast.Call) and dotted_of(x.func) == "itertools.chain" and len(x.args) == 2:
                chain = x
        if chain is None:
            continue
        first, second = dotted_of(chain.args[0]) or "", dotted_of(chain.args[1]) or ""
        recv = dotted_of(c.func.value) or ""
        coll = c.func.attr[len("_set_"):]
        what = f"{f.qualname}: {recv}.{c.func.attr}(chain({first}, {second}))"
        if first.startswith("inherited_") and second == f"{recv}.{coll}":
            ctx.ok("CHAIN", f, c, what=what)
        else:
            ctx.fail("CHAIN", f, c, f"the stacked {coll} are `chain({first}, {second})`: inherited entries must come first, followed by the type's own", construct=what)


def _check_inversion(ctx, f) -> None:
    n_app = 0
    for n in walk_function_body(f.node):
        if isinstance(n, ast.Call) and isinstance(n.func, ast.Attribute) and n.func.attr == "append" and isinstance(n.func.value, ast.Subscript) \
                and dotted_of(n.func.value.value) == "descendants_of":
            n_app += 1
            # guarded by `x not in descendants_of[...]`
            guarded = False
            for i in walk_function_body(f.node):
                if isinstance(i, ast.If) and any(x is n for x in ast.walk(ast.Module(body=i.body, type_ignores=[]))):
                    for c in ast.walk(i.test):
                        if isinstance(c, ast.Compare) and isinstance(c.ops[0], ast.NotIn) and isinstance(c.comparators[0], ast.Subscript) and dotted_of(c.comparators[0].value) == "descendants_of":
                            guarded = True
            what = "ontology: descendants_of[ancestor].append(cls) guarded by a membership test"
            if guarded:
                ctx.ok("MERGE", f, n, what=what)
            else:
                ctx.fail("MERGE", f, n, "the ancestors of a class list a shared ancestor once per path (diamond); inverting them without a membership test lists the class several times among the descendants", construct="descendants_of[ancestor]")
    ctx.require_anchor(n_app == 1, "the ontology inverts ancestors into descendants_of")


def _check_id_set(ctx, f) -> None:
    params = set(f.param_names()) - {"self"}
    for n in walk_function_body(f.node):
        if isinstance(n, ast.Assign) and isinstance(n.targets[0], ast.Attribute) and dotted_of(n.targets[0].value) == "self" and n.targets[0].attr.endswith("_id_set"):
            stem = n.targets[0].attr.lstrip("_")[: -len("_id_set")]
            names = {x.id.lstrip('_') for x in ast.walk(n.value) if isinstance(x, ast.Name)} | {x.attr.lstrip('_') for x in ast.walk(n.value) if isinstance(x, ast.Attribute)}
            cands = {stem + "s", stem[:-1] + "ies" if stem.endswith("y") else stem + "es", stem}
            what = f"{f.qualname}: self.{n.targets[0].attr} computed from {sorted(cands & (names | params))}"
            if cands & names:
                ctx.ok("PARAM", f, n, what=what)
            else:
                ctx.fail("PARAM", f, n, f"`self.{n.targets[0].attr}` is computed from `{short(n.value)}`, not from the {stem} list it indexes: membership queries answer for another collection", construct=f"self.{n.targets[0].attr} source")


def _check_interfaces(ctx) -> None:
    p = ctx.p
    f = p.func(f"{TR}:_second_pass_to_resolve_interfaces_in_place")
    ifs = [n for n in walk_function_body(f.node) if isinstance(n, ast.If) and any(isinstance(c, ast.Call) and dotted_of(c.func) == "Interface" for c in ast.walk(ast.Module(body=n.body, type_ignores=[])))]
    ctx.require_anchor(len(ifs) == 1, "one branch creating the Interface")
    t = ifs[0].test
    ok = False
    if isinstance(t, ast.BoolOp) and isinstance(t.op, ast.Or) and len(t.values) == 2:
        a, b = t.values
        is_abs = isinstance(a, ast.Call) and dotted_of(a.func) == "isinstance" and dotted_of(a.args[1]) == "AbstractClass"
        has_desc = isinstance(b, ast.Compare) and isinstance(b.ops[0], ast.Gt) and isinstance(b.comparators[0], ast.Constant) and b.comparators[0].value == 0 \
            and isinstance(b.left, ast.Call) and dotted_of(b.left.func) == "len" and any(isinstance(c, ast.Call) and (dotted_of(c.func) or "").endswith("list_descendants") for c in ast.walk(b.left))
        ok = is_abs and has_desc
    else_none = any(isinstance(n, ast.Assign) and dotted_of(n.targets[0]) == "cls.interface" and isinstance(n.value, ast.Constant) and n.value.value is None for n in ast.walk(ast.Module(body=ifs[0].orelse, type_ignores=[])))
    if ok and else_none:
        ctx.ok("IFACE", f, ifs[0], what="Interface iff isinstance(cls, AbstractClass) or len(list_descendants) > 0; otherwise None")
    else:
        ctx.fail("IFACE", f, ifs[0], f"the interface is created under `{short(t)}`, not exactly for abstract classes and classes with at least one descendant", construct="interface condition")


def _check_inherit_store(ctx) -> None:
    """_second_pass_to_stack_serializations_in_place: after the consistent inherited value
    (``first``) is known, every path of the iteration that does not report an error
    writes it to ``our_type.serialization``."""
    from ..flow import artefacts, set_dataflow, loads, stores
    p = ctx.p
    f = p.func(f"{TR}:_second_pass_to_stack_serializations_in_place")
    loops = [n for n in f.node.body if isinstance(n, ast.For)]
    ctx.require_anchor(len(loops) >= 1 and isinstance(loops[0].target, ast.Name), "the serialization pass loops over the types")
    loop = loops[0]
    lv = loop.target.id
    # stores of a non-constant value into <lv>.serialization[...]
    st_nodes = []
    inherited = set()
    for n in ast.walk(loop):
        if isinstance(n, ast.Assign) and (dotted_of(n.targets[0]) or "").startswith(f"{lv}.serialization"):
            names = {x.id for x in ast.walk(n.value) if isinstance(x, ast.Name)} - {"Serialization"}
            if names:
                st_nodes.append(n)
                inherited |= names
    if not st_nodes or len(inherited) != 1:
        ctx.fail("INHERIT-STORE", f, loop, "the inherited serialization setting is never stored into the class", construct="inherited with_model_type stored")
        return
    var = next(iter(inherited))
    art = artefacts(ctx.ty, f)
    cfg = art.cfg

    def transfer(node, st):
        have, stored, errored, flags = st
        flags = dict(flags)
        s_ = node.stmt
        if node.kind == "stmt" and var in stores(node):
            have, stored = True, False
        if node.kind == "stmt" and any(s_ is x for x in st_nodes):
            stored = True
        if node.kind == "stmt" and isinstance(s_, ast.Expr) and isinstance(s_.value, ast.Call) and dotted_of(s_.value.func) == "errors.append":
            errored = True
        if node.kind == "stmt" and isinstance(s_, ast.Assign) and isinstance(s_.targets[0], ast.Name):
            if isinstance(s_.value, ast.Constant) and isinstance(s_.value.value, bool):
                flags[s_.targets[0].id] = s_.value.value
            else:
                flags.pop(s_.targets[0].id, None)
        if node.kind == "for" and node.stmt is loop:
            return [(False, False, False, frozenset())]
        return [(have, stored, errored, frozenset(flags.items()))]

    def edge(node, st, label):
        if node.kind == "test" and isinstance(node.expr, ast.Name) and label in (True, False):
            known = dict(st[3]).get(node.expr.id)
            if known is not None and known != label:
                return None
        return st

    IN = set_dataflow(cfg, frozenset([(False, False, False, frozenset())]), transfer, edge)
    head = next(n for n in cfg.nodes if n.kind == "for" and n.stmt is loop)
    bad = [st for st in IN.get(head.id, frozenset()) if st[0] and not st[1] and not st[2]]
    what = f"every non-error path stores `{var}.value` into {lv}.serialization"
    if bad:
        ctx.fail("INHERIT-STORE", f, st_nodes[0],
                 f"an iteration can end with the inherited value `{var}` determined but not written to `{lv}.serialization` (and no error reported): "
                 f"a class whose own setting is unset keeps None and, with it, its whole sub-tree loses the inherited with_model_type",
                 construct=what)
    else:
        ctx.ok("INHERIT-STORE", f, st_nodes[0], what=what)
