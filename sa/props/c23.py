"""C23 Model caching is opt-in and transparent (DESIGN §4 C23)."""
import ast

from ..flow import artefacts, flag_states, calls_in, find_calls, kwarg
from ..model import dotted_of, short, walk_function_body
from ..rules import own, param
from ..scopes import TARGETS

CLAIM = (
    "(1) the --cache_model flag reaches run.load_model unaltered: argparse action store_true, "
    "Parameters(cache_model=<args.cache_model>), self.cache_model <- parameter, load_model(cache_model=params.cache_model), "
    "default False at every hop; (2) in run.load_model every file-system effect on the cache (exists/open/mkdir/dump/rename/unlink/load) "
    "is control-dependent on cache_model being true; (3) package-wide, every write effect on the file system sits in an execute() "
    "or in load_model and targets a path derived from the output directory or the cache path; (4) the cache key is data-dependent "
    "on sha256 of the full model text and on the package version, and the cached branch returns the same tuple shape as the "
    "uncached one; (5) for every IR class with __getstate__/__setstate__ the attributes dropped on pickling are exactly the ones recomputed."
)
NOTE = (
    "Trusted base: enumeration of file-system APIs (pathlib methods, open, os/shutil/tempfile/pickle functions) in sa/rules/own.py; "
    "local def-use chains are flow-insensitive. Not decided: equality of outputs between cached and uncached runs, "
    "faithfulness of unpickled objects beyond the popped/recomputed attribute agreement."
)
TECHNIQUE = "static analysis: def-use plumbing of the flag, control dependence on the CFG, effect ownership (who-may-write), table agreement getstate/setstate"


def run(ctx) -> None:
    p = ctx.p
    ctx.rule("FLAG", "the cache flag is plumbed unaltered from argparse to run.load_model (no constant on the chain, defaults False)", floor=6)
    ctx.rule("CTRL", "every cache effect in run.load_model is control-dependent on cache_model", floor=7)
    ctx.rule("OWN", "every file-system write effect in the package is in an allowed function on a path derived from the output dir / cache path", floor=18)
    ctx.rule("KEY", "cache path depends on sha256(full text) and the version; both branches return (symbol_table, atok), None", floor=3)
    ctx.rule("PICKLE", "__getstate__ pops exactly the attributes __setstate__ recomputes", floor=5)

    # ---- (1) plumbing ------------------------------------------------------
    main_main = p.func("main:main")
    add_args = find_calls(main_main.node, lambda c: isinstance(c.func, ast.Attribute) and c.func.attr == "add_argument"
                          and c.args and isinstance(c.args[0], ast.Constant) and c.args[0].value == "--cache_model")
    ctx.require_anchor(len(add_args) == 1, "main.main declares --cache_model")
    act = kwarg(add_args[0], "action")
    dflt = kwarg(add_args[0], "default")
    if isinstance(act, ast.Constant) and act.value == "store_true" and (dflt is None or (isinstance(dflt, ast.Constant) and dflt.value in (False, None))):
        ctx.ok("FLAG", main_main, add_args[0], what="--cache_model is store_true with default off")
    else:
        ctx.fail("FLAG", main_main, add_args[0], "--cache_model is not an opt-in flag (action must be store_true, default off)", construct="add_argument --cache_model")
    ctors = find_calls(main_main.node, lambda c: dotted_of(c.func) == "Parameters")
    ctx.require_anchor(len(ctors) == 1, "main.main constructs Parameters")
    v = kwarg(ctors[0], "cache_model", 4)
    if v is not None and any(isinstance(n, ast.Attribute) and n.attr == "cache_model" and dotted_of(n) == "args.cache_model" for n in ast.walk(v)):
        ctx.ok("FLAG", main_main, ctors[0], what="Parameters(cache_model=<args.cache_model>)")
    else:
        ctx.fail("FLAG", main_main, ctors[0], f"Parameters is constructed with cache_model={short(v) if v is not None else '<default>'}, not with args.cache_model", construct="Parameters(cache_model=...)")
    init = p.func("main:Parameters.__init__")
    before = len(ctx.findings)
    param.check_param_flow(ctx, init, "FLAG")
    cm_param = [a for a in init.params if a.arg == "cache_model"]
    ctx.require_anchor(len(cm_param) == 1, "Parameters.__init__ has a cache_model parameter")
    _check_default_false(ctx, init, "cache_model")
    execute = p.func("main:execute")
    lm_calls = find_calls(execute.node, lambda c: dotted_of(c.func) in ("run.load_model", "load_model"))
    ctx.require_anchor(len(lm_calls) == 1, "main.execute calls run.load_model once")
    v = kwarg(lm_calls[0], "cache_model", 1)
    if v is not None and dotted_of(v) == "params.cache_model":
        ctx.ok("FLAG", execute, lm_calls[0], what="load_model(cache_model=params.cache_model)")
    else:
        ctx.fail("FLAG", execute, lm_calls[0], f"run.load_model is called with cache_model={short(v) if v is not None else '<default>'} instead of params.cache_model", construct="load_model(cache_model=...)")
    # nobody reassigns params.cache_model
    for f in p.module("main").functions.values():
        for n in walk_function_body(f.node):
            if isinstance(n, (ast.Assign, ast.AugAssign, ast.AnnAssign)):
                tgts = n.targets if isinstance(n, ast.Assign) else [n.target]
                for t in tgts:
                    if isinstance(t, ast.Attribute) and t.attr == "cache_model" and not (f is init):
                        ctx.fail("FLAG", f, n, "cache_model is reassigned outside the constructor", construct=short(n))
    load_model = p.func("run:load_model")
    _check_default_false(ctx, load_model, "cache_model")
    # other callers of load_model must not switch the cache on behind the user's back
    for f in p.all_functions():
        if f is execute:
            continue
        for c in find_calls(f.node, lambda c: (dotted_of(c.func) or "").split(".")[-1] == "load_model"):
            v = kwarg(c, "cache_model", 1)
            if v is None or (isinstance(v, ast.Constant) and v.value is False):
                ctx.ok("FLAG", f, c, what="other caller of load_model leaves the cache off")
            else:
                ctx.fail("FLAG", f, c, "load_model called with the cache switched on without a user flag", construct=short(c))

    # ---- (2) control dependence -------------------------------------------
    art = artefacts(ctx.ty, load_model)
    cfg = art.cfg
    FL = flag_states(cfg, "cache_model")
    defs = own.local_defs(load_model)
    n_eff = 0
    effect_nodes = {}
    for node in cfg.nodes:
        for c in calls_in(node):
            effect_nodes[id(c)] = node
    for eff in own.effects_in(load_model):
        tgt_or = own.origins(load_model, eff.target, defs) if eff.target is not None else set()
        cache_related = not (tgt_or <= {"model_path"})
        if not cache_related:
            continue
        node = effect_nodes.get(id(eff.call))
        ctx.require_anchor(node is not None, "cache effect is a CFG node")
        n_eff += 1
        states = FL.get(node.id, frozenset())
        what = f"{eff.op} on {short(eff.target) if eff.target is not None else '?'}"
        if states == frozenset(["T"]):
            ctx.ok("CTRL", load_model, eff.call, what=what + " under cache_model")
        else:
            ctx.fail("CTRL", load_model, eff.call,
                     f"`{short(eff.call)}` touches the model cache on a path where cache_model is not known to be true (states {sorted(states)}): the cache is used without --cache_model",
                     construct=what)

    # ---- (3) ownership -----------------------------------------------------
    allowed = {"aas_core_codegen.main:execute": ("params.output_dir",), "aas_core_codegen.run:load_model": ()}
    for t in TARGETS:
        allowed[f"aas_core_codegen.{t}.main:execute"] = ("context.output_dir",)
    for f in p.all_functions():
        if f.module.name.startswith("aas_core_codegen.parse._rules") and f.name == "_assert_chains_follow_file_structure":
            pass
        fdefs = None
        for eff in own.effects_in(f):
            if eff.kind != "write":
                continue
            what = f"{eff.op} on {short(eff.target) if eff.target is not None else '?'}"
            if f.key not in allowed:
                ctx.fail("OWN", f, eff.call, f"`{short(eff.call)}` writes to the file system outside the functions that own output ({', '.join(sorted(k.split('.', 1)[1] for k in allowed))})", construct=what)
                continue
            if f.key == "aas_core_codegen.run:load_model":
                ctx.ok("OWN", f, eff.call, what=what + " (cache branch, see CTRL)")
                continue
            if fdefs is None:
                fdefs = own.local_defs(f)
            og = own.origins(f, eff.target, fdefs) if eff.target is not None else set()
            roots = allowed[f.key]
            if any(o == r or o.startswith(r + ".") for o in og for r in roots):
                ctx.ok("OWN", f, eff.call, what=what + f" derived from {roots[0]}")
            else:
                ctx.fail("OWN", f, eff.call, f"`{short(eff.call)}` writes to a path not derived from {roots[0]} (origins: {sorted(og)})", construct=what)

    # ---- (4) key integrity -------------------------------------------------
    check_key(ctx)

    # ---- (5) pickle agreement ---------------------------------------------
    _check_pickle_agreement(ctx)


def check_key(ctx, rule: str = "KEY") -> None:
    """The cache entry is named by the temp dir, the package version and the full sha256 of the unmodified model text, and the
    text that is parsed is the text that is hashed (shared with C24: no foreign entry; C04: locations belong to the text read)."""
    p = ctx.p
    load_model = p.func("run:load_model")
    cfg = artefacts(ctx.ty, load_model).cfg
    defs = own.local_defs(load_model)
    og = own.origins(load_model, ast.Name(id="cache_path", ctx=ast.Load()), defs)
    need = {"call:hashlib.sha256": "sha256", "model_path": "the model file", "global:aas_core_codegen.__version__": "the package version", "call:tempfile.gettempdir": "the temp dir"}
    missing = [v for k, v in need.items() if k not in og]
    # the hashed text must be the *whole* text read from model_path
    text_defs = defs.get("text", [])
    whole = len(text_defs) == 1 and isinstance(text_defs[0], ast.Call) and dotted_of(text_defs[0].func) == "model_path.read_text"
    hash_defs = defs.get("text_hash", [])
    hashed_whole = False
    for hd in hash_defs:
        for c in ast.walk(hd):
            if isinstance(c, ast.Call) and dotted_of(c.func) == "hashlib.sha256" and c.args:
                a = c.args[0]
                if isinstance(a, ast.Call) and isinstance(a.func, ast.Attribute) and a.func.attr == "encode" and dotted_of(a.func.value) == "text":
                    hashed_whole = True
                if isinstance(a, ast.Name) and a.id == "text":
                    hashed_whole = True
    # the digest is used in full: a sliced / truncated digest makes different texts share a cache entry with a probability that
    # is no longer negligible (2^-32 for 8 hex digits: a birthday search over edits of one model finds a pair in minutes)
    truncated = None
    for hd in hash_defs:
        for c in ast.walk(hd):
            if isinstance(c, ast.Subscript) and any(isinstance(x, ast.Call) and isinstance(x.func, ast.Attribute) and x.func.attr in ("hexdigest", "digest") for x in ast.walk(c.value)):
                truncated = c
    for n in ast.walk(load_model.node):
        if isinstance(n, ast.Subscript) and dotted_of(n.value) == "text_hash":
            truncated = n
    if truncated is not None:
        ctx.fail(rule, load_model, truncated, f"`{short(truncated)}` uses only a part of the digest in the cache key: two different model texts can share an entry, and the second run silently generates from the first model", construct="cache key uses the full digest")
    else:
        ctx.ok(rule, load_model, load_model.node, what="the digest enters the cache key in full")
    if missing or not whole or not hashed_whole:
        ctx.fail(rule, load_model, load_model.node, "cache_path does not depend on " + (", ".join(missing) if missing else "sha256 of the unmodified full text"), construct="cache_path")
    else:
        ctx.ok(rule, load_model, load_model.node, what="cache_path <- tempdir / version / sha256(text.encode()), text = model_path.read_text()")
    # parser input is the same text
    src_calls = find_calls(load_model.node, lambda c: (dotted_of(c.func) or "").endswith("source_to_atok"))
    ctx.require_anchor(len(src_calls) == 1, "load_model calls parse.source_to_atok")
    sv = kwarg(src_calls[0], "source", 0)
    if isinstance(sv, ast.Name) and sv.id == "text":
        ctx.ok(rule, load_model, src_calls[0], what="the parsed text is the hashed text")
    else:
        ctx.fail(rule, load_model, src_calls[0], "the text that is parsed is not the text that is hashed", construct="source_to_atok(source=...)")
    # success returns have the same shape
    shapes = []
    for node in cfg.nodes:
        if node.kind == "return" and isinstance(node.expr, ast.Tuple) and len(node.expr.elts) == 2:
            a, b = node.expr.elts
            if isinstance(b, ast.Constant) and b.value is None:
                shapes.append((node, a))
    ok_shapes = [a for _, a in shapes if isinstance(a, ast.Tuple) and len(a.elts) == 2]
    if len(shapes) >= 2 and len(ok_shapes) == len(shapes):
        def tail(e):
            d = dotted_of(e) or ""
            return d.split(".")[-1].replace("ir_", "")
        kinds = {tuple(tail(e) for e in a.elts) for a in ok_shapes}
        if kinds == {("symbol_table", "atok")}:
            ctx.ok(rule, load_model, shapes[0][0].stmt, what="cached and uncached success returns are (symbol_table, atok), None")
        else:
            ctx.fail(rule, load_model, shapes[0][0].stmt, f"success returns differ in shape: {sorted(kinds)}", construct="success returns")
    else:
        ctx.fail(rule, load_model, load_model.node, "expected a cached and an uncached success return of the form ((symbol_table, atok), None)", construct="success returns")



def _singular(name: str) -> str:
    if name.endswith("ies"):
        return name[:-3] + "y"
    if name.endswith("s"):
        return name[:-1]
    return name


def _check_default_false(ctx, f, name: str) -> None:
    a = f.node.args
    pos = list(a.posonlyargs) + list(a.args)
    defaults = [None] * (len(pos) - len(a.defaults)) + list(a.defaults)
    for arg, d in list(zip(pos, defaults)) + list(zip(a.kwonlyargs, a.kw_defaults)):
        if arg.arg == name:
            if d is None or (isinstance(d, ast.Constant) and d.value is False):
                ctx.ok("FLAG", f, arg, what=f"default of {f.qualname}({name}) is off")
            else:
                ctx.fail("FLAG", f, arg, f"the default of `{name}` in {f.qualname} is {short(d)}: caching is on unless switched off", construct=f"default of {name}")
            return
    ctx.require_anchor(False, f"{f.key} has a parameter {name}")


def _check_pickle_agreement(ctx) -> None:
    p = ctx.p
    n = 0
    for ci in p.module("intermediate._types").classes.values():
        gs, ss = ci.methods.get("__getstate__"), ci.methods.get("__setstate__")
        if gs is None and ss is None:
            continue
        where = (ci.module.relpath, ci.qualname)
        if gs is None or ss is None:
            ctx.fail("PICKLE", where, ci.node, f"{ci.name} defines only one of __getstate__/__setstate__", construct=f"class {ci.name}")
            continue
        popped = set()
        for c in ast.walk(gs.node):
            if isinstance(c, ast.Call) and isinstance(c.func, ast.Attribute) and c.func.attr == "pop" and c.args and isinstance(c.args[0], ast.Constant):
                popped.add(c.args[0].value)
            if isinstance(c, ast.Delete):
                for t in c.targets:
                    if isinstance(t, ast.Subscript) and isinstance(t.slice, ast.Constant):
                        popped.add(t.slice.value)
        recomputed = {}
        for st in ast.walk(ss.node):
            if isinstance(st, ast.Assign):
                for t in st.targets:
                    if isinstance(t, ast.Attribute) and isinstance(t.value, ast.Name) and t.value.id == "self":
                        recomputed[t.attr] = st.value
            if (
                isinstance(st, ast.Call) and dotted_of(st.func) == "setattr" and len(st.args) == 3
                and isinstance(st.args[0], ast.Name) and st.args[0].id == "self"
                and isinstance(st.args[1], ast.Constant)
            ):
                recomputed[st.args[1].value] = st.args[2]
        # attributes whose __init__ value is computed with id(): must be popped
        id_based = set()
        init = ci.methods.get("__init__")
        setters = [m for n_, m in ci.methods.items() if n_.startswith("_set_")] + ([init] if init else [])
        for m in setters:
            for st in ast.walk(m.node):
                if isinstance(st, ast.Assign):
                    for t in st.targets:
                        if isinstance(t, ast.Attribute) and isinstance(t.value, ast.Name) and t.value.id == "self":
                            txt = ast.unparse(st.value)
                            if "id(" in txt or "_id_set" in t.attr or "_compute_" in txt and "id" in txt:
                                id_based.add(t.attr)
        n += 1
        problems = []
        if popped != set(recomputed):
            problems.append(f"popped {sorted(popped)} but recomputed {sorted(recomputed)}")
        not_popped = sorted(a for a in id_based if a not in popped)
        if not_popped:
            problems.append(f"id()-based attributes survive pickling: {not_popped}")
        # each recomputation reads the list the id-set is derived from and uses
        # the helper named after the attribute
        for attr, val in recomputed.items():
            stem = attr.lstrip("_")
            if stem.endswith("_id_set"):
                stem = stem[: -len("_id_set")]
            srcs_state = {x.attr.lstrip("_") for x in ast.walk(val) if isinstance(x, ast.Attribute) and isinstance(x.value, ast.Name) and x.value.id == "self" and x.attr != "__class__"}
            helpers = {x.attr for x in ast.walk(val) if isinstance(x, ast.Attribute) and x.attr.startswith("_compute_")}
            if not any(_singular(src) == stem for src in srcs_state):
                problems.append(f"{attr} is recomputed from {sorted(srcs_state)}, not from the {stem} list")
            if helpers and not any(h == f"_compute_{stem}_id_set" for h in helpers):
                problems.append(f"{attr} is recomputed with {sorted(helpers)}")
        if problems:
            ctx.fail("PICKLE", where, ci.node, f"{ci.name}: " + "; ".join(problems), construct=f"class {ci.name} getstate/setstate")
        else:
            ctx.ok("PICKLE", where, ci.node, what=f"class {ci.name}: popped == recomputed == {sorted(popped)}")
    ctx.require_anchor(n > 0, "intermediate._types has classes with __getstate__/__setstate__")
