"""C17 UTF-16 regex rewriting preserves the language (DESIGN §4 C17)."""
import ast
from typing import Any, Dict, List, Optional, Tuple

from ..flow import find_calls, kwarg
from ..model import dotted_of, short, walk_function_body, norm
from ..rules import lin, seq

CLAIM = (
    "(1) _convert_to_surrogates computes exactly the UTF-16 definition (high = (code - 0x10000) // 0x400 + 0xD800, low = (code - 0x10000) "
    "% 0x400 + 0xDC00) and, by interval evaluation from its @require (0x10000 <= code <= 0x10FFFF), its results lie in the surrogate "
    "ranges its @ensure states; (2) the range-splitting case analysis of _expand_char_set_to_surrogates_if_necessary equals the oracle "
    "decomposition of [start, end] into surrogate-pair rectangles: same high -> {hs}x[ls..le]; otherwise {hs}x[ls..DFFF], the full middle "
    "rows [hs+1..he-1]x[DC00..DFFF] exactly when he - hs > 1, and {he}x[DC00..le]; single characters become the pair (high, low) in that "
    "order; (3) quantifiers are preserved: a quantified character or set is wrapped in a Group that carries term.quantifier, an "
    "unquantified one yields terms without quantifier; (4) visit_concatenation rewrites both character-bearing term kinds and recurses "
    "into every new term; (5) fix_pattern_for_utf16 runs parse -> fix -> render in that order."
    " COMPL-GUARD: the parser's rejection of complementing sets agrees, on the boundary samples around U+10000, with the rewriter's "
    "classification of ranges (so the rewriter's `should have been detected before` assertion is unreachable); PRE-SURR: every range that "
    "reaches _convert_to_surrogates starts in a supplementary plane (straddling ranges are split first)."
    " SKIPS: the loops of the functions in scope have no more `continue`, `break` or in-loop `return` statements than the reference "
    "read on the unchanged tree (baselines/skips.json): a new skip means elements that were handled are no longer handled."
    " VISIT also requires that each rewriter is called for every term of its kind (no condition besides the kind test)."
)
NOTE = (
    "Oracle: the UTF-16 encoding form (Unicode standard, section 3.9) and elementary set arithmetic on the (high, low) grid. "
    "Trusted base: extraction of the produced pieces as linear forms over high_start/low_start/high_end/low_end. A restructuring of the "
    "case analysis that the extractor does not recognise is an ANALYSIS-ERROR, not a pass. Not decided: acceptance of arbitrary strings."
)
TECHNIQUE = "static analysis: interval evaluation of the surrogate arithmetic, table agreement of the range-splitting case analysis with an arithmetic oracle, quantifier-flow rules"

FIX = "parse.retree._fix"


def _interval(e: ast.AST, env: Dict[str, Tuple[int, int]]) -> Optional[Tuple[int, int]]:
    if isinstance(e, ast.Constant) and isinstance(e.value, int):
        return (e.value, e.value)
    if isinstance(e, ast.Name) and e.id in env:
        return env[e.id]
    if isinstance(e, ast.BinOp):
        a, b = _interval(e.left, env), _interval(e.right, env)
        if a is None or b is None:
            return None
        if isinstance(e.op, ast.Add):
            return (a[0] + b[0], a[1] + b[1])
        if isinstance(e.op, ast.Sub):
            return (a[0] - b[1], a[1] - b[0])
        if isinstance(e.op, ast.FloorDiv) and b[0] == b[1] and b[0] > 0:
            return (a[0] // b[0], a[1] // b[0])
        if isinstance(e.op, ast.Mod) and b[0] == b[1] and b[0] > 0 and a[0] >= 0:
            if a[1] - a[0] + 1 >= b[0]:
                return (0, b[0] - 1)
            lo, hi = a[0] % b[0], a[1] % b[0]
            return (lo, hi) if lo <= hi else (0, b[0] - 1)
    return None


def _shape(e: ast.AST) -> Any:
    """Canonical shape of an integer expression (constants folded to ints)."""
    if isinstance(e, ast.Constant):
        return e.value
    if isinstance(e, ast.Name):
        return e.id
    if isinstance(e, ast.BinOp):
        return (type(e.op).__name__, _shape(e.left), _shape(e.right))
    return ast.dump(e)


def run(ctx) -> None:
    p = ctx.p
    ctx.rule("SURROGATE", "surrogate arithmetic equals the UTF-16 definition and stays in range", floor=4)
    ctx.rule("SPLIT", "range-splitting pieces equal the oracle decomposition", floor=7)
    ctx.rule("QUANT", "quantifiers are preserved by the expansion", floor=3)
    ctx.rule("VISIT", "visit_concatenation rewrites Char and CharSet terms and recurses", floor=2)
    ctx.rule("SEQ", "fix_pattern_for_utf16: parse -> fix -> render", floor=1)
    cls = p.cls(f"{FIX}:_FixForUTF16Regex")
    conv = cls.methods["_convert_to_surrogates"]
    assigns = {n.targets[0].id: n.value for n in walk_function_body(conv.node) if isinstance(n, ast.Assign) and isinstance(n.targets[0], ast.Name)}
    ret = [n for n in walk_function_body(conv.node) if isinstance(n, ast.Return)]
    ctx.require_anchor(len(ret) == 1 and isinstance(ret[0].value, ast.Tuple) and len(ret[0].value.elts) == 2, "_convert_to_surrogates returns (high, low)")
    hi_e, lo_e = [assigns.get(e.id, e) if isinstance(e, ast.Name) else e for e in ret[0].value.elts]
    want_hi = ("Add", ("FloorDiv", ("Sub", "code", 0x10000), 0x400), 0xD800)
    want_lo = ("Add", ("Mod", ("Sub", "code", 0x10000), 0x400), 0xDC00)
    for nm, e, want, rng in (("high", hi_e, want_hi, (0xD800, 0xDBFF)), ("low", lo_e, want_lo, (0xDC00, 0xDFFF))):
        if _shape(e) == want:
            ctx.ok("SURROGATE", conv, e, what=f"{nm} surrogate = {norm(e)} (UTF-16 definition)")
        else:
            ctx.fail("SURROGATE", conv, e, f"the {nm} surrogate is computed as `{norm(e)}`, which is not the UTF-16 definition", construct=f"{nm} surrogate formula")
        iv = _interval(e, {"code": (0x10000, 0x10FFFF)})
        if iv == rng:
            ctx.ok("SURROGATE", conv, e, what=f"{nm} surrogate in [{rng[0]:#x}, {rng[1]:#x}] for every code in [0x10000, 0x10FFFF]")
        else:
            ctx.fail("SURROGATE", conv, e, f"for code in [0x10000, 0x10FFFF] the {nm} surrogate ranges over {iv}, not [{rng[0]:#x}, {rng[1]:#x}]", construct=f"{nm} surrogate range")

    _check_split(ctx, cls)
    _check_quant(ctx, cls)
    vc = cls.methods["visit_concatenation"]
    kinds = set()
    for n in walk_function_body(vc.node):
        if isinstance(n, ast.If) or True:
            pass
    for n in ast.walk(vc.node):
        if isinstance(n, ast.Call) and dotted_of(n.func) == "isinstance" and len(n.args) == 2:
            kinds.add((dotted_of(n.args[1]) or "").split(".")[-1])
    calls = {(dotted_of(c.func) or "").split(".")[-1] for c in ast.walk(vc.node) if isinstance(c, ast.Call)}
    if {"Char", "CharSet"} <= kinds and {"_character_literal_to_surrogates_if_necessary", "_expand_char_set_to_surrogates_if_necessary"} <= calls:
        ctx.ok("VISIT", vc, vc.node, what="Char and CharSet terms are both rewritten")
    else:
        ctx.fail("VISIT", vc, vc.node, "visit_concatenation does not rewrite both character literals and character sets", construct="visit_concatenation kinds")
    # each rewriter is called for every term of its kind: the only condition on the call is the kind test
    from ..rules import schema as _S
    _par = _S.parents_of(vc)
    for helper, kind in (("_character_literal_to_surrogates_if_necessary", "Char"), ("_expand_char_set_to_surrogates_if_necessary", "CharSet")):
        for c in [c for c in ast.walk(vc.node) if isinstance(c, ast.Call) and (dotted_of(c.func) or "").split(".")[-1] == helper]:
            atoms = []

            def _add(t, pol):
                if isinstance(t, ast.UnaryOp) and isinstance(t.op, ast.Not):
                    _add(t.operand, not pol)
                elif isinstance(t, ast.BoolOp) and ((isinstance(t.op, ast.And) and pol) or (isinstance(t.op, ast.Or) and not pol)):
                    for v in t.values:
                        _add(v, pol)
                else:
                    atoms.append((t, pol))

            for t, pol in _S.guards_of(c, _par):
                _add(t, pol)
            extra = []
            for t, pol in atoms:
                is_kind = isinstance(t, ast.Call) and dotted_of(t.func) == "isinstance" and len(t.args) == 2
                if is_kind and pol and (dotted_of(t.args[1]) or "").split(".")[-1] == kind:
                    continue
                if is_kind and not pol:
                    continue  # an earlier arm of the chain was for another kind
                if not pol and isinstance(t, ast.BoolOp) and isinstance(t.op, ast.And) and any(
                        isinstance(v, ast.Call) and dotted_of(v.func) == "isinstance" and len(v.args) == 2 and (dotted_of(v.args[1]) or "").split(".")[-1] != kind
                        for v in t.values):
                    continue  # the negation of an earlier arm that required another kind: true for every term of this kind
                extra.append(("" if pol else "not ") + ast.unparse(t))
            what = f"visit_concatenation: every {kind} term goes through {helper}"
            if extra:
                ctx.fail("VISIT", vc, c, f"{helper} is called only under the additional condition(s) {extra}: the {kind} terms excluded by it keep their astral characters, which a UTF-16 engine reads as two units (a quantifier then binds to the low surrogate alone)", construct=what)
            else:
                ctx.ok("VISIT", vc, c, what=what)
    rec = any(isinstance(n, ast.For) and any(isinstance(c, ast.Call) and dotted_of(c.func) == "self.visit" for c in ast.walk(n)) for n in ast.walk(vc.node))
    store = any(isinstance(n, ast.Assign) and dotted_of(n.targets[0]) == "node.concatenants" for n in ast.walk(vc.node))
    if rec and store:
        ctx.ok("VISIT", vc, vc.node, what="the new concatenants are stored and visited recursively")
    else:
        ctx.fail("VISIT", vc, vc.node, "the rewritten terms are not stored back / not visited recursively (nested groups keep astral characters)", construct="visit_concatenation recursion")
    seq.check_sequence(ctx, p.func("jsonschema.main:fix_pattern_for_utf16"), "SEQ", ["parse", "fix_for_utf16_regex_in_place", "render"], lambda n: n.kind == "return")
    ctx.rule("COMPL-GUARD", "the parser rejects a complementing set exactly when the rewriter would find a range outside the BMP", floor=1)
    ctx.rule("PRE-SURR", "only ranges starting at or above U+10000 reach _convert_to_surrogates", floor=1)
    _check_complement_guard(ctx)
    _check_surrogate_precondition(ctx)
    ctx.rule("SKIPS", "the loops of the functions in scope have no more continue/break/return-in-loop statements than the reference read on the unchanged tree", floor=2)
    from ..rules import skips as _skips
    _base = _skips.load_baseline()
    for _m in ctx.p.modules.values():
        if _m.name == "aas_core_codegen.parse.retree._fix":
            for _f in _m.functions.values():
                _skips.check_skips(ctx, _f, "SKIPS", _base)


def _eqs(a: str, b: str, op: str = "==") -> str:
    x, y = sorted((a, b))
    return f"{x} {op} {y}"


def _ctext(test: ast.AST) -> str:
    """Text of a branch condition; the sides of ``==`` / ``!=`` in a fixed order (``a == b`` and ``b == a`` are one condition)."""
    if isinstance(test, ast.Compare) and len(test.ops) == 1 and isinstance(test.ops[0], (ast.Eq, ast.NotEq)):
        return _eqs(norm(test.left), norm(test.comparators[0]), "==" if isinstance(test.ops[0], ast.Eq) else "!=")
    return norm(test)


def _branch_pieces(stmts: List[ast.stmt], conds: Tuple[str, ...], out: List[Tuple[Tuple[str, ...], str, Dict[str, Any]]]) -> None:
    for s in stmts:
        if isinstance(s, ast.If):
            c = _ctext(s.test)
            _branch_pieces(s.body, conds + (c,), out)
            _branch_pieces(s.orelse, conds + (f"not ({c})",), out)
        elif isinstance(s, ast.Expr) and isinstance(s.value, ast.Call) and dotted_of(s.value.func) == "uniates.append" and s.value.args and isinstance(s.value.args[0], ast.Call):
            call = s.value.args[0]
            name = (dotted_of(call.func) or "").split(".")[-1]
            if name.startswith("_produce_"):
                out.append((conds, name, {kw.arg: lin.lin_of(kw.value) for kw in call.keywords}))


def _L(sym: Optional[str], c: int = 0):
    return (((sym, 1),) if sym else (), c)


def _check_split(ctx, cls) -> None:
    m = cls.methods["_expand_char_set_to_surrogates_if_necessary"]
    loops = [n for n in walk_function_body(m.node) if isinstance(n, ast.For) and dotted_of(n.iter) == "ranges_w_utf32"]
    ctx.require_anchor(len(loops) == 1, "loop over the ranges with astral characters")
    pieces: List[Tuple[Tuple[str, ...], str, Dict[str, Any]]] = []
    _branch_pieces(loops[0].body, (), pieces)
    ctx.require_anchor(len(pieces) >= 5, "the pieces of the range split are recognised")
    # symbols bound from _convert_to_surrogates
    binds = {}
    for n in ast.walk(loops[0]):
        if isinstance(n, ast.Assign) and isinstance(n.targets[0], ast.Tuple) and isinstance(n.value, ast.Call) and (dotted_of(n.value.func) or "").endswith("_convert_to_surrogates"):
            arg = kwarg(n.value, "code", 0)
            binds[tuple(e.id for e in n.targets[0].elts)] = norm(arg) if arg is not None else ""
    ok_binds = binds.get(("high_start", "low_start")) == "ord(a_range.start.character)" and binds.get(("high_end", "low_end")) == "ord(a_range.end.character)"
    if ok_binds:
        ctx.ok("SPLIT", m, loops[0], what="(high_start, low_start) from the range start, (high_end, low_end) from the range end")
    else:
        ctx.fail("SPLIT", m, loops[0], f"the surrogates of the range ends are bound as {binds}", construct="surrogates of range ends")

    hs, ls, he, le = "high_start", "low_start", "high_end", "low_end"
    same = _eqs("high_start", "high_end")
    mid1 = _eqs("high_start + 1", "high_end - 1")
    oracle = [
        # (description, required conditions, forbidden conditions, producer, args)
        ("single character -> (high, low)", [], [same], "_produce_char_char", {"first_code": _L(hs), "second_code": _L(ls)}, "single"),
        ("same high surrogate -> {hs}x[ls..le]", [same], [], "_produce_char_char_set", {"code": _L(hs), "range_start": _L(ls), "range_end": _L(le)}, None),
        ("first row -> {hs}x[ls..DFFF]", [f"not ({same})"], [], "_produce_char_char_set", {"code": _L(hs), "range_start": _L(ls), "range_end": _L(None, 0xDFFF)}, None),
        ("one middle row -> {hs+1}x[DC00..DFFF]", [f"not ({same})", "high_end - high_start > 1", mid1], [], "_produce_char_char_set", {"code": _L(hs, 1), "range_start": _L(None, 0xDC00), "range_end": _L(None, 0xDFFF)}, None),
        ("middle rows -> [hs+1..he-1]x[DC00..DFFF]", [f"not ({same})", "high_end - high_start > 1", f"not ({mid1})"], [], "_produce_char_set_char_set",
         {"first_range_start": _L(hs, 1), "first_range_end": _L(he, -1), "second_range_start": _L(None, 0xDC00), "second_range_end": _L(None, 0xDFFF)}, None),
        ("last row -> {he}x[DC00..le]", [f"not ({same})"], ["high_end - high_start > 1"], "_produce_char_char_set", {"code": _L(he), "range_start": _L(None, 0xDC00), "range_end": _L(le)}, None),
    ]
    used = set()
    for desc, req, forb, prod, args, tag in oracle:
        found = None
        for i, (conds, name, kw) in enumerate(pieces):
            if i in used or name != prod or kw != args:
                continue
            cs = set(conds)
            if all(r in cs for r in req) and not any(fb in cs for fb in forb if tag != "single"):
                found = i
                break
        what = f"piece: {desc}"
        if found is not None:
            used.add(found)
            ctx.ok("SPLIT", m, loops[0], what=what)
        else:
            ctx.fail("SPLIT", m, loops[0],
                     f"the case analysis lacks the piece `{desc}` (producer {prod} with arguments {_fmt(args)} under {req or 'the single-character case'}): "
                     f"the rewritten pattern accepts a different set of surrogate pairs than the original range of astral characters",
                     construct=what)
    extra = [pieces[i] for i in range(len(pieces)) if i not in used]
    for conds, name, kw in extra:
        ctx.fail("SPLIT", m, loops[0], f"unexpected piece {name}({_fmt(kw)}) under {list(conds)}: it adds surrogate pairs outside the original range", construct=f"extra piece {name} {_fmt(kw)}")
    # the middle rows exist exactly when he - hs > 1
    mids = [conds for conds, name, kw in pieces if kw.get("code") == _L(hs, 1) or kw.get("first_range_start") == _L(hs, 1)]
    if mids and all("high_end - high_start > 1" in c for c in mids):
        ctx.ok("SPLIT", m, loops[0], what="middle rows emitted exactly under high_end - high_start > 1")
    else:
        ctx.fail("SPLIT", m, loops[0], "the middle rows are not emitted exactly when high_end - high_start > 1", construct="middle rows guard")


def _fmt(args: Dict[str, Any]) -> str:
    def one(v):
        if v is None:
            return "?"
        form, c = v
        if not form:
            return hex(c)
        return form[0][0] + (f"{c:+d}" if c else "")
    return ", ".join(f"{k}={one(v)}" for k, v in args.items())


def _check_quant(ctx, cls) -> None:
    m = cls.methods["_character_literal_to_surrogates_if_necessary"]
    branch = [n for n in walk_function_body(m.node) if isinstance(n, ast.If) and norm(n.test) == "term.quantifier is not None"]
    ctx.require_anchor(len(branch) == 1, "branch on term.quantifier in the literal expansion")
    b = branch[0]

    def terms(stmts):
        return [c for s in stmts for c in ast.walk(s) if isinstance(c, ast.Call) and (dotted_of(c.func) or "").endswith("Term") and any(
            isinstance(p_, ast.Call) and isinstance(p_.func, ast.Attribute) and p_.func.attr == "append" and c in p_.args for p_ in ast.walk(s))]

    q_terms = terms(b.body)
    ok_q = len(q_terms) == 1 and norm(kwarg(q_terms[0], "quantifier")) == "term.quantifier" and any(
        isinstance(x, ast.Call) and (dotted_of(x.func) or "").endswith("Group") for s in b.body for x in ast.walk(s))
    if ok_q:
        ctx.ok("QUANT", m, b, what="quantified literal -> one Term(Group(high low), quantifier=term.quantifier)")
    else:
        ctx.fail("QUANT", m, b, "a quantified astral character is not rewritten into a single group carrying the original quantifier: the quantifier would apply to the low surrogate only or be lost", construct="quantified literal")
    nq = terms(b.orelse)
    order = [norm(kwarg(t, "value")) for t in nq]
    if len(nq) == 2 and all(norm(kwarg(t, "quantifier")) == "None" for t in nq) and order == ["high_surrogate_char", "low_surrogate_char"]:
        ctx.ok("QUANT", m, b, what="unquantified literal -> Term(high), Term(low) without quantifier")
    else:
        ctx.fail("QUANT", m, b, f"an unquantified astral character is rewritten to {order} (expected high surrogate then low surrogate, no quantifiers)", construct="unquantified literal")
    e = cls.methods["_expand_char_set_to_surrogates_if_necessary"]
    rets = [r for r in walk_function_body(e.node) if isinstance(r, ast.Return) and isinstance(r.value, ast.List) and r.value.elts and isinstance(r.value.elts[0], ast.Call)]
    ok = any(norm(kwarg(r.value.elts[0], "quantifier")) == "term.quantifier" and "Group" in ast.unparse(kwarg(r.value.elts[0], "value")) for r in rets)
    if ok:
        ctx.ok("QUANT", e, e.node, what="expanded set -> Term(Group(union), quantifier=term.quantifier)")
    else:
        ctx.fail("QUANT", e, e.node, "the expanded character set does not carry term.quantifier on the enclosing group", construct="quantified set")


def _eval_pred(e: ast.AST, env: Dict[str, Any], consts: Dict[str, int]) -> Any:
    """Evaluate a boolean/ordering expression of the analysed source on sample values: ``ord(<x>.start.character)`` and
    ``ord(<x>.end.character)`` read env['start'] / env['end'], ``<x>.end`` reads env['end'] (None allowed), names of integer
    constants read ``consts``.  Anything else raises KeyError (the predicate is then not comparable)."""
    if isinstance(e, ast.BoolOp):
        # short-circuit, like Python: ``x.end is None or ord(x.end.character) < S``
        for v in e.values:
            r = bool(_eval_pred(v, env, consts))
            if isinstance(e.op, ast.And) and not r:
                return False
            if isinstance(e.op, ast.Or) and r:
                return True
        return isinstance(e.op, ast.And)
    if isinstance(e, ast.UnaryOp) and isinstance(e.op, ast.Not):
        return not _eval_pred(e.operand, env, consts)
    if isinstance(e, ast.Compare) and len(e.ops) == 1:
        a, b = _eval_pred(e.left, env, consts), _eval_pred(e.comparators[0], env, consts)
        op = e.ops[0]
        if isinstance(op, ast.Is):
            return a is b
        if isinstance(op, ast.IsNot):
            return a is not b
        if a is None or b is None:
            raise KeyError("ordering with None")
        return {ast.Lt: a < b, ast.LtE: a <= b, ast.Gt: a > b, ast.GtE: a >= b, ast.Eq: a == b, ast.NotEq: a != b}[type(op)]
    if isinstance(e, ast.Constant):
        return e.value
    if isinstance(e, ast.Call) and dotted_of(e.func) == "ord" and e.args:
        d = ast.unparse(e.args[0])
        for k in ("start", "end"):
            if d.endswith(f".{k}.character"):
                return env[k]
        raise KeyError(d)
    d = dotted_of(e)
    if d is not None:
        if d.endswith(".end"):
            return env["end"]
        if d.endswith(".start"):
            return env["start"]
        tail = d.split(".")[-1]
        if tail in consts:
            return consts[tail]
    raise KeyError(ast.unparse(e))


def _check_complement_guard(ctx) -> None:
    """The rewriter asserts that a complementing set has no range outside the BMP ("should have been detected before");
    the parser's rejection of complementing sets must therefore be exactly the negation of the rewriter's `range is
    inside the BMP` classification - decided by evaluating both predicates of the source on boundary samples."""
    p = ctx.p
    fx = p.func("parse.retree._fix:_FixForUTF16Regex._expand_char_set_to_surrogates_if_necessary")
    ps = p.func("parse.retree._parse:_parse_concatenation")
    consts = {}
    for modkey, holder in (("parse.retree._parse", None), ("parse.retree._fix", "_FixForUTF16Regex")):
        m = p.module(modkey)
        src = m.constants if holder is None else p.cls(f"{modkey}:{holder}").assigns
        for k, v in src.items():
            if isinstance(v, ast.Constant) and isinstance(v.value, int):
                if k in consts and consts[k] != v.value:
                    ctx.fail("COMPL-GUARD", m, v, f"the constant {k} differs between the parser ({consts[k]:#x}) and the rewriter ({v.value:#x})", construct=f"constant {k}")
                consts.setdefault(k, v.value)
    # rewriter: the test that sends a range to ranges_wo_utf32
    wo = None
    for n in walk_function_body(fx.node):
        if isinstance(n, ast.If) and any(isinstance(c, ast.Call) and dotted_of(c.func) == "ranges_wo_utf32.append" and c.args and dotted_of(c.args[0]) == "a_range" for s in n.body for c in ast.walk(s)):
            wo = n
            break
    ctx.require_anchor(wo is not None, "the rewriter classifies ranges into ranges_wo_utf32")
    # parser: the test inside the `[^` arm whose body returns an Error
    rej = None
    for n in walk_function_body(ps.node):
        if isinstance(n, ast.If) and any(isinstance(c, ast.Constant) and c.value == "[^" for c in ast.walk(n.test)):
            for m2 in ast.walk(n):
                if isinstance(m2, ast.If) and m2 is not n and "SUPPLEMENTARY" in ast.unparse(m2.test) and any(isinstance(r, ast.Return) for r in ast.walk(m2)):
                    rej = m2
    ctx.require_anchor(rej is not None, "the parser rejects complementing sets with ranges outside the BMP")
    S0 = consts.get("_SUPPLEMENTARY_PLANE_START")
    ctx.require_anchor(S0 is not None, "_SUPPLEMENTARY_PLANE_START is an integer constant")
    bad = None
    n = 0
    for start in (0x41, S0 - 1, S0, S0 + 1):
        for end in (None, S0 - 1, S0, S0 + 1, 0x10FFFF):
            if end is not None and end < start:
                continue
            env = {"start": start, "end": end}
            try:
                inside = _eval_pred(wo.test, env, consts)
                rejected = _eval_pred(rej.test, env, consts)
            except KeyError as ex:
                ctx.fail("COMPL-GUARD", ps, rej, f"the two predicates are not comparable ({ex})", construct="complement guard comparable")
                return
            n += 1
            if bool(rejected) == bool(inside) and bad is None:
                bad = (start, end, inside, rejected)
    if bad is None:
        ctx.ok("COMPL-GUARD", ps, rej, what=f"a complementing set is rejected exactly when the rewriter would find a range outside the BMP ({n} boundary samples around U+10000)")
    else:
        start, end, inside, rejected = bad
        rng = f"U+{start:04X}" + (f"-U+{end:04X}" if end is not None else "")
        ctx.fail("COMPL-GUARD", ps, rej,
                 f"for the range {rng} in a complementing set the parser {'rejects' if rejected else 'accepts'} while the rewriter classifies the range as "
                 f"{'inside' if inside else 'outside'} the BMP: an accepted pattern reaches the rewriter's assertion `should have been detected before`",
                 construct="complement guard agrees with the rewriter")


def _check_surrogate_precondition(ctx) -> None:
    """``_convert_to_surrogates`` requires a code point of a supplementary plane.  Every range appended to ranges_w_utf32 must
    start there: it is either appended under guards that imply `start >= U+10000`, or constructed with a constant start."""
    p = ctx.p
    fx = p.func("parse.retree._fix:_FixForUTF16Regex._expand_char_set_to_surrogates_if_necessary")
    from ..rules import schema as S

    parents = S.parents_of(fx)
    consts = {k: v.value for k, v in p.cls("parse.retree._fix:_FixForUTF16Regex").assigns.items() if isinstance(v, ast.Constant) and isinstance(v.value, int)}
    S0 = consts.get("_SUPPLEMENTARY_PLANE_START")
    ctx.require_anchor(S0 is not None, "_SUPPLEMENTARY_PLANE_START in the rewriter")
    apps = [c for c in ast.walk(fx.node) if isinstance(c, ast.Call) and dotted_of(c.func) == "ranges_w_utf32.append" and c.args]
    ctx.require_anchor(len(apps) >= 1, "ranges_w_utf32.append in the rewriter")
    for c in apps:
        arg = c.args[0]
        what = f"`{short(c, 60)}`: the range starts at or above U+10000"
        if isinstance(arg, ast.Name):
            guards = S.guards_of(c, parents)
            ok = True
            witness = None
            for start in (0x41, S0 - 1, S0, S0 + 1):
                for end in (None, S0 - 1, S0, S0 + 1, 0x10FFFF):
                    if end is not None and end < start:
                        continue
                    env = {"start": start, "end": end}
                    holds = True
                    for t, pol in guards:
                        try:
                            if bool(_eval_pred(t, env, consts)) != pol:
                                holds = False
                                break
                        except KeyError:
                            continue  # a guard about something else
                    if holds and start < S0:
                        ok = False
                        witness = (start, end)
            if ok:
                ctx.ok("PRE-SURR", fx, c, what=what + " (implied by the guards)")
            else:
                ctx.fail("PRE-SURR", fx, c, f"a range starting at U+{witness[0]:04X}" + (f" and ending at U+{witness[1]:04X}" if witness[1] is not None else "") + " reaches ranges_w_utf32; its start is then handed to _convert_to_surrogates, whose precondition requires U+10000..U+10FFFF: ViolationError instead of a rewritten pattern", construct="range below U+10000 among the astral ranges")
        elif isinstance(arg, ast.Call) and (dotted_of(arg.func) or "").endswith("Range"):
            st = next((k.value for k in arg.keywords if k.arg == "start"), None)
            txt = ast.unparse(st) if st is not None else ""
            if "_SUPPLEMENTARY_PLANE_START" in txt and "- 1" not in txt and "-1" not in txt:
                ctx.ok("PRE-SURR", fx, c, what=what + " (constructed at the plane start)")
            else:
                ctx.fail("PRE-SURR", fx, c, f"the constructed range starts at `{txt}`, not at the start of the supplementary planes", construct="constructed astral range start")
        else:
            ctx.fail("PRE-SURR", fx, c, "cannot see where the appended range starts", construct="astral range start unknown")
