"""C02 Generators never crash on accepted meta-models (DESIGN §4 C02)."""
from ..rules import err, exh, fmt, contract, exitcode, pre, anchor, attr, extparse
from ..scopes import in_generators, funcs, execute_functions

CLAIM = (
    "crash classes whose absence is visible in the code of the eight targets, infer_for_schema, smoke, yielding, naming: (1) no error "
    "value is dropped or its value used unchecked (ERR1-3; the verify_for_types result of every target main is read before the table is "
    "used), XOR-pair functions return exactly one of value/error; (2) every if/elif chain ending in assert_never covers all members of the "
    "scrutinee's declared type and every live enum-keyed dispatch table is total (a missing arm is an AssertionError/KeyError only on a "
    "shape no fixture has); (3) every execute() pairs its exit code with stderr/stdout on all paths (ERR4); (4) LenConstraint is only "
    "constructed under established `0 < min <= max` or with an unset bound (clean-path facts + zones); (5) numeric format specs and "
    "icontract lambdas are well-typed; (6) no attribute is read from a union-typed value when a member of the union lacks it (an "
    "AttributeError instead of an error report), with isinstance narrowing followed through and/or/not, conditional expressions, "
    "comprehension filters and asserts; (7) every call of an external parser on input-derived text is inside a try whose handler covers "
    "the parser's failures (Exception for third-party parsers without a documented closed set)."
)
NOTE = (
    "Trusted base: resolver, CFG, the XOR convention; assert_never chains whose scrutinee type cannot be resolved are skipped and counted. "
    "Not decided: crashes from value-dependent arithmetic, NotImplementedError/ValueError raised on purpose for unsupported shapes (see "
    "DESIGN.md), third-party code (greenery, xml.etree), memory/recursion."
)
TECHNIQUE = "static analysis: CFG dataflow for error values, type-directed exhaustiveness of assert_never chains and dispatch tables, precondition discharge with path facts and zones"


def run(ctx) -> None:
    p = ctx.p
    ctx.rule("ERR1", "error of a (value, error) pair read on every path (generators)", floor=400)
    ctx.rule("ERR1v", "value not used while its error is untested (generators)", floor=350)
    ctx.rule("ERR2", "no error-returning call is an expression statement (generators)", floor=120)
    ctx.rule("ERR3", "non-empty error accumulators are handed on (generators)", floor=100)
    ctx.rule("RET-XOR", "XOR-pair functions return exactly one of value/error at each return", floor=150)
    ctx.rule("EXH1", "assert_never chains cover the declared type of the scrutinee", floor=300)
    ctx.rule("EXH2", "live enum-keyed dispatch tables are total", floor=25)
    ctx.rule("ERR4", "exit code <-> stream pairing in the target mains and smoke", floor=50)
    ctx.rule("PRE-LEN", "LenConstraint precondition established at construction sites", floor=2)
    ctx.rule("FMT", "numeric format specs applied to numbers (generators)", floor=10)
    ctx.rule("ANCHOR-ATOMS", "patterns that make the regex-VM translator raise are rejected by the front end (same anchoring features)", floor=4)
    ctx.rule("REVM-PRE", "raising conditions of revm.transform_regex have an upstream guard", floor=2)
    ctx.rule("CONTRACT", "icontract lambdas well-typed (generators)", floor=3)
    ctx.rule("EXT-PARSE", "external parsers (greenery, json, ElementTree, minidom, re, docutils) run on input-derived text inside a handler that covers their failures", floor=6)
    ctx.rule("ATTR", "no attribute access on a union-typed value one of whose members lacks the attribute (short-circuit narrowing respected)", floor=400)
    for f in funcs(p, in_generators):
        err.check_err12(ctx, f, "ERR1", "ERR1v", "ERR2")
        err.check_err3(ctx, f, "ERR3")
        err.check_ret_xor(ctx, f, "RET-XOR")
        exh.check_exh1(ctx, f, "EXH1")
        fmt.check_format_specs(ctx, f, "FMT")
        contract.check_contract_lambdas(ctx, f, "CONTRACT")
        attr.check_attr(ctx, f, "ATTR")
        extparse.check_ext_parse(ctx, f, "EXT-PARSE")
    exh.check_enum_keyed_dicts(ctx, "EXH2", modules=in_generators)
    for f in execute_functions(p):
        if f.module.name != "aas_core_codegen.main":
            exitcode.check_exit_contract(ctx, f, "ERR4")
    pre.check_len_constraint_sites(ctx, "PRE-LEN", in_generators)
    anchor.check_anchor_agreement(ctx, "ANCHOR-ATOMS")
    ctx.rule("SHAPE-GUARD", "the front end rejects lists of optional items beneath a top-level Optional, which all generators assume (shared with C06)", floor=1)
    from .c06 import check_shape_guard
    check_shape_guard(ctx, "SHAPE-GUARD")
    from .c18 import _check_revm_preconditions
    _check_revm_preconditions(ctx)
