"""C13 XSD is valid and never rejects valid data (DESIGN §4 C13)."""
import ast
from typing import Dict, List, Optional, Set, Tuple

from ..flow import kwarg
from ..model import FuncInfo, dotted_of, short, walk_function_body
from ..rules import err, exh, seq
from ..rules import schema as S
from ..scopes import PKG

CLAIM = (
    "the structural clauses of `the XSD is valid and never rejects SDK output`: (1) PARSE-FIRST: a pattern handed to a regular-expression "
    "parser (parse_retree.parse, greenery.parse) is the constraint's unmodified pattern; regex-unaware rewriting of the pattern TEXT before "
    "the parse (re.finditer-based un-escaping) changes what the text means (an escaped metacharacter becomes live); (2) XSD-ESC: every "
    "escape the renderer can emit for the translated tree is one of XSD's single-character escapes (XML Schema Part 2, Appendix F), unless "
    "the translation clears it from the tree before rendering; (3) ANCHORS: the translation is parse -> anchor removal -> render on one "
    "tree, and the remover drops both ^ and $ and descends into what it keeps; (4) INTERSECT: several patterns are combined by "
    "intersection; (5) TYPE-MAP: the XSD type of each primitive type is the one whose lexical space the SDKs write; (6) errors are never "
    "dropped and chains over type annotations are exhaustive (ERR1-3, RET-XOR, EXH1) in xsd/main.py; (7) the renderer that writes the "
    "pattern agrees with the parser on every escape, escapes a leading caret of a set in all cases and emits the end of every range "
    "(ESC-TAB, RANGE-END, shared with C16); list sizes reach minOccurs/maxOccurs from the matching bound (OCCURS, shared with C14)."
    " SKIPS: the loops of the functions in scope have no more `continue`, `break` or in-loop `return` statements than the reference "
    "read on the unchanged tree (baselines/skips.json): a new skip means elements that were handled are no longer handled."
    " HEX-CLASS: the character classes for hexadecimal digits in the regular expressions that find \\x / \\u / \\U escapes admit both cases (regex AST from re._parser). ANCHOR-ATOMS (shared with C06): the front end accepts only patterns with one top-level alternative, first ^ and last $."
)
NOTE = (
    "Oracles: XSD single-character escapes `\\\\n \\\\r \\\\t \\\\\\\\ \\\\| \\\\. \\\\? \\\\* \\\\+ \\\\( \\\\) \\\\{ \\\\} \\\\- \\\\[ \\\\] \\\\^`; the five-row XSD type table. "
    "Not decided: validity of the whole schema document and the validation of concrete instances (runtime quantities of a validator); "
    "snippets of implementation-specific classes."
)
TECHNIQUE = "static analysis: def-use flow from the pattern parameter to the parser call, table extraction of the renderer's escapes compared with the XSD escape table, CFG must-pass-through for the translation stages, error-discipline typestate, type-directed exhaustiveness"

XM = f"{PKG}.xsd.main"
XSD_SINGLE_CHAR_ESCAPES = {"\\n", "\\r", "\\t", "\\\\", "\\|", "\\.", "\\?", "\\*", "\\+", "\\(", "\\)", "\\{", "\\}", "\\-", "\\[", "\\]", "\\^"}
TYPE_ORACLE = {"BOOL": "xs:boolean", "INT": "xs:long", "FLOAT": "xs:double", "STR": "xs:string", "BYTEARRAY": "xs:base64Binary"}
PARSERS = ("parse_retree.parse", "greenery.parse")


def run(ctx) -> None:
    ctx.rule("PARSE-FIRST", "the regex parser gets the unmodified pattern (no text-level rewriting before the parse)", floor=2)
    ctx.rule("XSD-ESC", "escapes the renderer can emit are XSD single-character escapes", floor=15)
    ctx.rule("ANCHORS", "parse -> anchor removal -> render on one tree; both anchors removed; recursion into kept terms", floor=4)
    ctx.rule("INTERSECT", "several patterns are intersected", floor=1)
    ctx.rule("TYPE-MAP", "XSD type of each primitive type", floor=5)
    ctx.rule("ERR1", "errors read", floor=8)
    ctx.rule("ERR1v", "values unused while error untested", floor=6)
    ctx.rule("ERR2", "no error-returning call dropped", floor=0)
    ctx.rule("ERR3", "collected errors returned", floor=2)
    ctx.rule("RET-XOR", "(value, error) results are exclusive", floor=5)
    ctx.rule("EXH1", "chains over type annotations / our types are exhaustive", floor=2)
    check_parse_first(ctx)
    check_xsd_escapes(ctx)
    check_anchors(ctx)
    check_intersect(ctx)
    check_type_map(ctx)
    # the renderer is what writes the XSD pattern: its agreement with the parser (escapes, range ends, leading caret) and the
    # list-size attributes are necessary for "accepts every string the meta-model pattern accepts" (shared with C16 / C14)
    ctx.rule("ESC-TAB", "renderer escape tables agree with the parser's escape arms; a leading caret is always escaped (shared with C16)", floor=25)
    ctx.rule("RANGE-END", "every branch of the renderer that emits the start of a range also emits its end (shared with C16)", floor=2)
    ctx.rule("OCCURS", "minOccurs/maxOccurs of list items come from min_value/max_value (shared with C14)", floor=3)
    from . import c14, c16
    c16._check_escape_tables(ctx)
    c16._check_range_end(ctx)
    c14.check_occurs(ctx)
    mod = ctx.p.module(XM)
    # the schema keyword `pattern` is a search; it agrees with the fully matching invariant only for patterns anchored as a whole,
    # which the front end enforces (shared with C06)
    ctx.rule("ANCHOR-ATOMS", "the front end accepts a pattern only with one top-level alternative, first ^ and last $ (shared with C06)", floor=4)
    from ..rules import anchor as _anchor
    _anchor.check_anchor_agreement(ctx, "ANCHOR-ATOMS")
    ctx.rule("HEX-CLASS", "the regular expressions that find \\x / \\u / \\U escapes admit hexadecimal digits of both cases", floor=4)
    from ..rules import asciire as _are
    _are.check_hex_classes(ctx, "HEX-CLASS", mod, 4)
    for f in mod.functions.values():
        err.check_err12(ctx, f, "ERR1", "ERR1v", "ERR2")
        err.check_err3(ctx, f, "ERR3")
        if err.has_xor_ensure(f):
            err.check_ret_xor(ctx, f, "RET-XOR")
        exh.check_exh1(ctx, f, "EXH1")
    ctx.rule("SKIPS", "the loops of the functions in scope have no more continue/break/return-in-loop statements than the reference read on the unchanged tree", floor=3)
    from ..rules import skips as _skips
    _base = _skips.load_baseline()
    for _m in ctx.p.modules.values():
        if _m.name == "aas_core_codegen.xsd.main":
            for _f in _m.functions.values():
                _skips.check_skips(ctx, _f, "SKIPS", _base)


def _assign_defs(f: FuncInfo) -> Dict[str, List[ast.Assign]]:
    out: Dict[str, List[ast.Assign]] = {}
    for n in walk_function_body(f.node):
        if isinstance(n, ast.Assign) and len(n.targets) == 1 and isinstance(n.targets[0], ast.Name):
            out.setdefault(n.targets[0].id, []).append(n)
    return out


def _is_text_rewrite(ctx, mod, call: ast.Call) -> Optional[str]:
    """Is ``call`` a function of this module that rewrites a pattern text with ``re`` / string operations?"""
    r = ctx.p.resolve_expr(mod, call.func)
    if r is None or r[0] != "func":
        return None
    g: FuncInfo = r[1]
    uses_re = any(isinstance(c, ast.Call) and (dotted_of(c.func) or "").startswith("re.") for c in ast.walk(g.node))
    str_ret = g.node.returns is not None and dotted_of(g.node.returns) == "str"
    if uses_re and str_ret:
        return g.name
    return None


def check_parse_first(ctx) -> None:
    p = ctx.p
    mod = p.module(XM)
    n_sites = 0
    for f in mod.functions.values():
        defs = _assign_defs(f)
        for call in [n for n in walk_function_body(f.node) if isinstance(n, ast.Call) and dotted_of(n.func) in PARSERS]:
            n_sites += 1
            arg = kwarg(call, "values", 0)
            if isinstance(arg, ast.List) and len(arg.elts) == 1:
                arg = arg.elts[0]
            what = f"{f.name}: argument of {dotted_of(call.func)}"
            # trace the argument back through assignments that precede the call
            rewrites: List[Tuple[str, ast.AST]] = []
            seen: Set[str] = set()
            cur = arg
            depth = 0
            while cur is not None and depth < 6:
                depth += 1
                if isinstance(cur, ast.Call):
                    name = _is_text_rewrite(ctx, mod, cur)
                    if name is not None:
                        rewrites.append((name, cur))
                    if dotted_of(cur.func) == "str" and cur.args:
                        cur = cur.args[0]
                        continue
                    cur = cur.args[0] if cur.args and name is not None else None
                    continue
                if isinstance(cur, ast.Name):
                    prev = [a for a in defs.get(cur.id, []) if a.lineno < call.lineno]
                    if not prev or cur.id in seen:
                        break
                    seen.add(cur.id)
                    cur = prev[-1].value
                    continue
                break
            if rewrites:
                name, node = rewrites[0]
                ctx.fail("PARSE-FIRST", f, call,
                         f"the text given to {dotted_of(call.func)} went through `{name}` first, which rewrites escapes with a regular expression over the "
                         f"pattern TEXT: `\\x2a` becomes a live `*`, `\\x24` a live `$`, `\\x5d` closes a character class - the parsed pattern is "
                         f"not the meta-model's pattern", construct=f"{what} rewritten by {name}")
            else:
                ctx.ok("PARSE-FIRST", f, call, what=what + " is the unmodified pattern")
    ctx.require_anchor(n_sites >= 2, "parse_retree.parse and greenery.parse are called in xsd/main.py")


def check_xsd_escapes(ctx) -> None:
    p = ctx.p
    rc = p.cls("parse.retree._render:Renderer")
    tr = p.func("xsd.main:_translate_pattern")
    # does the translation clear explicit encodings before rendering?
    clears_encoding = False
    for c in ast.walk(tr.node):
        if isinstance(c, ast.Call):
            r = p.resolve_expr(p.module(XM), c.func)
            if r is not None and r[0] == "class":
                for m in r[1].methods.values():
                    for n in ast.walk(m.node):
                        if isinstance(n, ast.Assign) and isinstance(n.targets[0], ast.Attribute) and n.targets[0].attr == "explicitly_encoded" \
                                and isinstance(n.value, ast.Constant) and n.value.value is False:
                            clears_encoding = True
    n = 0
    for tname in ("_ESCAPING_IN_CHARACTER_LITERALS", "_ESCAPING_IN_RANGE"):
        table = rc.assigns.get(tname)
        ctx.require_anchor(isinstance(table, ast.Dict), f"Renderer.{tname} is a dict literal")
        for k, v in zip(table.keys, table.values):
            if not (isinstance(k, ast.Constant) and isinstance(v, ast.Constant)):
                continue
            n += 1
            esc = v.value
            what = f"{tname}[{k.value!r}] = {esc!r}"
            if esc in XSD_SINGLE_CHAR_ESCAPES or not esc.startswith("\\"):
                ctx.ok("XSD-ESC", tr, None, what=what + " is an XSD escape")
            else:
                ctx.fail("XSD-ESC", tr, tr.node,
                         f"the renderer escapes {k.value!r} as `{esc}` ({tname}), which is not a single-character escape of XSD regular expressions "
                         f"(XML Schema Part 2, F.1); _translate_pattern renders with these tables unchanged",
                         construct=f"escape {esc} of {k.value!r}")
    ctx.require_anchor(n >= 20, "renderer escape tables have at least 20 entries")
    # numeric escapes for explicitly encoded characters
    enc = p.func("parse.retree._render:Renderer.char_to_str_and_escape_or_encode_if_necessary")
    shapes = []
    for j in [x for x in ast.walk(enc.node) if isinstance(x, ast.JoinedStr)]:
        lit = "".join(str(v.value) for v in j.values if isinstance(v, ast.Constant))
        if lit.startswith("\\"):
            shapes.append(lit + "HH")
    if any(isinstance(c, ast.Constant) and c.value == "unicode_escape" for c in ast.walk(enc.node)):
        shapes.append("\\uHHHH / \\UHHHHHHHH")
    ctx.require_anchor(len(shapes) >= 2, "the renderer encodes explicitly encoded characters numerically")
    for sh in shapes:
        what = f"numeric escape {sh} for explicitly encoded characters"
        if clears_encoding:
            ctx.ok("XSD-ESC", tr, None, what=what + ": cleared from the tree before rendering")
        else:
            ctx.fail("XSD-ESC", tr, tr.node,
                     f"a character written as \\u/\\U (or re-encoded by the parser) stays `explicitly_encoded` in the tree and is rendered as `{sh}`; "
                     f"XSD regular expressions have no such escape, and _translate_pattern does not clear the flag before rendering",
                     construct=what)


def check_anchors(ctx) -> None:
    p = ctx.p
    tr = p.func("xsd.main:_translate_pattern")
    seq.check_sequence(ctx, tr, "ANCHORS", ["parse", "visit", "render"], seq.returns_value_none, "_translate_pattern: ")
    # one tree
    defs = _assign_defs(tr)
    parse_assign = [a for n in walk_function_body(tr.node) if isinstance(n, ast.Assign) and isinstance(n.value, ast.Call) and dotted_of(n.value.func) == "parse_retree.parse" for a in [n]]
    ctx.require_anchor(len(parse_assign) == 1 and isinstance(parse_assign[0].targets[0], ast.Tuple), "parsed, error = parse_retree.parse(...)")
    tree = dotted_of(parse_assign[0].targets[0].elts[0])
    visited = [c for c in ast.walk(tr.node) if isinstance(c, ast.Call) and isinstance(c.func, ast.Attribute) and c.func.attr == "visit"]
    rendered = [c for c in ast.walk(tr.node) if isinstance(c, ast.Call) and dotted_of(c.func) == "parse_retree.render"]
    ok_tree = bool(visited) and bool(rendered) and all(c.args and dotted_of(c.args[0]) == tree for c in visited) and all(dotted_of(kwarg(c, "regex", 0)) == tree for c in rendered)
    if ok_tree:
        ctx.ok("ANCHORS", tr, parse_assign[0], what=f"anchor removal and rendering act on the parsed tree `{tree}`")
    else:
        ctx.fail("ANCHORS", tr, parse_assign[0], f"anchor removal / rendering do not act on the parsed tree `{tree}`", construct="one tree")
    # the visitor used is the anchor remover
    rem_vars = {name for name, ds in defs.items() for d in ds if isinstance(d.value, ast.Call) and dotted_of(d.value.func) == "_AnchorRemover"}
    if visited and all(dotted_of(c.func.value) in rem_vars for c in visited):
        ctx.ok("ANCHORS", tr, visited[0], what="the visitor is _AnchorRemover")
    else:
        ctx.fail("ANCHORS", tr, tr.node, "the tree is not visited by an _AnchorRemover before rendering: ^ and $ stay in the XSD pattern, where they are ordinary characters", construct="anchor remover applied")
    rm = p.func("xsd.main:_AnchorRemover.visit_concatenation")
    kinds = {(dotted_of(e) or "").split(".")[-1] for n in ast.walk(rm.node) if isinstance(n, ast.Compare) and isinstance(n.ops[0], ast.In) for e in getattr(n.comparators[0], "elts", [])}
    if kinds == {"START", "END"}:
        ctx.ok("ANCHORS", rm, rm.node, what="both START and END symbols are dropped")
    else:
        ctx.fail("ANCHORS", rm, rm.node, f"the remover drops {sorted(kinds)}, not exactly START and END", construct="anchor kinds")
    stores = [n for n in ast.walk(rm.node) if isinstance(n, ast.Assign) and isinstance(n.targets[0], ast.Attribute) and n.targets[0].attr == "concatenants"]
    recur = [c for c in ast.walk(rm.node) if isinstance(c, ast.Call) and dotted_of(c.func) == "self.visit"]
    if stores and recur:
        ctx.ok("ANCHORS", rm, stores[0], what="the filtered list replaces node.concatenants and the kept terms are visited (anchors inside groups)")
    else:
        ctx.fail("ANCHORS", rm, rm.node, "the remover does not store the filtered terms or does not descend into them: anchors inside groups survive", construct="anchor recursion")


def check_intersect(ctx) -> None:
    f = ctx.p.func("xsd.main:_translate_to_simple_type")
    ops = [n for n in walk_function_body(f.node) if isinstance(n, ast.BinOp) and any(dotted_of(x) == "merger" for x in (n.left, n.right))]
    ctx.require_anchor(len(ops) >= 1, "merger combined with the next parsed pattern")
    for o in ops:
        if isinstance(o.op, ast.BitAnd):
            ctx.ok("INTERSECT", f, o, what="merger & parsed (intersection of the languages)")
        else:
            ctx.fail("INTERSECT", f, o, f"several patterns are combined with `{type(o.op).__name__}`; a value must satisfy ALL patterns, i.e. the intersection", construct="pattern combination")


def check_type_map(ctx) -> None:
    mod = ctx.p.module(XM)
    table = mod.constants.get("_PRIMITIVE_MAP")
    ctx.require_anchor(isinstance(table, ast.Dict), "_PRIMITIVE_MAP is a dict literal")
    got = {(dotted_of(k) or "").split(".")[-1]: (v.value if isinstance(v, ast.Constant) else None) for k, v in zip(table.keys, table.values)}
    for prim, want in TYPE_ORACLE.items():
        if got.get(prim) == want:
            ctx.ok("TYPE-MAP", mod, table, what=f"{prim} -> {want}")
        else:
            ctx.fail("TYPE-MAP", mod, table, f"PrimitiveType.{prim} is declared as {got.get(prim)!r}; the SDKs write the lexical form of {want}", construct=f"{prim} -> {got.get(prim)!r}")
