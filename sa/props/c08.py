"""C08 Generated Python verification implements the invariants exactly (DESIGN §4 C08)."""
import ast

from ..flow import find_calls
from ..model import dotted_of, short
from ..rules import err, exh, fld, transp

CLAIM = (
    "(1) Python-ast -> tree rules (parse/_rules.py): once a rule has established the ast node kind of a value, every semantic field of "
    "that kind is read (translated or rejected) - e.g. the `if` filters of a generator in any/all; _AST_COMPARATOR_TO_OURS maps each "
    "ast comparison to the like-named Comparator; (2) the Python transpiler maps each Comparator to its Python operator and looks the "
    "operator up by node.op; transform_and/or/not emit only their own connective; transform_implication negates the antecedent and "
    "joins with `or` the un-negated consequent, in that order; add/sub emit + and -; the Python Transpiler implements every node kind; "
    "(3) the invariant description reaches the generated Error through wrap_text_into_lines and string_literal, all segments emitted; "
    "(4) no error of the transpilation is dropped (ERR1-3 over python/transpilation.py and python/lib/_generate_verification.py)."
    " ENCLOSE (shared with C19/C20): the literal parts of a Python f-string are escaped for the one quote character that encloses the joined text."
)
NOTE = (
    "Trusted base: Python's own ast._fields (the grammar) for (1); the operator oracle table. Not decided: that verification reports "
    "exactly when the invariant is false - the run-time semantics of the emitted code."
)
TECHNIQUE = "static analysis: field-consumption check against the ast grammar, table agreement with an operator oracle, template-shape analysis of the connective handlers"

AST_FIELD_EXCEPTIONS = {}


def run(ctx) -> None:
    p = ctx.p
    ctx.rule("FLD", "parse rules read every semantic field of the ast node kinds they establish", floor=40)
    ctx.rule("CMP-TAB", "_AST_COMPARATOR_TO_OURS maps ast.X to the like-named Comparator", floor=6)
    ctx.rule("OPS", "Python comparison map equals the operator oracle and is used by transform_comparison", floor=7)
    ctx.rule("CONN", "connective handlers emit their own connective; implication = not antecedent or consequent", floor=7)
    ctx.rule("EXH3", "the Python Transpiler implements every node kind", floor=1)
    ctx.rule("PAREN", "an operand is emitted without parentheses only on paths where its own node kind was tested", floor=4)
    ctx.rule("REFLOW", "line-broken variants of a template carry the same holes and text as the one-line form (Python generators)", floor=5)
    ctx.rule("DESC", "invariant descriptions go through wrap_text_into_lines + string_literal, all segments emitted", floor=1)
    ctx.rule("ERR1", "transpilation errors read", floor=12)
    ctx.rule("ERR1v", "values unused while error untested", floor=10)
    ctx.rule("ERR2", "no error-returning call dropped", floor=0)
    ctx.rule("ERR3", "collected errors returned", floor=5)
    rules = p.module("parse._rules")
    for ci in rules.classes.values():
        if ci.name.startswith("_Parse"):
            fld.check_ast_fields(ctx, ci, "FLD", AST_FIELD_EXCEPTIONS)
    tab = rules.constants.get("_AST_COMPARATOR_TO_OURS")
    ctx.require_anchor(isinstance(tab, ast.Dict), "parse._rules._AST_COMPARATOR_TO_OURS is a dict display")
    want = {"Lt": "LT", "LtE": "LE", "Gt": "GT", "GtE": "GE", "Eq": "EQ", "NotEq": "NE"}
    seen = set()
    for k, v in zip(tab.keys, tab.values):
        a, b = (dotted_of(k) or "").split(".")[-1], (dotted_of(v) or "").split(".")[-1]
        seen.add(a)
        if want.get(a) == b:
            ctx.ok("CMP-TAB", rules, tab, what=f"ast.{a} -> Comparator.{b}")
        else:
            ctx.fail("CMP-TAB", rules, tab, f"_AST_COMPARATOR_TO_OURS maps ast.{a} to Comparator.{b}; it must be Comparator.{want.get(a, '?')}: the comparison is silently turned into another one", construct=f"ast.{a} mapping")
    if set(want) - seen:
        ctx.fail("CMP-TAB", rules, tab, f"_AST_COMPARATOR_TO_OURS lacks {sorted(set(want) - seen)}", construct="comparator keys")
    transp.check_ops(ctx, "python", "OPS")
    transp.check_connectives(ctx, "python", "CONN")
    _check_transpiler_complete(ctx, "python", "EXH3")
    transp.check_parentheses(ctx, "python", "PAREN")
    transp.check_bare_kinds(ctx, "python", "PAREN")
    # formatted strings: the literal parts of the Python f-string (shared with C09)
    ctx.rule("JOINED", "python: literal parts of a formatted string are escaped for the f-string syntax, exactly once (shared with C09)", floor=2)
    from . import c09 as _c09
    _c09._check_joined_str(ctx, "python")
    ctx.rule("ENCLOSE", "a literal emitted without its quotes is escaped for the quote the caller encloses it with (shared with C19/C20)", floor=2)
    from ..rules import litkw as _litkw
    _litkw.check_enclosing_agreement(ctx, "ENCLOSE")
    for m in p.modules.values():
        if m.name.startswith("aas_core_codegen.python"):
            for f in m.functions.values():
                transp.check_reflow(ctx, f, "REFLOW")
    _check_description_flow(ctx, "python", "DESC")
    for modname in ("python.transpilation", "python.lib._generate_verification"):
        for f in p.module(modname).functions.values():
            err.check_err12(ctx, f, "ERR1", "ERR1v", "ERR2")
            err.check_err3(ctx, f, "ERR3")


def _check_transpiler_complete(ctx, target: str, rule: str) -> None:
    p = ctx.p
    base = p.cls("parse.tree:Transformer")
    required = sorted(n for n in base.methods if n.startswith("transform_"))
    ci = transp.transpiler_class(ctx, target)
    missing = []
    for name in required:
        impl = p.find_method(ci, name)
        if impl is None or impl.cls is None or impl.cls.name == "Transformer":
            missing.append(name)
    where = (ci.module.relpath, ci.qualname)
    if missing:
        ctx.fail(rule, where, ci.node, f"the {target} Transpiler has no handler for {', '.join(missing)}", construct=f"{target}: Transpiler handlers")
    else:
        ctx.ok(rule, where, ci.node, what=f"{target}: Transpiler handles all {len(required)} node kinds")


def _check_description_flow(ctx, target: str, rule: str) -> None:
    """In <target>/lib/_generate_verification.py: the text of invariant.description is
    wrapped by wrap_text_into_lines and every line is emitted through string_literal."""
    p = ctx.p
    m = p.module(f"{target}.lib._generate_verification")
    n_sites = 0
    for f in m.functions.values():
        for call in find_calls(f.node, lambda c: (dotted_of(c.func) or "").split(".")[-1] == "wrap_text_into_lines"):
            arg = call.args[0] if call.args else None
            if arg is None or "description" not in ast.unparse(arg):
                continue
            n_sites += 1
            # the result is iterated completely and each element passes string_literal
            tgt = None
            for a in ast.walk(f.node):
                if isinstance(a, ast.Assign) and a.value is call and isinstance(a.targets[0], ast.Name):
                    tgt = a.targets[0].id
            ok = False
            if tgt is not None:
                for n in ast.walk(f.node):
                    it = None
                    if isinstance(n, (ast.For, ast.comprehension)):
                        it = n.iter
                    if it is not None and any(isinstance(x, ast.Name) and x.id == tgt for x in ast.walk(it)) and not any(isinstance(x, ast.Subscript) for x in ast.walk(it)):
                        scope = n if isinstance(n, ast.For) else None
                        body_nodes = ast.walk(scope) if scope is not None else ast.walk(f.node)
                        if any(isinstance(c, ast.Call) and (dotted_of(c.func) or "").split(".")[-1].endswith("string_literal") for c in body_nodes):
                            ok = True
            else:
                # inline: for line in wrap_text_into_lines(...)
                for n in ast.walk(f.node):
                    if isinstance(n, (ast.For, ast.comprehension)) and any(x is call for x in ast.walk(n.iter)):
                        ok = any(isinstance(c, ast.Call) and (dotted_of(c.func) or "").split(".")[-1].endswith("string_literal") for c in ast.walk(f.node))
            what = f"{target}: {f.qualname}: description -> wrap_text_into_lines -> string_literal per line"
            if ok:
                ctx.ok(rule, f, call, what=what)
            else:
                ctx.fail(rule, f, call, "the lines of the wrapped invariant description are not all emitted through string_literal (the message in the generated Error is not the description verbatim)", construct=what)
    ctx.require_anchor(n_sites >= 1, f"{target}: invariant descriptions are wrapped with wrap_text_into_lines")
