"""C24 Model cache survives crashes and concurrent runs (DESIGN §4 C24)."""
import ast

from ..flow import artefacts, calls_in, kwarg
from ..model import dotted_of, short
from ..rules import own

CLAIM = (
    "the shape of the write-temp-then-rename protocol in run.load_model: (1) the cache entry is created by nothing but "
    "tmp_path.rename(cache_path) (no open-for-write, write_*, dump into a handle of cache_path); (2) tmp_path is data-dependent on a "
    "uniqueness source (uuid) and lives in cache_path's directory; (3) the rename is outside and after the `with` block that dumps, "
    "and the dump dominates it; (4) a `finally` of the enclosing try unlinks tmp_path with missing_ok=True; (5) the reader opens only "
    "cache_path, read-only, under an existence test, and the directory is created with exist_ok=True."
    " KEY (shared with C23): the entry is named by the temp dir, the package version and the full sha256 of the text that is parsed, so a run never reads an entry of another model text or another release. A load_model that publishes without renaming a temporary file is reported as a PROTO violation."
)
NOTE = (
    "Assumes POSIX rename atomicity within one file system and uuid4 uniqueness; given those, (1)-(5) imply that readers never see "
    "a partial or foreign entry. Not decided: the interleaving/crash semantics themselves (that is model checking, another family)."
)
TECHNIQUE = "static analysis: effect enumeration + data origins + dominance/ordering on the CFG of run.load_model"


def run(ctx) -> None:
    p = ctx.p
    ctx.rule("PROTO", "write-temp-then-rename protocol shape in run.load_model", floor=8)
    ctx.rule("KEY", "the entry is named by temp dir, package version and the full sha256 of the text that is parsed: no foreign entry (shared with C23)", floor=3)
    from . import c23 as _c23
    _c23.check_key(ctx, "KEY")
    f = p.func("run:load_model")
    art = artefacts(ctx.ty, f)
    cfg = art.cfg
    defs = own.local_defs(f)
    effs = list(own.effects_in(f))
    node_of = {}
    for node in cfg.nodes:
        for c in calls_in(node):
            node_of[id(c)] = node
    dom = cfg.dominators()

    def tgt_name(e):
        return dotted_of(e.target) if e.target is not None else None

    # (1) creators of cache_path
    renames = [e for e in effs if e.op in ("rename", "replace")]
    if not renames:
        ctx.fail("PROTO", f, f.node, "load_model publishes the cache entry without renaming a temporary file: a crash or a concurrent reader can observe a partially written entry under the published name", construct="publish by rename")
    for e in effs:
        if e.kind != "write":
            continue
        t = tgt_name(e)
        if e.op in ("rename", "replace"):
            dst = e.call.args[0] if e.call.args else kwarg(e.call, "target")
            if t != "cache_path" and dst is not None and dotted_of(dst) == "cache_path":
                ctx.ok("PROTO", f, e.call, what="cache entry created by rename(tmp -> cache_path)")
            else:
                ctx.fail("PROTO", f, e.call, f"`{short(e.call)}` is not a rename of the temporary file onto cache_path", construct="rename onto cache_path")
        elif t == "cache_path" or (e.op.startswith("pickle") and "call:cache_path.open" in own.origins(f, e.target, defs) and "call:tmp_path.open" not in own.origins(f, e.target, defs)):
            ctx.fail("PROTO", f, e.call, f"`{short(e.call)}` writes the cache entry in place: a concurrent or crashed run exposes a partial file", construct=f"in-place write {e.op} on cache_path")
    # dump goes to a handle opened from tmp_path for writing
    dumps = [e for e in effs if e.op == "pickle.dump"]
    ctx.require_anchor(len(dumps) == 1, "load_model has one pickle.dump")
    dump = dumps[0]
    dump_node = node_of[id(dump.call)]
    with_stmt = _enclosing_with(f.node, dump.call)
    ok_handle = False
    if with_stmt is not None:
        for item in with_stmt.items:
            ce = item.context_expr
            if (isinstance(ce, ast.Call) and dotted_of(ce.func) == "tmp_path.open" and item.optional_vars is not None
                    and dump.target is not None and dotted_of(item.optional_vars) == dotted_of(dump.target)):
                mode = ce.args[0].value if ce.args and isinstance(ce.args[0], ast.Constant) else None
                ok_handle = mode in ("wb", "xb")
    if ok_handle:
        ctx.ok("PROTO", f, dump.call, what="pickle.dump writes into `with tmp_path.open('wb')`")
    else:
        ctx.fail("PROTO", f, dump.call, "pickle.dump does not write into a handle of tmp_path opened in a `with` block", construct="dump target")

    # (2) tmp_path uniqueness and directory
    og = own.origins(f, ast.Name(id="tmp_path", ctx=ast.Load()), defs)
    uniq = any(o in ("call:uuid.uuid4", "call:uuid.uuid1", "call:tempfile.mkstemp", "call:secrets.token_hex") for o in og)
    same_dir = any(o in ("call:cache_path.with_suffix", "call:cache_path.with_name", "<cache_path>.parent", "call:cache_path.parent.joinpath") for o in og)
    if uniq and same_dir:
        ctx.ok("PROTO", f, f.node, what="tmp_path <- cache_path sibling + uuid")
    else:
        ctx.fail("PROTO", f, f.node, ("tmp_path is not unique per run" if not uniq else "tmp_path is not a sibling of cache_path (rename may cross file systems)") + f" (origins {sorted(og)})", construct="tmp_path origin")

    # (3) ordering
    if not renames:
        return  # already reported: nothing is published by rename
    ren = renames[0]
    ren_node = node_of[id(ren.call)]
    inside_with = with_stmt is not None and any(n is ren.call for n in ast.walk(with_stmt))
    if inside_with:
        ctx.fail("PROTO", f, ren.call, "the rename happens inside the `with` that writes the temporary file: the file is renamed before it is flushed and closed", construct="rename inside with")
    elif dump_node.id in dom.get(ren_node.id, set()):
        ctx.ok("PROTO", f, ren.call, what="dump dominates rename; rename is after the with block")
    else:
        ctx.fail("PROTO", f, ren.call, "a path reaches the rename without passing through the dump", construct="rename not dominated by dump")

    # (4) finally unlinks
    try_stmt = _enclosing_try(f.node, ren.call)
    good = False
    if try_stmt is not None and try_stmt.finalbody:
        for n in ast.walk(ast.Module(body=try_stmt.finalbody, type_ignores=[])):
            if isinstance(n, ast.Call) and dotted_of(n.func) == "tmp_path.unlink":
                mo = kwarg(n, "missing_ok", 0)
                if isinstance(mo, ast.Constant) and mo.value is True:
                    good = True
        covers = with_stmt is not None and any(n is with_stmt for n in ast.walk(try_stmt))
        good = good and covers
    if good:
        ctx.ok("PROTO", f, try_stmt, what="finally: tmp_path.unlink(missing_ok=True) covers open/dump/rename")
    else:
        ctx.fail("PROTO", f, ren.call, "no `finally` that unlinks tmp_path with missing_ok=True around the open/dump/rename: a failure leaves a stray temporary file or the cleanup itself raises", construct="finally unlink")

    # (5) reader
    loads_ = [e for e in effs if e.op == "pickle.load"]
    ctx.require_anchor(len(loads_) == 1, "load_model has one pickle.load")
    ld = loads_[0]
    w = _enclosing_with(f.node, ld.call)
    ok_reader = False
    if w is not None:
        for item in w.items:
            ce = item.context_expr
            if isinstance(ce, ast.Call) and dotted_of(ce.func) == "cache_path.open" and item.optional_vars is not None and dotted_of(item.optional_vars) == dotted_of(ld.target):
                mode = ce.args[0].value if ce.args and isinstance(ce.args[0], ast.Constant) else "r"
                ok_reader = mode == "rb"
    if ok_reader:
        ctx.ok("PROTO", f, ld.call, what="reader: pickle.load from `with cache_path.open('rb')`")
    else:
        ctx.fail("PROTO", f, ld.call, "the reader does not load from cache_path opened read-only", construct="reader handle")
    ld_node = node_of[id(ld.call)]
    exists_nodes = [n for n in cfg.nodes if n.kind == "test" and n.expr is not None and isinstance(n.expr, ast.Call) and dotted_of(n.expr.func) == "cache_path.exists"]
    if exists_nodes and any(n.id in dom.get(ld_node.id, set()) for n in exists_nodes):
        ctx.ok("PROTO", f, ld.call, what="reader dominated by cache_path.exists()")
    else:
        ctx.fail("PROTO", f, ld.call, "the reader is not guarded by cache_path.exists()", construct="reader guard")
    mk = [e for e in effs if e.op == "mkdir"]
    for e in mk:
        eo = kwarg(e.call, "exist_ok")
        pa = kwarg(e.call, "parents")
        if isinstance(eo, ast.Constant) and eo.value is True and isinstance(pa, ast.Constant) and pa.value is True:
            ctx.ok("PROTO", f, e.call, what="cache dir mkdir(parents=True, exist_ok=True)")
        else:
            ctx.fail("PROTO", f, e.call, "the cache directory is created without exist_ok=True/parents=True: two concurrent runs race on mkdir", construct="mkdir flags")


def _enclosing_with(func_node, call):
    best = None
    for n in ast.walk(func_node):
        if isinstance(n, ast.With) and any(c is call for c in ast.walk(ast.Module(body=n.body, type_ignores=[]))):
            if best is None or n.lineno >= best.lineno:
                best = n
    return best


def _enclosing_try(func_node, call):
    best = None
    for n in ast.walk(func_node):
        if isinstance(n, ast.Try) and any(c is call for c in ast.walk(ast.Module(body=n.body, type_ignores=[]))):
            if best is None or n.lineno >= best.lineno:
                best = n
    return best
