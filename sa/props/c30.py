"""C30 Generated constants and enumerations match the meta-model (DESIGN §4 C30)."""
import ast
from typing import Dict, List, Optional, Set, Tuple

from ..model import FuncInfo, dotted_of, short, walk_function_body
from ..rules import err, exh, gen
from ..rules import schema as S
from ..scopes import PKG

CLAIM = (
    "in this code base `superset_of` is a verified declaration, not a union (a constant set is exactly its listed literals, and the "
    "front end checks that they include every declared subset). Decided: (1) SUBSET: both _resolve_subsets_in_constant_set_of_* test "
    "every literal of every declared subset for membership in the superset and turn a failure (as well as a missing subset, a subset of "
    "another kind, primitive type or enumeration) into an Error that is returned; the second pass stores the resolved subsets only on the "
    "error-free arm and hands the errors on (ERR1-3); (2) ALL-LITERALS: the Python generators of constant sets, of the enumerations and "
    "of the string conversion iterate every element of `.literals`; (3) VALUE-FN: per primitive type the constant generators emit the "
    "value through the literal form that denotes it (`True`/`False`, str() of an int or float, string_literal, bytes_literal), the "
    "enumeration generator through repr() of the value; (4) ENUM-RT: the enumeration member and the from-string map are built from the "
    "same pair (enum_literal_name(literal.name), literal.value), so to-string followed by from-string is the identity and other texts "
    "miss the map; (5) the dispatch over the kinds of constants is exhaustive (EXH1)."
    " SKIPS: the loops of the functions in scope have no more `continue`, `break` or in-loop `return` statements than the reference "
    "read on the unchanged tree (baselines/skips.json): a new skip means elements that were handled are no longer handled."
    " LIT-KW: duplicate_curly_brackets / in_backticks / without_enclosing are passed to a literal function only inside "
    "transform_joined_str (a stand-alone literal emitted with them denotes another text)."
    " ARG-USED: in the meta-model parser every optional argument node (locals typed Optional[ast.X] that start as None) is, on every CFG path to a successful return, either known to be None or read by more than a type/None test - an argument of constant_set(...) that is present but of an unexpected node kind is rejected, not ignored."
)
NOTE = (
    "Shared with C19: the CHR rule is run here on python string_literal (it decides that the literal denotes its argument). Not decided: the run-time values of the generated "
    "module. str() of a float that is inf/nan is not a Python literal; such constants cannot be written in the meta-model subset."
)
TECHNIQUE = "static analysis: loop/guard coverage of the verification functions, error-discipline typestate, per-arm literal-function table, sibling agreement of the enumeration generators"

TR = "intermediate._translate"
PC = "python.lib._generate_constants"
PS = "python.lib._generate_stringification"
PT = "python.lib._generate_types"

VALUE_FN = {
    "BOOL": {"'True' if V else 'False'"},
    "INT": {"str(V)", "repr(V)"},
    "FLOAT": {"str(V)", "repr(V)"},
    "STR": {"python_common.string_literal(V)"},
    "BYTEARRAY": {"python_common.bytes_literal(value=V)", "python_common.bytes_literal(V)", "python_common.bytes_literal(bytes(V))", "python_common.bytes_literal(value=bytes(V))"},
}


def run(ctx) -> None:
    p = ctx.p
    ctx.rule("SUBSET", "every literal of every declared subset is membership-tested; failures become returned errors", floor=8)
    ctx.rule("ERR1", "subset errors read", floor=2)
    ctx.rule("ERR1v", "values unused while error untested", floor=2)
    ctx.rule("ERR2", "no error-returning call dropped", floor=0)
    ctx.rule("ERR3", "collected errors returned", floor=3)
    ctx.rule("ALL-LITERALS", "generators iterate every literal", floor=6)
    ctx.rule("VALUE-FN", "per primitive type the value is emitted through the literal form that denotes it", floor=10)
    ctx.rule("ENUM-RT", "enumeration members and the from-string map use the same (name, value) pair", floor=3)
    ctx.rule("EXH1", "dispatch over constant kinds / primitive types exhaustive", floor=3)
    for name, member in (("_resolve_subsets_in_constant_set_of_primitives", "literal_value_set"), ("_resolve_subsets_in_constant_set_of_enumeration_literals", "literal_id_set")):
        f = p.func(f"{TR}:{name}")
        parents = S.parents_of(f)
        outer = gen.check_full_iteration(ctx, "SUBSET", f, "subsets", name, allowed_skip_tests=("maybe_subset is None", "not isinstance(maybe_subset, ConstantSetOfPrimitives)", "not isinstance(maybe_subset, ConstantSetOfEnumerationLiterals)", "maybe_subset.a_type is not constant_set.a_type", "maybe_subset.enumeration is not constant_set.enumeration"))
        # each skip is preceded by an error append
        for sk in [x for x in walk_function_body(f.node) if isinstance(x, ast.Continue)]:
            blk = parents[id(sk)]
            body = getattr(blk, "body", [])
            if any(isinstance(s, ast.Expr) and isinstance(s.value, ast.Call) and dotted_of(s.value.func) == "errors.append" for s in body):
                ctx.ok("SUBSET", f, sk, what=f"{name}: `continue` at line {sk.lineno} follows an errors.append", nontrivial=False)
            else:
                ctx.fail("SUBSET", f, sk, "a declared subset is skipped without an error", construct=f"{name}: silent skip")
        inner = [n for n in walk_function_body(f.node) if isinstance(n, ast.For) and ast.unparse(n.iter) == "maybe_subset.literals"]
        ok_inner = False
        if inner:
            tests = [n for n in ast.walk(inner[0]) if isinstance(n, ast.If) and isinstance(n.test, ast.Compare) and isinstance(n.test.ops[0], ast.NotIn) and ast.unparse(n.test.comparators[0]) == f"constant_set.{member}"]
            if tests and any(isinstance(s, ast.Expr) and isinstance(s.value, ast.Call) and dotted_of(s.value.func) == "errors.append" for s in tests[0].body):
                left = ast.unparse(tests[0].test.left)
                if left in ("literal.value", "id(literal)"):
                    ok_inner = True
        if ok_inner:
            ctx.ok("SUBSET", f, inner[0], what=f"{name}: every literal of the subset is tested `not in constant_set.{member}` and reported")
        else:
            ctx.fail("SUBSET", f, f.node, f"{name} does not test every literal of a declared subset for membership in constant_set.{member} (or does not report it): a set that lacks literals of its declared subset is accepted", construct=f"{name}: membership test")
        app = [n for n in walk_function_body(f.node) if isinstance(n, ast.Call) and dotted_of(n.func) == "subsets.append"]
        if app and dotted_of(app[0].args[0]) == "maybe_subset":
            ctx.ok("SUBSET", f, app[0], what=f"{name}: the resolved subset is collected")
        else:
            ctx.fail("SUBSET", f, f.node, "the resolved subset is not collected", construct=f"{name}: subsets.append")
        err.check_err3(ctx, f, "ERR3")
        err.check_err12(ctx, f, "ERR1", "ERR1v", "ERR2")
    sp = p.func(f"{TR}:_second_pass_to_resolve_constant_subsets_in_place")
    gen.check_full_iteration(ctx, "SUBSET", sp, "constants", "second pass over the constants", allowed_skip_tests=("isinstance({v}, ConstantPrimitive)",))
    err.check_err12(ctx, sp, "ERR1", "ERR1v", "ERR2")
    err.check_err3(ctx, sp, "ERR3")
    exh.check_exh1(ctx, sp, "EXH1")
    spp = S.parents_of(sp)
    stores = [n for n in walk_function_body(sp.node) if isinstance(n, ast.Assign) and ast.unparse(n.targets[0]) == "constant.subsets"]
    for st in stores:
        g = [("" if pol else "not ") + ast.unparse(t) for t, pol in S.guards_of(st, spp)]
        if "not subsets_errors is not None" in g or "subsets_errors is None" in g:
            ctx.ok("SUBSET", sp, st, what="constant.subsets assigned only on the error-free arm")
        else:
            ctx.fail("SUBSET", sp, st, f"constant.subsets is assigned under {g}", construct="subsets stored on the error-free arm")
    ctx.require_anchor(len(stores) == 2, "two assignments of constant.subsets in the second pass")
    # generators
    for key, what in ((f"{PC}:_generate_constant_set_of_primitives", "set of primitives"), (f"{PC}:_generate_constant_set_of_enumeration_literals", "set of enumeration literals"),
                      (f"{PS}:_generate_enum_from_string", "from-string map"), (f"{PT}:_generate_enum", "enumeration members")):
        gen.check_full_iteration(ctx, "ALL-LITERALS", p.func(key), "literals", what)
    gen.check_full_iteration(ctx, "ALL-LITERALS", p.func(f"{PC}:generate"), "constants", "constants module")
    gen.check_full_iteration(ctx, "ALL-LITERALS", p.func(f"{PS}:generate"), "enumerations", "stringification module")
    for key, subject in ((f"{PC}:_generate_constant_primitive", "constant.value"), (f"{PC}:_generate_constant_set_of_primitives", "literal.value")):
        f = p.func(key)
        exh.check_exh1(ctx, f, "EXH1")
        parents = S.parents_of(f)
        seen: Dict[str, Set[str]] = {}
        for n in walk_function_body(f.node):
            if isinstance(n, (ast.Call, ast.IfExp)) and any(ast.unparse(x) == subject for x in ast.walk(n)):
                # outermost expression using the value, inside a primitive-type arm
                par = parents.get(id(n))
                if isinstance(par, (ast.Call, ast.IfExp)) and any(ast.unparse(x) == subject for x in ast.walk(par)) and not (isinstance(par, ast.Call) and dotted_of(par.func) in ("textwrap.indent", "writer.write", "isinstance")):
                    continue
                if isinstance(n, ast.Call) and dotted_of(n.func) in ("isinstance", "textwrap.indent", "writer.write"):
                    continue
                arm = None
                for t, pol in S.guards_of(n, parents):
                    txt = ast.unparse(t)
                    if pol and "a_type is intermediate.PrimitiveType." in txt:
                        arm = txt.split(".")[-1]
                if arm is None:
                    continue
                seen.setdefault(arm, set()).add(ast.unparse(n).replace(subject, "V"))
        for prim, forms in VALUE_FN.items():
            got = seen.get(prim, set())
            what = f"{f.name}: {prim} value emitted as {sorted(got)}"
            if got and got <= forms:
                ctx.ok("VALUE-FN", f, f.node, what=what)
            else:
                ctx.fail("VALUE-FN", f, f.node, f"{f.name}: in the {prim} arm the value is emitted as {sorted(got) or 'nothing'}; a form that denotes it is one of {sorted(forms)}", construct=f"{f.name}: {prim} literal form")
    # enumeration round trip
    ge = p.func(f"{PT}:_generate_enum")
    gs = p.func(f"{PS}:_generate_enum_from_string")
    def pair(f: FuncInfo) -> Tuple[bool, bool]:
        txt = ast.unparse(f.node)
        return ("python_naming.enum_literal_name(literal.name)" in txt, "literal.value" in txt)
    a, b = pair(ge), pair(gs)
    if all(a) and all(b):
        ctx.ok("ENUM-RT", ge, ge.node, what="members: enum_literal_name(literal.name) = repr(literal.value)")
        ctx.ok("ENUM-RT", gs, gs.node, what="from-string map: string_literal(literal.value) -> enum_literal_name(literal.name)")
    else:
        ctx.fail("ENUM-RT", gs, gs.node, f"the enumeration generator uses (name, value) = {a}, the from-string generator {b}: the map and the members are not built from the same pair", construct="enum (name, value) pair")
    mem = [n for n in walk_function_body(ge.node) if isinstance(n, ast.JoinedStr) and any(isinstance(v, ast.FormattedValue) and ast.unparse(v.value) == "repr(literal.value)" for v in n.values)]
    if mem:
        ctx.ok("ENUM-RT", ge, mem[0], what="member value through repr(): a Python literal that denotes the text")
    else:
        ctx.fail("ENUM-RT", ge, ge.node, "the enumeration member value is not emitted through repr(literal.value)", construct="enum member literal")
    keys = [n for n in walk_function_body(gs.node) if isinstance(n, ast.Call) and dotted_of(n.func) == "python_common.string_literal" and n.args and ast.unparse(n.args[0]) == "literal.value"]
    if keys:
        ctx.ok("ENUM-RT", gs, keys[0], what="map key through python_common.string_literal(literal.value)")
    else:
        ctx.fail("ENUM-RT", gs, gs.node, "the from-string key is not python_common.string_literal(literal.value)", construct="from-string key literal")
    for f in p.module(f"{PKG}.{PC}").functions.values():
        exh.check_exh1(ctx, f, "EXH1")
    # the Python literal functions through which the values are emitted (shared with C19)
    ctx.rule("CHR", "python string/bytes literal functions: forbidden characters never raw, only legal escapes (shared with C19)", floor=40)
    from . import c19 as _c19
    from ..rules import chr as _C
    for lang, key, modes in _c19.JOBS:
        if lang != "python":
            continue
        lf = p.func(key)
        for mode in modes:
            for part in _C.analyse_escaper(ctx, lf, mode, _C.spec_boundaries(lang)):
                _C.judge(ctx, "CHR", part, lang)

    ctx.rule("SKIPS", "the loops of the functions in scope have no more continue/break/return-in-loop statements than the reference read on the unchanged tree", floor=2)
    from ..rules import skips as _skips
    _base = _skips.load_baseline()
    for _m in ctx.p.modules.values():
        if _m.name in ("aas_core_codegen.python.lib._generate_constants", "aas_core_codegen.python.lib._generate_stringification"):
            for _f in _m.functions.values():
                _skips.check_skips(ctx, _f, "SKIPS", _base)
    # what the author wrote as arguments of constant_set(...) / constant(...) reaches the parsed constant or is rejected
    ctx.rule("ARG-USED", "optional argument nodes of the meta-model parser are consumed or rejected on every path to a successful return", floor=10)
    from ..rules import argused as _argused
    for _f in ctx.p.module("aas_core_codegen.parse._translate").functions.values():
        _argused.check_arg_used(ctx, _f, "ARG-USED")
    ctx.rule("LIT-KW", "interpolation-only options of the literal functions are used only for parts of interpolated strings", floor=4)
    from ..rules import litkw as _litkw
    _litkw.check_literal_keywords(ctx, "LIT-KW")