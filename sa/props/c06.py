"""C06 Accepted meta-models satisfy the structural rules (DESIGN §4 C06)."""
import ast

from ..flow import artefacts, calls_in, find_calls
from ..model import dotted_of, short, walk_function_body
from ..rules import err, seq, anchor
from ..types import Seq, Cls, strip_opt

CLAIM = (
    "registry completeness and non-dropping of the structural checks: (1) every module-level `_verify_*` function of "
    "intermediate/_translate.py is called from a reachable statement of `_verify` and its result flows into the returned accumulator; "
    "`translate` reaches its success return only through `_verify` followed by a bail-out test; the parse stage reaches success only "
    "through `_verify_duplicate_names` and `_verify_symbol_table`; `map_symbol_table_to_ontology` reaches success only through "
    "`_topologically_sort`; (2) inside every verification function collected errors are returned (ERR1-3); (3) no `_verify_*` is "
    "stubbed: each has a CFG-reachable statement that produces an error."
    " SKIPS: the verification / resolution loops in scope have no more `continue`, `break` or in-loop `return` statements than the reference "
    "read on the unchanged tree (baselines/skips.json): a new skip means elements that were examined are no longer examined."
)
NOTE = (
    "Trusted base: name-based identification of the verification battery (functions named _verify_* returning List[Error]). "
    "Not decided: weakening inside a predicate (a reserved word removed from a set, `<` for `<=`): that is a statement about values."
)
TECHNIQUE = "static analysis: who-calls registry check, CFG reachability, must-pass-through, error-accumulator typestate"


def _is_error_list(ctx, f) -> bool:
    t = ctx.ty.return_type(f)
    t = strip_opt(t)
    return isinstance(t, Seq) and isinstance(t.elem, Cls) and t.elem.ci.name == "Error"


def run(ctx) -> None:
    p = ctx.p
    ctx.rule("REG", "every _verify_* of the IR stage is called, reachable, from _verify and its result reaches the returned accumulator", floor=12)
    ctx.rule("SEQ", "success exits of translate / parse / ontology pass through their verification stages", floor=3)
    ctx.rule("ANCHOR-ATOMS", "the anchoring check tests emptiness, a single top-level alternative, first ^ and last $ (the features the regex-VM translator insists on)", floor=4)
    ctx.rule("NOSTUB", "each verification function can reach a statement producing an error", floor=14)
    ctx.rule("ERR1", "error pairs read (all functions of the two translate modules, _hierarchy, construction)", floor=70)
    ctx.rule("ERR1v", "values unused while error untested", floor=55)
    ctx.rule("ERR2", "no error-returning call dropped", floor=0)
    ctx.rule("ERR3", "collected errors returned", floor=40)

    battery = check_reg(ctx)
    ctx.rule("SHAPE-GUARD", "unsupported type shapes are rejected in the position in which the generators assume their absence", floor=1)
    check_shape_guard(ctx, "SHAPE-GUARD")
    # the stacking passes run BEFORE the verification battery: a silent de-duplication keyed by an attribute hides a duplicate
    # (e.g. two invariants with one description) from the uniqueness checks (shared with C05)
    ctx.rule("MERGE", "inherited collections are de-duplicated by identity only (shared with C05)", floor=2)
    from . import c05 as _c05
    for _f in p.module("intermediate._translate").functions.values():
        if _f.name.startswith("_second_pass_to_stack"):
            _c05._check_merges(ctx, _f)

    anchor.check_anchor_agreement(ctx, "ANCHOR-ATOMS")
    translate = p.func("intermediate._translate:translate")
    seq.check_sequence(ctx, translate, "SEQ", ["map_symbol_table_to_ontology", "_verify"], seq.returns_value_none, "translate: ")
    parse_entry = p.func("parse._translate:atok_to_symbol_table")
    # find the function that calls _verify_symbol_table
    callers = [f for f in p.module("parse._translate").functions.values() if find_calls(f.node, lambda c: dotted_of(c.func) == "_verify_symbol_table")]
    ctx.require_anchor(len(callers) == 1, "one caller of parse._verify_symbol_table")
    seq.check_sequence(ctx, callers[0], "SEQ", ["_verify_duplicate_names", "_verify_symbol_table"], seq.returns_value_none, "parse: ")
    onto = p.func("intermediate._hierarchy:map_symbol_table_to_ontology")
    seq.check_sequence(ctx, onto, "SEQ", ["_topologically_sort"], seq.returns_value_none, "ontology: ")

    checks = battery + [p.func("parse._translate:_verify_symbol_table"), p.func("parse._translate:_verify_duplicate_names"), onto]
    for f in checks:
        fa = artefacts(ctx.ty, f)
        r = fa.cfg.reachable()
        produces = False
        for node in fa.cfg.nodes:
            if node.id not in r:
                continue
            for c in calls_in(node):
                d = dotted_of(c.func) or ""
                if d.split(".")[-1] == "Error" or (d.endswith(".append") or d.endswith(".extend")) and "error" in d.lower():
                    produces = True
        if not produces:
            # idiom: delegation to a checker object, ``checker.visit(x)`` ... ``return checker.errors``
            for node in fa.cfg.nodes:
                if node.id in r and node.kind == "return" and isinstance(node.expr, ast.Attribute) and node.expr.attr == "errors" and isinstance(node.expr.value, ast.Name):
                    obj = node.expr.value.id
                    if any(isinstance(c.func, ast.Attribute) and dotted_of(c.func.value) == obj for n2 in fa.cfg.nodes if n2.id in r for c in calls_in(n2)):
                        produces = True
        if produces:
            ctx.ok("NOSTUB", f, f.node, what=f"{f.name} has a reachable error-producing statement")
        else:
            ctx.fail("NOSTUB", f, f.node, f"`{f.name}` has no reachable statement that produces an error: the check is stubbed out", construct=f"{f.name} produces errors")
    for modname in ("intermediate._translate", "parse._translate", "intermediate._hierarchy", "intermediate.construction"):
        for f in p.module(modname).functions.values():
            err.check_err12(ctx, f, "ERR1", "ERR1v", "ERR2")
            err.check_err3(ctx, f, "ERR3")

    ctx.rule("SKIPS", "verification/resolution loops have no more continue/break/return-in-loop statements than the reference read on the unchanged tree", floor=40)
    from ..rules import skips as _skips
    _base = _skips.load_baseline()
    for _m in ctx.p.modules.values():
        if _m.name in ("aas_core_codegen.intermediate._translate", "aas_core_codegen.intermediate._hierarchy", "aas_core_codegen.intermediate.construction", "aas_core_codegen.parse._translate"):
            for _f in _m.functions.values():
                _skips.check_skips(ctx, _f, "SKIPS", _base)

def check_reg(ctx):
    """REG: every _verify_* of the IR stage is called from _verify, reachable, independent of unrelated errors, and its result
    flows into the returned accumulator.  Returns the battery."""
    p = ctx.p
    m = p.module("intermediate._translate")
    verify = p.func("intermediate._translate:_verify")
    battery = [f for name, f in m.functions.items() if name.startswith("_verify_") and "." not in name and _is_error_list(ctx, f)]
    ctx.require_anchor(len(battery) >= 10, "the IR verification battery (_verify_* -> List[Error]) exists")
    art = artefacts(ctx.ty, verify)
    reach = art.cfg.reachable()
    ret_names = {n.expr.id for n in art.cfg.nodes if n.kind == "return" and isinstance(n.expr, ast.Name)}
    for f in battery:
        sites = [(node, c) for node in art.cfg.nodes if node.id in reach for c in calls_in(node) if dotted_of(c.func) == f.name]
        what = f"{f.name} called from _verify"
        if not sites:
            ctx.fail("REG", verify, verify.node, f"`{f.name}` is not called from any reachable statement of _verify: the rule it enforces is no longer checked", construct=what)
            continue
        node, call = sites[0]
        # constant-false guard?
        dead_guard = False
        for n2 in ast.walk(verify.node):
            if isinstance(n2, ast.If) and isinstance(n2.test, ast.Constant) and not n2.test.value and any(x is call for x in ast.walk(ast.Module(body=n2.body, type_ignores=[]))):
                dead_guard = True
        # result flows into the accumulator that is returned
        flows = False
        st = node.stmt
        if isinstance(st, ast.Expr) and isinstance(st.value, ast.Call) and isinstance(st.value.func, ast.Attribute) and st.value.func.attr == "extend" and dotted_of(st.value.func.value) in ret_names:
            flows = any(x is call for x in ast.walk(st.value))
        elif isinstance(st, ast.Assign) and isinstance(st.targets[0], ast.Name):
            tgt = st.targets[0].id
            if tgt in ret_names:
                flows = True
            else:
                for n3 in art.cfg.nodes:
                    s3 = n3.stmt
                    if n3.id in reach and isinstance(s3, ast.Expr) and isinstance(s3.value, ast.Call) and isinstance(s3.value.func, ast.Attribute) and s3.value.func.attr == "extend" \
                            and dotted_of(s3.value.func.value) in ret_names and any(isinstance(a, ast.Name) and a.id == tgt for a in s3.value.args):
                        flows = True
        # a check that only runs while the WHOLE accumulator is still empty is suppressed by any unrelated earlier error:
        # independent errors of the meta-model are then not all reported (a check may depend on its own prerequisite only)
        from ..rules import schema as _S
        _par = _S.parents_of(verify)
        whole = [ast.unparse(t) for t, pol in _S.guards_of(call, _par)
                 if any(ast.unparse(t) in (f"len({r}) == 0", f"not {r}", f"len({r}) < 1") for r in ret_names) and pol]
        if whole:
            ctx.fail("REG", verify, call, f"`{f.name}` runs only under `{whole[0]}`, i.e. while no other check has reported anything: an independent violation of its rule is dropped from the report whenever another class has any earlier error", construct=what + " independent of unrelated errors")
            continue
        if dead_guard:
            ctx.fail("REG", verify, call, f"`{f.name}` is only called under a constant-false condition", construct=what)
        elif not flows:
            ctx.fail("REG", verify, call, f"the errors returned by `{f.name}` do not flow into the accumulator returned by _verify", construct=what)
        else:
            ctx.ok("REG", verify, call, what=what + ", result extended into the returned errors")
    return battery


def check_shape_guard(ctx, rule: str) -> None:
    """The generators rely on `no list of optional items` for the annotation BENEATH a top-level Optional
    (`beneath_optional(prop.type_annotation)` is what they unroll).  The front end's rejection must therefore test the list
    after removing a top-level Optional; testing `prop.type_annotation` itself lets `Optional[List[Optional[X]]]` through,
    on which every generator fails an assertion."""
    p = ctx.p
    f = p.func("intermediate._translate:_verify_only_simple_type_patterns")
    defs = {}
    for n in walk_function_body(f.node):
        if isinstance(n, ast.Assign) and len(n.targets) == 1 and isinstance(n.targets[0], ast.Name):
            defs.setdefault(n.targets[0].id, []).append(n.value)
    sites = []
    for n in walk_function_body(f.node):
        if isinstance(n, ast.If) and isinstance(n.test, ast.Call) and dotted_of(n.test.func) == "isinstance" and len(n.test.args) == 2 \
                and (dotted_of(n.test.args[1]) or "").endswith("ListTypeAnnotation"):
            inner = [m for m in ast.walk(n) if isinstance(m, ast.If) and m is not n and "items" in ast.unparse(m.test) and "OptionalTypeAnnotation" in ast.unparse(m.test)]
            if inner:
                sites.append((n, n.test.args[0]))
    ctx.require_anchor(len(sites) >= 1, "_verify_only_simple_type_patterns tests the items of a list for Optional")
    for n, subj in sites:
        what = "list-of-optionals is tested beneath a top-level Optional"
        ok = False
        if isinstance(subj, ast.Name):
            ok = any(isinstance(v, ast.Call) and (dotted_of(v.func) or "").endswith("beneath_optional") for v in defs.get(subj.id, []))
        elif isinstance(subj, ast.Call) and (dotted_of(subj.func) or "").endswith("beneath_optional"):
            ok = True
        if ok:
            ctx.ok(rule, f, n, what=what)
        else:
            ctx.fail(rule, f, n, f"the list test is applied to `{short(subj)}`, not to the annotation beneath a top-level Optional: `Optional[List[Optional[X]]]` is accepted, and every generator then fails its assertion `lists of optional values were not expected`", construct=what)
