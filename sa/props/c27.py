"""C27 Message wrapping keeps text and layout rules (DESIGN §4 C27)."""
import ast
from typing import Dict, List, Optional, Tuple

from ..model import AnalysisError, dotted_of, norm, short, walk_function_body
from ..rules import lin

CLAIM = (
    "the width clause of common.wrap_text_into_lines, by a loop-invariant proof over the re-flow loop: with the ghost pair "
    "(accumulation, accumulation_len) the invariant `accumulation_len == total length of accumulation and accumulation_len <= line_width` "
    "is established before the loop and preserved by every arm (paired updates of matching form; the bound follows from the arm's path "
    "condition as a difference constraint); every segments.append is either the joined accumulation (bounded by the invariant) or the "
    "bare token on a path where len(token) > line_width (the single-long-word case); the @ensure that the segments concatenate to the "
    "text is present on the function; ARTICLE: in the tokenisation loop, while an article is pending and the current part is a word, the only "
    "thing added to the tokens is ONE string containing both (so the re-flow, which moves whole tokens, cannot end a segment on the article); "
    "PURE: the function touches no module-level mutable container, or keys it by every parameter."
    " WIDTH also requires that the whole text is returned as one segment only for a single token or under len(text) <= line_width; ARTICLE also rejects emitting the current part on its own while it is an article (it has to wait for the next part)."
)
NOTE = (
    "Trusted base: the linear-form normaliser (sa/rules/lin.py) and the recognised update forms (x = 0 / [] , x = len(token) / [token], "
    "x += len(token) / .append(token)); an update outside these forms is reported, not assumed. Not decided: text preservation itself "
    "(delegated to the run-time @ensure); of the article clause, that the re-flow keeps tokens whole follows from WIDTH/GHOST (segments are joins of whole tokens)."
)
TECHNIQUE = "static analysis: loop-invariant check with difference constraints (zones) and paired ghost updates on the AST of wrap_text_into_lines"


def run(ctx) -> None:
    p = ctx.p
    ctx.rule("WIDTH", "every emitted segment is bounded by line_width (loop invariant) or is a single over-long token", floor=4)
    ctx.rule("GHOST", "accumulation and accumulation_len are updated together with matching forms", floor=3)
    ctx.rule("ENSURE", "@ensure(text == ''.join(result)) present", floor=1)
    ctx.rule("ARTICLE", "while a following word exists, an article only enters the tokens fused with that word", floor=2)
    ctx.rule("PURE", "the result is a function of (text, line_width): no module-level mutable state, or keyed by every parameter", floor=1)
    f = p.func("common:wrap_text_into_lines")
    W = "line_width"
    ctx.require_anchor(W in f.param_names(), "wrap_text_into_lines has a line_width parameter")
    # ensure decorator
    has = False
    for d in f.node.decorator_list:
        if isinstance(d, ast.Call) and dotted_of(d.func) in ("ensure", "icontract.ensure") and d.args and isinstance(d.args[0], ast.Lambda):
            body = norm(d.args[0].body)
            if body in ("text == ''.join(result)", "''.join(result) == text"):
                has = True
    if has:
        ctx.ok("ENSURE", f, f.node, what="@ensure(lambda text, result: text == ''.join(result))")
    else:
        ctx.fail("ENSURE", f, f.node, "the post-condition that the segments concatenate to the original text is gone: a lossy split is no longer detected", construct="ensure text preserved")

    # the re-flow loop: the for loop containing `<result>.append`
    _check_articles(ctx, f)
    _check_whole_text_returns(ctx, f)
    _check_pure(ctx, f)

    def _ret_name(n: ast.Return):
        v = n.value
        if isinstance(v, ast.Call) and dotted_of(v.func) in ("list", "tuple") and len(v.args) == 1:
            v = v.args[0]
        return v.id if isinstance(v, ast.Name) else None

    rets = [n for n in walk_function_body(f.node) if isinstance(n, ast.Return) and n.value is not None and _ret_name(n) is not None]
    ctx.require_anchor(len(rets) >= 1, "returns a named list of segments")
    seg = _ret_name(rets[-1])
    loops = [n for n in f.node.body if isinstance(n, ast.For) and any(isinstance(c, ast.Call) and dotted_of(c.func) == f"{seg}.append" for c in ast.walk(n))]
    ctx.require_anchor(len(loops) == 1 and isinstance(loops[0].target, ast.Name), "one re-flow loop appending to the segments")
    loop = loops[0]
    tok = loop.target.id
    # ghost pair: an int initialised to 0 and a list initialised to [] before the loop, both assigned in the loop
    assigned_in_loop = {t.id for n in ast.walk(loop) for t in (n.targets if isinstance(n, ast.Assign) else [n.target] if isinstance(n, ast.AugAssign) else []) if isinstance(t, ast.Name)}
    n_var = l_var = None
    for s in f.node.body:
        if s is loop:
            break
        if isinstance(s, ast.Assign) and len(s.targets) == 1 and isinstance(s.targets[0], ast.Name):
            nm = s.targets[0].id
            if isinstance(s.value, ast.Constant) and s.value.value == 0 and nm in assigned_in_loop:
                n_var = nm
            if isinstance(s.value, ast.List) and not s.value.elts and (nm in assigned_in_loop or any(isinstance(c, ast.Call) and dotted_of(c.func) == f"{nm}.append" for c in ast.walk(loop))) and nm != seg:
                l_var = nm
    ctx.require_anchor(n_var is not None and l_var is not None, "ghost pair (length counter, accumulated tokens) initialised to (0, []) before the loop")
    ctx.ok("GHOST", f, loop, what=f"initially {n_var} == 0 and {l_var} == []")

    tok_len = f"len({tok})"

    def walk_arms(body: List[ast.stmt], known: list) -> None:
        """Interpret one block under the path constraints ``known``."""
        n_upd: Optional[str] = None
        l_upd: Optional[str] = None
        upd_node = None
        for s in body:
            if isinstance(s, ast.If):
                walk_arms(s.body, known + lin.constraints_of(s.test, True))
                if s.orelse:
                    walk_arms(s.orelse, known + lin.constraints_of(s.test, False))
                else:
                    pass
                continue
            if isinstance(s, ast.Expr) and isinstance(s.value, ast.Call) and dotted_of(s.value.func) == f"{seg}.append":
                arg = s.value.args[0]
                if _is_join_of(arg, l_var):
                    if n_upd is not None or l_upd is not None:
                        ctx.fail("WIDTH", f, s, "the accumulation is emitted after one of the ghost variables was already updated in this arm", construct=f"emit {short(arg)}")
                    else:
                        ctx.ok("WIDTH", f, s, what=f"emit ''.join({l_var}) under the invariant {n_var} <= {W}")
                elif isinstance(arg, ast.Name) and arg.id == tok:
                    # a single token is always admissible: it either fits or is
                    # the single over-long word the property exempts
                    ctx.ok("WIDTH", f, s, what=f"emit bare token (fits or is a single over-long word)")
                else:
                    ctx.fail("WIDTH", f, s, f"`{short(arg)}` is emitted as a segment: neither the joined accumulation nor the single over-long token", construct=f"emit {short(arg)}")
                continue
            form = _update_form(s, n_var, l_var, tok)
            if form is not None:
                which, kind = form
                upd_node = upd_node or s
                if which == "n":
                    n_upd = kind
                else:
                    l_upd = kind
                continue
            if isinstance(s, (ast.Pass, ast.Continue)) or (isinstance(s, ast.Expr) and isinstance(s.value, ast.Constant)):
                continue
            touched = {n.id for n in ast.walk(s) if isinstance(n, ast.Name)} & {n_var, l_var, seg}
            if touched:
                ctx.fail("GHOST", f, s, f"`{short(s)}` touches {sorted(touched)} in a form the invariant proof does not recognise", construct=short(s))
        if n_upd is None and l_upd is None:
            return
        if n_upd != l_upd:
            ctx.fail("GHOST", f, upd_node, f"in this arm {n_var} is updated as `{n_upd}` but {l_var} as `{l_upd}`: the counter no longer equals the length of the accumulated tokens", construct=f"arm updates {n_upd}/{l_upd}")
            return
        # bound of the new counter value
        if n_upd == "reset":
            ok = True
        elif n_upd == "single":
            need = (((tok_len, 1), (W, -1)), 0)
            need = (tuple(sorted(need[0])), 0)
            ok = lin.implied(need, known)
        else:  # plus
            need = (tuple(sorted(((n_var, 1), (tok_len, 1), (W, -1)))), 0)
            ok = lin.implied(need, known)
        if ok:
            ctx.ok("GHOST", f, upd_node, what=f"arm update `{n_upd}` paired and bounded by {W}")
            ctx.ok("WIDTH", f, upd_node, what=f"invariant {n_var} <= {W} preserved by `{n_upd}`")
        else:
            ctx.fail("WIDTH", f, upd_node, f"after the update `{n_upd}` the bound {n_var} <= {W} does not follow from the conditions of the arm", construct=f"invariant after {n_upd}")

    walk_arms(loop.body, [])
    # after the loop: the remainder is emitted
    after = f.node.body[f.node.body.index(loop) + 1:]
    emitted = False
    for s in after:
        for c in ast.walk(s):
            if isinstance(c, ast.Call) and dotted_of(c.func) == f"{seg}.append" and _is_join_of(c.args[0], l_var):
                emitted = True
    if emitted:
        ctx.ok("WIDTH", f, loop, what="remaining accumulation emitted after the loop")
    else:
        ctx.fail("WIDTH", f, loop, "the remaining accumulation is not emitted after the loop", construct="tail emit")


def _is_join_of(e: ast.AST, l_var: str) -> bool:
    return (
        isinstance(e, ast.Call) and isinstance(e.func, ast.Attribute) and e.func.attr == "join"
        and isinstance(e.func.value, ast.Constant) and e.func.value.value == ""
        and len(e.args) == 1 and isinstance(e.args[0], ast.Name) and e.args[0].id == l_var
    )


def _update_form(s: ast.stmt, n_var: str, l_var: str, tok: str) -> Optional[Tuple[str, str]]:
    def is_len_tok(e):
        return isinstance(e, ast.Call) and dotted_of(e.func) == "len" and len(e.args) == 1 and isinstance(e.args[0], ast.Name) and e.args[0].id == tok
    if isinstance(s, ast.Assign) and len(s.targets) == 1 and isinstance(s.targets[0], ast.Name):
        nm, v = s.targets[0].id, s.value
        if nm == n_var:
            if isinstance(v, ast.Constant) and v.value == 0:
                return ("n", "reset")
            if is_len_tok(v):
                return ("n", "single")
            if isinstance(v, ast.BinOp) and isinstance(v.op, ast.Add) and (
                (isinstance(v.left, ast.Name) and v.left.id == n_var and is_len_tok(v.right))
                or (isinstance(v.right, ast.Name) and v.right.id == n_var and is_len_tok(v.left))
            ):
                return ("n", "plus")
            return ("n", f"?{short(v)}")
        if nm == l_var:
            if isinstance(v, ast.List) and not v.elts:
                return ("l", "reset")
            if isinstance(v, ast.List) and len(v.elts) == 1 and isinstance(v.elts[0], ast.Name) and v.elts[0].id == tok:
                return ("l", "single")
            return ("l", f"?{short(v)}")
    if isinstance(s, ast.AugAssign) and isinstance(s.target, ast.Name) and s.target.id == n_var:
        if isinstance(s.op, ast.Add) and is_len_tok(s.value):
            return ("n", "plus")
        return ("n", f"?{short(s)}")
    if isinstance(s, ast.Expr) and isinstance(s.value, ast.Call) and dotted_of(s.value.func) == f"{l_var}.append":
        a = s.value.args
        if len(a) == 1 and isinstance(a[0], ast.Name) and a[0].id == tok:
            return ("l", "plus")
        return ("l", f"?{short(s)}")
    return None


ARTICLES_TEST = ("'a'", "'an'", "'the'")


def _check_whole_text_returns(ctx, f) -> None:
    """`return [text]` hands the whole input back as one segment: sound only when the text is a single token (no space to break
    at) or when its own length - not the length of something derived from it - is within the width."""
    from ..rules import schema as S

    parents = S.parents_of(f)
    text = f.node.args.args[0].arg
    width = f.node.args.args[1].arg if len(f.node.args.args) > 1 else "line_width"
    split_vars = {a.targets[0].id for a in ast.walk(f.node) if isinstance(a, ast.Assign) and len(a.targets) == 1 and isinstance(a.targets[0], ast.Name)
                  and isinstance(a.value, ast.Call) and ast.unparse(a.value.func) == f"{text}.split"}
    n = 0
    for r in [x for x in ast.walk(f.node) if isinstance(x, ast.Return)]:
        v = r.value
        if not (isinstance(v, ast.List) and len(v.elts) == 1 and isinstance(v.elts[0], ast.Name) and v.elts[0].id == text):
            continue
        n += 1
        disj = []
        for t, pol in S.guards_of(r, parents):
            if pol and isinstance(t, ast.BoolOp) and isinstance(t.op, ast.Or):
                disj.extend(t.values)
            else:
                disj.append(t if pol else ast.UnaryOp(op=ast.Not(), operand=t))
        bad = []
        for d in disj:
            txt = ast.unparse(d)
            single = any(txt in (f"len({sv}) == 1", f"len({sv}) <= 1", f"len({sv}) < 2") for sv in split_vars)
            fits = txt in (f"len({text}) <= {width}", f"len({text}) < {width}")
            if not (single or fits):
                bad.append(txt)
        what = "wrap_text_into_lines: the whole text is returned as one segment only if it is a single token or fits"
        if bad or not disj:
            ctx.fail("WIDTH", f, r, f"`return [{text}]` is reached under {bad or 'no condition'}: that neither makes the text a single token nor bounds len({text}) by {width}, so a text with spaces can come back as one segment longer than the width", construct=what)
        else:
            ctx.ok("WIDTH", f, r, what=what)
    ctx.require_anchor(n >= 1, "wrap_text_into_lines has the single-token shortcut `return [text]`")


def _check_articles(ctx, f) -> None:
    """Tokenisation loop: ``article`` holds a pending article.  In the arm where an article is pending and the current part
    is NOT an article (a following word exists), every element added to the tokens must be ONE string containing both the
    article and the word; the article alone may only be added when the next part is an article again, or after the loop."""
    from ..rules import schema as S

    parents = S.parents_of(f)
    loops = [n for n in f.node.body if isinstance(n, ast.For) and any(isinstance(c, ast.Compare) and all(a in ast.unparse(c) for a in ARTICLES_TEST) for c in ast.walk(n))]
    ctx.require_anchor(len(loops) == 1 and isinstance(loops[0].target, ast.Name), "one tokenisation loop testing for the articles")
    loop = loops[0]
    part = loop.target.id
    # the pending-article variable: assigned the loop variable under the article test
    pend = None
    for n in ast.walk(loop):
        if isinstance(n, ast.Assign) and len(n.targets) == 1 and isinstance(n.targets[0], ast.Name) and isinstance(n.value, ast.Name) and n.value.id == part:
            pend = n.targets[0].id
    ctx.require_anchor(pend is not None, "a variable holds the pending article")
    # the token list: target of .append/.extend calls in the loop
    adds = [c for c in ast.walk(loop) if isinstance(c, ast.Call) and isinstance(c.func, ast.Attribute) and c.func.attr in ("append", "extend", "insert") and isinstance(c.func.value, ast.Name)]
    n_checked = 0
    for c in adds:
        guards = [(ast.unparse(t), pol) for t, pol in S.guards_of(c, parents)]
        pending = any((t == f"{pend} is None" and not pol) or (t == f"{pend} is not None" and pol) for t, pol in guards)
        is_article = [pol for t, pol in guards if t.startswith(f"{part} in ") and all(a in t for a in ARTICLES_TEST)]
        # early-exit form: ``if part in ARTICLES: ...; continue`` before the call in the same block
        for t, pol in S.early_exit_guards(c, f, parents):
            tt = ast.unparse(t)
            if tt.startswith(f"{part} in ") and all(a in tt for a in ARTICLES_TEST):
                is_article.append(pol)
            if tt == f"{pend} is None":
                pending = pending or (pol is False)
        word_follows = pending and is_article and not any(is_article)
        elems = c.args[0].elts if (c.func.attr == "extend" and c.args and isinstance(c.args[0], (ast.Tuple, ast.List))) else list(c.args[-1:])
        for e in elems:
            names = {x.id for x in ast.walk(e) if isinstance(x, ast.Name)}
            # names may be bound to a fused string earlier in the arm
            fused_vars = set()
            for a in ast.walk(loop):
                if isinstance(a, ast.Assign) and len(a.targets) == 1 and isinstance(a.targets[0], ast.Name):
                    vn = {x.id for x in ast.walk(a.value) if isinstance(x, ast.Name)}
                    if {pend, part} <= vn:
                        fused_vars.add(a.targets[0].id)
            fused = ({pend, part} <= names) or bool(names & fused_vars)
            if is_article and all(is_article) and names == {part}:
                # the current part is an article: it has to wait for the next part, it cannot be emitted on its own here
                n_checked += 1
                ctx.fail("ARTICLE", f, c, f"the current part is an article and `{short(e)}` is added as a token of its own instead of being kept pending: if a word follows, the re-flow can end a segment between the article and that word", construct="current article emitted without waiting for the next part")
                continue
            if not word_follows:
                continue
            n_checked += 1
            what = f"pending article and a following word: `{short(e)}` added to the tokens"
            if fused:
                ctx.ok("ARTICLE", f, c, what=what + " as one fused token")
            else:
                ctx.fail("ARTICLE", f, c, f"while an article is pending and the current part is a word, `{short(e)}` is added as a token of its own: the re-flow can end a segment after the article although a word follows", construct="article and following word not fused")
    ctx.require_anchor(n_checked >= 1, "the arm `pending article, word follows` adds a token")
    # after the loop: a pending article at the end of the text is flushed
    after = f.node.body[f.node.body.index(loop) + 1:]
    flushed = any(isinstance(s, ast.If) and ast.unparse(s.test) == f"{pend} is not None" and any(isinstance(c, ast.Call) and isinstance(c.func, ast.Attribute) and c.func.attr == "append" for c in ast.walk(s)) for s in after)
    if flushed:
        ctx.ok("ARTICLE", f, loop, what="a pending article at the very end is flushed (no following word exists)")
    else:
        ctx.fail("ARTICLE", f, loop, "a trailing article is never added to the tokens (the text would be cut)", construct="trailing article flushed")


def _check_pure(ctx, f) -> None:
    """No module-level mutable container is read or written by the function unless every key mentions every parameter."""
    m = f.module
    params = [a for a in f.param_names()]
    mutable = {}
    for name, v in m.constants.items():
        if isinstance(v, (ast.Dict, ast.List, ast.Set)) or (isinstance(v, ast.Call) and dotted_of(v.func) in ("dict", "list", "set", "collections.OrderedDict", "collections.defaultdict")):
            mutable[name] = v
    used = [n for n in walk_function_body(f.node) if isinstance(n, ast.Name) and n.id in mutable]
    if not used:
        ctx.ok("PURE", f, f.node, what="no module-level mutable container is touched")
        return
    parents = {}
    for n in ast.walk(f.node):
        for c in ast.iter_child_nodes(n):
            parents[id(c)] = n
    for u in used:
        par = parents.get(id(u))
        key = None
        if isinstance(par, ast.Subscript) and par.value is u:
            key = par.slice
        elif isinstance(par, ast.Attribute) and par.attr in ("get", "setdefault", "pop"):
            call = parents.get(id(par))
            if isinstance(call, ast.Call) and call.args:
                key = call.args[0]
        elif isinstance(par, ast.Compare) and u in par.comparators:
            key = par.left
        names = {x.id for x in ast.walk(key) if isinstance(x, ast.Name)} if key is not None else set()
        missing = [p_ for p_ in params if p_ not in names]
        if key is not None and not missing:
            ctx.ok("PURE", f, u, what=f"`{u.id}` keyed by every parameter")
        else:
            ctx.fail("PURE", f, u, f"the module-level container `{u.id}` is accessed with the key `{short(key) if key is not None else '?'}`, which does not mention {missing or params}: a result computed for other argument values is returned (e.g. segments wrapped for another line width)", construct=f"`{u.id}` keyed without {missing or params}")
