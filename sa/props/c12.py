"""C12 JSON Schema enforces every inferred constraint (DESIGN §4 C12)."""
import ast
from typing import Dict, List, Optional, Set, Tuple

from ..flow import artefacts, kwarg
from ..model import FuncInfo, dotted_of, short, walk_function_body
from ..rules import fld
from ..rules import schema as S
from ..scopes import PKG
from ..types import Cls, strip_opt
from . import c11

CLAIM = (
    "the structural clauses of `every inferred constraint reaches the schema`: (1) KEYS: _translate_constraints stores minLength/"
    "maxLength for text and byte arrays and minItems/maxItems for lists, each min-keyword computed from len_constraint.min_value and each "
    "max-keyword from .max_value, each store guarded only by the presence of its own source; (2) ALL-PATTERNS: every element of "
    "constraints.patterns reaches a `pattern` keyword of a subschema that is part of the returned _AllOf (single-pattern arm, first + "
    "rest arm), and the consumers split the subschemas as [0] and [1:] without losing one; (3) B64-ENF: byte-array length keywords reject "
    "every base64 text length that only inadmissible byte lengths produce; (4) TIGHTEN: for an inherited property the constraints of the "
    "class are reduced against those of every parent (that=own, other=parent) and the result is what is translated; (5) REQUIRED: "
    "_list_required_properties lists exactly the non-optional properties the class itself specifies, and both definition generators store "
    "it; (6) MODELTYPE: a concrete definition pins modelType to a const whenever the class is serialized with a model type, and requires "
    "it unless a parent's definition does; the choice definition offers the class itself and every concrete descendant; (7) FLD: which "
    "fields of Constraints are consumed; (8) STACK-ORDER: the passes that in-line the constraints of ancestors and of constrained-primitive "
    "chains visit parents before children (a child processed first loses the grandparent's constraints)."
    " SKIPS: the loops of the functions in scope have no more `continue`, `break` or in-loop `return` statements than the reference "
    "read on the unchanged tree (baselines/skips.json): a new skip means elements that were handled are no longer handled."
    " TRUTHY: in the modules in scope no Optional[int|str|float|bytes] is tested by truthiness (a bound of 0 or an empty pattern is a "
    "constraint, not the absence of one); zero instances on the unchanged tree, kept alive by a positive control."
    " ARITY: the matchers of the schema inference read `node.values[i]` / `node.args[i]` only after establishing the exact number of "
    "operands (an ignored extra operand makes the inferred constraint stronger than the invariant)."
    " BOUND / DIR / INTER (shared with C15) decide the inference the keywords are fed from; ANCHOR-ATOMS (shared with C06) the anchoring that makes the searching `pattern` keyword enforce the full match."
)
NOTE = (
    "Oracle: base64 text length 4*ceil(n/3). Documented exclusions (by design of the generator, stated in the property): tightenings "
    "below the property level of inherited lists; set_of_primitives / set_of_enumeration_literals constraints are not translated. Not "
    "decided: the validation verdict on a mutated document (a runtime quantity of a validator)."
)
TECHNIQUE = "static analysis: keyword/source table extraction from subscript stores with guard analysis, def-use flow of the tightened constraints and of the pattern subschemas, abstract evaluation of length conversions against an arithmetic oracle, field-consumption lint"

KEY_TABLE = {
    "minLength": ("min_value", {"STR", "BYTEARRAY"}),
    "maxLength": ("max_value", {"STR", "BYTEARRAY"}),
    "minItems": ("min_value", None),
    "maxItems": ("max_value", None),
}


def run(ctx) -> None:
    ctx.rule("KEYS", "length keywords exist, are fed from the matching bound and are guarded only by their own source", floor=4)
    ctx.rule("ALL-PATTERNS", "every pattern constraint reaches the returned subschemas; consumers split [0] / [1:]", floor=5)
    ctx.rule("B64-ENF", "byte-array length keywords reject what base64 length can tell apart", floor=1)
    ctx.rule("TIGHTEN", "inherited properties: constraints reduced against every parent, result translated", floor=4)
    ctx.rule("REQUIRED", "required = own non-optional properties; stored by both generators", floor=4)
    ctx.rule("MODELTYPE", "modelType const and required; choice lists self and all concrete descendants", floor=5)
    ctx.rule("FLD", "fields of Constraints consumed by the translation", floor=2)
    check_keys(ctx)
    check_all_patterns(ctx)
    c11.check_b64(ctx, "B64-ENF", enforce=True)
    check_tighten(ctx)
    check_required(ctx)
    check_modeltype(ctx)
    check_fld(ctx)
    # the inference the schema is fed from (shared with C15): bound arithmetic per comparator, folding direction, intersection
    ctx.rule("BOUND", "each (operand order, comparator) arm of the length matcher yields the oracle's (bound kind, offset) (shared with C15)", floor=12)
    ctx.rule("DIR", "min bounds fold with max, max bounds fold with min; merging two ranges intersects them (shared with C15)", floor=8)
    ctx.rule("INTER", "set constraints are intersected; patterns de-duplicated (shared with C15)", floor=3)
    from . import c15 as _c15
    _c15._check_bounds(ctx)
    _c15._check_direction(ctx)
    _c15._check_intersection(ctx)
    # the schema keyword `pattern` is a search; it agrees with the fully matching invariant only for patterns anchored as a whole,
    # which the front end enforces (shared with C06)
    ctx.rule("ANCHOR-ATOMS", "the front end accepts a pattern only with one top-level alternative, first ^ and last $ (shared with C06)", floor=4)
    from ..rules import anchor as _anchor
    _anchor.check_anchor_agreement(ctx, "ANCHOR-ATOMS")
    ctx.rule("STACK-ORDER", "constraints of ancestors / constrained-primitive chains are stacked parents-first (shared with C15)", floor=2)
    from ..rules import stack
    for m in ctx.p.modules.values():
        if m.name.startswith(f"{PKG}.infer_for_schema"):
            for f in m.functions.values():
                stack.check_stack_order(ctx, f, "STACK-ORDER")
    ctx.rule("SKIPS", "the loops of the functions in scope have no more continue/break/return-in-loop statements than the reference read on the unchanged tree", floor=5)
    from ..rules import skips as _skips
    _base = _skips.load_baseline()
    for _m in ctx.p.modules.values():
        if _m.name == "aas_core_codegen.jsonschema.main" or _m.name.startswith("aas_core_codegen.infer_for_schema"):
            for _f in _m.functions.values():
                _skips.check_skips(ctx, _f, "SKIPS", _base)
    ctx.rule("TRUTHY", "no Optional int/str/float/bytes is tested by truthiness (0 and the empty string are values, not absence)", floor=1)
    from ..rules import truthy as _truthy
    _truthy.positive_control(ctx, "TRUTHY")
    for _m in ctx.p.modules.values():
        if _m.name == "aas_core_codegen.jsonschema.main" or _m.name.startswith("aas_core_codegen.infer_for_schema"):
            for _f in _m.functions.values():
                _truthy.check_truthy(ctx, _f, "TRUTHY")
    ctx.rule("ARITY", "matchers of the inference read a fixed number of operands only after establishing exactly that arity", floor=4)
    from ..rules import arity as _arity
    for _m in ctx.p.modules.values():
        if _m.name.startswith("aas_core_codegen.infer_for_schema"):
            for _f in _m.functions.values():
                _arity.check_arity(ctx, _f, "ARITY")


def _source_guard_ok(guards, attr: str) -> Tuple[bool, str]:
    """The innermost guards must include ``<...>.attr is not None`` and ``<...>.len_constraint is not None``; any
    other condition that is not about the type (primitive_type / isinstance) is reported."""
    has_src = False
    extra: List[str] = []

    def atoms(test: ast.expr, pol: bool):
        if isinstance(test, ast.BoolOp) and isinstance(test.op, ast.And) and pol:
            for v in test.values:
                yield from atoms(v, True)
        else:
            yield test, pol

    for test, pol in guards:
        for t, pl in atoms(test, pol):
            txt = ast.unparse(t)
            if isinstance(t, ast.Compare) and len(t.ops) == 1 and isinstance(t.comparators[0], ast.Constant) and t.comparators[0].value is None:
                d = dotted_of(t.left) or ""
                if d.endswith("." + attr) and isinstance(t.ops[0], ast.IsNot) == pl:
                    has_src = True
                    continue
                if d.endswith("len_constraint") and isinstance(t.ops[0], ast.IsNot) == pl:
                    continue
                if d in ("primitive_type", "constraints") and isinstance(t.ops[0], ast.IsNot) == pl:
                    continue
            if "primitive_type" in txt or txt.startswith("isinstance("):
                continue
            extra.append(("" if pl else "not ") + txt)
    if not has_src:
        return False, f"no `.{attr} is not None` guard"
    if extra:
        return False, "additional condition " + "; ".join(extra)
    return True, ""


def check_keys(ctx) -> None:
    f = ctx.p.func("jsonschema.main:_translate_constraints")
    parents = S.parents_of(f)
    stores = [(k, st) for k, st in S.key_stores(f) if k in KEY_TABLE]
    for key, (attr, prims) in KEY_TABLE.items():
        mine = [st for k, st in stores if k == key]
        if not mine:
            ctx.fail("KEYS", f, f.node, f"no store of `{key}`: a {attr.split('_')[0]} length constraint never reaches the schema", construct=f"{key} missing")
            continue
        covered: Set[str] = set()
        for st in mine:
            guards = S.guards_of(st, parents)
            used = {n.attr for n in ast.walk(st.value) if isinstance(n, ast.Attribute) and n.attr in ("min_value", "max_value")}
            if used != {attr}:
                ctx.fail("KEYS", f, st, f"`{key}` is computed from `{short(st.value)}` (fields {sorted(used) or 'none'}); it must come from len_constraint.{attr}", construct=f"{key} source")
                continue
            srcs = [n for n in ast.walk(st.value) if isinstance(n, ast.Attribute) and n.attr == attr]
            if not all(isinstance(n.value, ast.Attribute) and n.value.attr == "len_constraint" for n in srcs):
                ctx.fail("KEYS", f, st, f"`{key}` is computed from `{short(st.value)}`, not from the length constraint", construct=f"{key} source")
                continue
            ok, why = _source_guard_ok(guards, attr)
            if not ok:
                ctx.fail("KEYS", f, st, f"the store of `{key}` is guarded by more than the presence of its source ({why}): some constraints never reach the schema", construct=f"{key} guard")
                continue
            if prims is not None:
                members = S.prim_members("primitive_type", guards) - {"None"}
                covered |= members
            else:
                # list keywords: under isinstance(type_annotation, ListTypeAnnotation)
                is_list = any(isinstance(t, ast.Call) and dotted_of(t.func) == "isinstance" and (dotted_of(t.args[1]) or "").endswith("ListTypeAnnotation") and pol for t, pol in guards)
                if not is_list:
                    ctx.fail("KEYS", f, st, f"`{key}` is stored outside the list arm", construct=f"{key} arm")
                    continue
            ctx.ok("KEYS", f, st, what=f"{key} <- len_constraint.{attr}, guarded by its presence")
        if prims is not None:
            lacking = prims - covered
            extra = covered - prims
            if lacking:
                ctx.fail("KEYS", f, mine[0], f"no store of `{key}` is reachable for PrimitiveType.{sorted(lacking)}: its length constraint never reaches the schema", construct=f"{key} coverage")
            elif extra:
                ctx.fail("KEYS", f, mine[0], f"`{key}` is stored for {sorted(extra)}, which is not text", construct=f"{key} coverage")
            else:
                ctx.ok("KEYS", f, mine[0], what=f"{key} reachable for exactly {sorted(prims)}")


def check_all_patterns(ctx) -> None:
    p = ctx.p
    f = p.func("jsonschema.main:_translate_constraints")
    parents = S.parents_of(f)
    pat_stores = [st for k, st in S.key_stores(f) if k == "pattern"]
    ctx.require_anchor(len(pat_stores) >= 1, "pattern stores in _translate_constraints")
    # the returned _AllOf: which lists / dicts it is made of
    rets = [n for n in walk_function_body(f.node) if isinstance(n, ast.Return) and n.value is not None and not (isinstance(n.value, ast.Constant) and n.value.value is None)]
    ret_value = rets[0].value if len(rets) == 1 else None
    if isinstance(ret_value, ast.Name):
        # `x = _AllOf(...); return x`
        defs = [n for n in walk_function_body(f.node) if isinstance(n, ast.Assign) and len(n.targets) == 1 and isinstance(n.targets[0], ast.Name) and n.targets[0].id == ret_value.id]
        if len(defs) == 1:
            ret_value = defs[0].value
    ctx.require_anchor(isinstance(ret_value, ast.Call) and dotted_of(ret_value.func) == "_AllOf", "single `return _AllOf(...)`")
    ret_names = {n.id for n in ast.walk(ret_value) if isinstance(n, ast.Name)}

    def reaches_return(dict_name: str, st: ast.stmt) -> bool:
        if dict_name in ret_names:
            return True
        # appended to a returned list in the same block after the store
        blk = parents.get(id(st))
        for field in ("body", "orelse"):
            b = getattr(blk, field, None)
            if isinstance(b, list) and st in b:
                for s in b[b.index(st) + 1:]:
                    if isinstance(s, ast.Expr) and isinstance(s.value, ast.Call) and isinstance(s.value.func, ast.Attribute) and s.value.func.attr == "append" \
                            and dotted_of(s.value.func.value) in ret_names and s.value.args and dotted_of(s.value.args[0]) == dict_name:
                        return True
        return False

    # classify the stores by what element of constraints.patterns they take
    kinds: Dict[str, ast.stmt] = {}
    for st in pat_stores:
        arg = st.value.args[0].value if isinstance(st.value, ast.Call) and st.value.args and isinstance(st.value.args[0], ast.Attribute) else None
        dict_name = dotted_of(st.targets[0].value)
        if arg is None or dict_name is None:
            continue
        if not reaches_return(dict_name, st):
            ctx.fail("ALL-PATTERNS", f, st, f"the subschema `{dict_name}` that receives this pattern is not part of the returned _AllOf: the pattern is lost", construct=f"pattern subschema {dict_name} unreturned")
            continue
        guards = S.guards_of(st, parents)
        gtxt = [("" if pol else "not ") + ast.unparse(t) for t, pol in guards]
        if isinstance(arg, ast.Subscript) and dotted_of(arg.value) == "constraints.patterns" and isinstance(arg.slice, ast.Constant) and arg.slice.value == 0:
            single = any(t == "len(constraints.patterns) == 1" for t in gtxt)
            kinds["index0-single" if single else "index0"] = st
        elif isinstance(arg, ast.Name):
            # loop variable or next(iterator)
            loop = None
            cur: ast.AST = st
            while cur is not None:
                cur = parents.get(id(cur))
                if isinstance(cur, ast.For) and dotted_of(cur.target) == arg.id:
                    loop = cur
                    break
            if loop is not None:
                it = dotted_of(loop.iter)
                if it == "constraints.patterns":
                    kinds["all"] = st
                else:
                    kinds[f"rest:{it}"] = st
            else:
                defs = [n for n in walk_function_body(f.node) if isinstance(n, ast.Assign) and dotted_of(n.targets[0]) == arg.id]
                if len(defs) == 1 and isinstance(defs[0].value, ast.Call) and dotted_of(defs[0].value.func) == "next":
                    kinds[f"first:{dotted_of(defs[0].value.args[0])}"] = st
    # accepted shapes
    if "all" in kinds:
        ctx.ok("ALL-PATTERNS", f, kinds["all"], what="every pattern stored in a loop over constraints.patterns")
    else:
        firsts = [k for k in kinds if k.startswith("first:")]
        rests = [k for k in kinds if k.startswith("rest:")]
        ok_multi = False
        for fk in firsts:
            it = fk.split(":", 1)[1]
            if f"rest:{it}" in kinds:
                # iterator = iter(constraints.patterns)
                defs = [n for n in walk_function_body(f.node) if isinstance(n, ast.Assign) and dotted_of(n.targets[0]) == it]
                if len(defs) == 1 and isinstance(defs[0].value, ast.Call) and dotted_of(defs[0].value.func) == "iter" and dotted_of(defs[0].value.args[0]) == "constraints.patterns":
                    ok_multi = True
                    ctx.ok("ALL-PATTERNS", f, kinds[fk], what="first pattern from next(iter(constraints.patterns)) into the base subschema")
                    ctx.ok("ALL-PATTERNS", f, kinds[f"rest:{it}"], what="every further pattern from the same iterator into an appended subschema")
        if "index0-single" in kinds and ok_multi:
            ctx.ok("ALL-PATTERNS", f, kinds["index0-single"], what="single pattern arm: patterns[0] when len == 1")
        elif not ok_multi:
            ctx.fail("ALL-PATTERNS", f, pat_stores[0], f"the pattern stores ({sorted(kinds)}) do not cover every element of constraints.patterns: with several patterns only some reach the schema", construct="pattern coverage")
        elif "index0" in kinds:
            ctx.ok("ALL-PATTERNS", f, kinds["index0"], what="patterns[0]")
    # consumers of the _AllOf: [0] and [1:]
    mod = p.module(f"{PKG}.jsonschema.main")
    n_split = 0
    for g in mod.functions.values():
        idx0 = False
        rest: Optional[ast.AST] = None
        bad: Optional[ast.AST] = None
        for n in walk_function_body(g.node):
            if isinstance(n, ast.Subscript) and isinstance(n.value, ast.Attribute) and n.value.attr == "subschemas":
                sl = n.slice
                if isinstance(sl, ast.Constant) and sl.value == 0:
                    idx0 = True
                elif isinstance(sl, ast.Slice) and isinstance(sl.lower, ast.Constant) and sl.lower.value == 1 and sl.upper is None and sl.step is None:
                    rest = n
                else:
                    bad = n
            if isinstance(n, ast.Call) and (dotted_of(n.func) or "").endswith("islice") and n.args and isinstance(n.args[0], ast.Attribute) and n.args[0].attr == "subschemas":
                a = n.args[1:]
                if len(a) == 2 and isinstance(a[0], ast.Constant) and a[0].value == 1 and isinstance(a[1], ast.Constant) and a[1].value is None:
                    rest = n
                else:
                    bad = n
        if not (idx0 or rest is not None or bad is not None):
            continue
        n_split += 1
        if bad is not None:
            ctx.fail("ALL-PATTERNS", g, bad, f"`{short(bad)}` does not select the subschemas after the first: a pattern subschema is dropped or duplicated", construct="subschema split")
        elif idx0 and rest is None:
            # only allowed when the function handles the single-subschema case explicitly (len == 1) -- otherwise the rest is lost
            ctx.fail("ALL-PATTERNS", g, g.node, "only subschemas[0] is used; the additional pattern subschemas are lost", construct="subschema split")
        else:
            ctx.ok("ALL-PATTERNS", g, rest, what="subschemas split as [0] and [1:]")
    ctx.require_anchor(n_split >= 2, "_define_type and _all_of_as_jsonable_mapping split the subschemas")


def check_tighten(ctx) -> None:
    p = ctx.p
    f = p.func("jsonschema.main:_define_properties")
    parents = S.parents_of(f)
    calls = [n for n in walk_function_body(f.node) if isinstance(n, ast.Call) and (dotted_of(n.func) or "").endswith("tightening_steps_from_other_to_that_constraints")]
    ctx.require_anchor(len(calls) == 1, "one call of tightening_steps_from_other_to_that_constraints in _define_properties")
    call = calls[0]
    that, other = kwarg(call, "that", 0), kwarg(call, "other", 1)
    st = S.stmt_of(call, parents)
    # enclosing loop over the parents
    loop = None
    cur: Optional[ast.AST] = st
    while cur is not None:
        cur = parents.get(id(cur))
        if isinstance(cur, ast.For):
            loop = cur
            break
    if loop is not None and dotted_of(loop.iter) == "cls.inheritances":
        ctx.ok("TIGHTEN", f, loop, what="reduced against every parent (for parent in cls.inheritances)")
    else:
        ctx.fail("TIGHTEN", f, st, f"the reduction is not inside a loop over cls.inheritances (loop over `{short(loop.iter) if loop is not None else 'none'}`): with several parents only some are considered, the inherited constraint is repeated or lost", construct="loop over parents")
        return
    pvar = dotted_of(loop.target)
    # provenance of the operands
    defs: Dict[str, List[ast.AST]] = {}
    for n in walk_function_body(f.node):
        if isinstance(n, ast.Assign) and len(n.targets) == 1 and isinstance(n.targets[0], ast.Name):
            defs.setdefault(n.targets[0].id, []).append(n.value)

    def origin(e: Optional[ast.AST], depth: int = 0) -> Set[str]:
        """'own' = constraints_by_class[cls] / constraints_by_value; 'parent' = constraints_by_class[<loop var>]"""
        if e is None or depth > 4:
            return {"?"}
        if isinstance(e, ast.Call) and isinstance(e.func, ast.Attribute) and e.func.attr == "get":
            return origin(e.func.value, depth + 1)
        if isinstance(e, ast.Subscript) and dotted_of(e.value) == "constraints_by_class":
            k = dotted_of(e.slice)
            return {"own"} if k == "cls" else {"parent"} if k == pvar else {"?"}
        if isinstance(e, ast.Call) and e is call:
            return {"own"}
        if isinstance(e, ast.Name):
            out: Set[str] = set()
            for v in defs.get(e.id, []):
                out |= origin(v, depth + 1)
            return out or {"?"}
        return {"?"}

    if origin(that) == {"own"} and origin(other) == {"parent"}:
        ctx.ok("TIGHTEN", f, call, what="that = the class's own constraints, other = the parent's")
    else:
        ctx.fail("TIGHTEN", f, call, f"tightening is called with that=`{short(that) if that is not None else '?'}` (origin {sorted(origin(that))}) and other=`{short(other) if other is not None else '?'}` (origin {sorted(origin(other))}); it must reduce the class's own constraints against the parent's", construct="tightening operands")
    # result assigned and translated
    tgt = st.targets[0] if isinstance(st, ast.Assign) and len(st.targets) == 1 else None
    tr_calls = [n for n in walk_function_body(f.node) if isinstance(n, ast.Call) and dotted_of(n.func) == "_translate_constraints"]
    translated = [kwarg(c, "constraints", 1) for c in tr_calls]
    if tgt is not None and any(t is not None and dotted_of(t) == dotted_of(tgt) for t in translated):
        ctx.ok("TIGHTEN", f, st, what=f"the reduced constraints `{dotted_of(tgt)}` are what _translate_constraints receives")
    else:
        ctx.fail("TIGHTEN", f, st, "the result of the reduction is not what _translate_constraints receives", construct="tightening result flow")
    # the translated definition is stored under the property name
    stores = [n for n in walk_function_body(f.node) if isinstance(n, ast.Assign) and isinstance(n.targets[0], ast.Subscript) and dotted_of(n.targets[0].value) == "properties"]
    if len(stores) == 1 and dotted_of(stores[0].targets[0].slice) == "prop_name" and dotted_of(stores[0].value) == "definition":
        ctx.ok("TIGHTEN", f, stores[0], what="properties[prop_name] = definition for own and inherited properties")
    else:
        ctx.fail("TIGHTEN", f, f.node, "the property definitions are not stored as properties[prop_name] = definition", construct="properties store")
    # own properties: _define_type with the class's constraints
    dt = [n for n in walk_function_body(f.node) if isinstance(n, ast.Call) and dotted_of(n.func) == "_define_type"]
    if len(dt) == 1 and origin(kwarg(dt[0], "constraints_by_value", 1)) == {"own"}:
        ctx.ok("TIGHTEN", f, dt[0], what="own properties are defined with the class's own constraints")
    else:
        ctx.fail("TIGHTEN", f, f.node, "_define_type is not called with the class's own constraints_by_value", construct="_define_type operands")
    # the loop over properties must not skip
    ploops = [n for n in walk_function_body(f.node) if isinstance(n, ast.For) and dotted_of(n.iter) == "cls.properties"]
    if len(ploops) == 1:
        ctx.ok("TIGHTEN", f, ploops[0], what="iterates cls.properties (own and inherited)")
    else:
        ctx.fail("TIGHTEN", f, f.node, "no single loop over cls.properties", construct="loop over properties")


def check_required(ctx) -> None:
    p = ctx.p
    f = p.func("jsonschema.main:_list_required_properties")
    loops = [n for n in walk_function_body(f.node) if isinstance(n, ast.For) and dotted_of(n.iter) == "cls.properties"]
    ctx.require_anchor(len(loops) == 1, "_list_required_properties loops over cls.properties")
    loop = loops[0]
    pv = dotted_of(loop.target)
    parents = S.parents_of(f)
    appends = [n for n in ast.walk(loop) if isinstance(n, ast.Call) and isinstance(n.func, ast.Attribute) and n.func.attr == "append" and dotted_of(n.func.value) == "required"]
    ctx.require_anchor(len(appends) == 1, "one required.append in the loop")
    ap = appends[0]
    st = S.stmt_of(ap, parents)
    guards = S.guards_of(st, parents) + S.early_exit_guards(st, f, parents)
    conds = sorted(("" if pol else "not ") + ast.unparse(t) for t, pol in guards)
    want = sorted([f"not {pv}.specified_for is not cls", f"not isinstance({pv}.type_annotation, intermediate.OptionalTypeAnnotation)"])
    norm = []
    for c in conds:
        c = c.replace(f"not {pv}.specified_for is not cls", f"not {pv}.specified_for is not cls")
        if c == f"{pv}.specified_for is cls":
            c = f"not {pv}.specified_for is not cls"
        norm.append(c)
    if sorted(norm) == want:
        ctx.ok("REQUIRED", f, st, what="appended iff the property is specified by the class itself and not Optional")
    else:
        ctx.fail("REQUIRED", f, st, f"a property is listed as required under the conditions {conds}; expected exactly: specified for this class and not Optional", construct="required condition")
    # the name appended is the JSON name of this property
    arg = ap.args[0] if ap.args else None
    ok_name = False
    if isinstance(arg, ast.Name):
        defs = [n for n in ast.walk(loop) if isinstance(n, ast.Assign) and dotted_of(n.targets[0]) == arg.id]
        ok_name = len(defs) == 1 and isinstance(defs[0].value, ast.Call) and (dotted_of(defs[0].value.func) or "").endswith("json_property") and dotted_of(defs[0].value.args[0]) == f"{pv}.name"
    elif isinstance(arg, ast.Call):
        ok_name = (dotted_of(arg.func) or "").endswith("json_property") and dotted_of(arg.args[0]) == f"{pv}.name"
    if ok_name:
        ctx.ok("REQUIRED", f, ap, what="the JSON name of the property (naming.json_property) as in _define_properties")
    else:
        ctx.fail("REQUIRED", f, ap, f"`{short(arg) if arg is not None else '?'}` is not naming.json_property(prop.name): the required name differs from the key in `properties`", construct="required name")
    dp = p.func("jsonschema.main:_define_properties")
    names = [n for n in walk_function_body(dp.node) if isinstance(n, ast.Assign) and dotted_of(n.targets[0]) == "prop_name"]
    ctx.require_anchor(len(names) == 1 and isinstance(names[0].value, ast.Call) and (dotted_of(names[0].value.func) or "").endswith("json_property"), "prop_name = naming.json_property(prop.name) in _define_properties")
    # both generators store it
    for gname in ("_generate_inheritable_definition", "_generate_concrete_definition"):
        g = p.func(f"jsonschema.main:{gname}")
        gp = S.parents_of(g)
        got = [n for n in walk_function_body(g.node) if isinstance(n, ast.Assign) and isinstance(n.value, ast.Call) and dotted_of(n.value.func) == "_list_required_properties"]
        sts = [st for k, st in S.key_stores(g) if k == "required"]
        if len(got) == 1 and len(sts) == 1 and dotted_of(sts[0].value) == dotted_of(got[0].targets[0]):
            gs = [("" if pol else "not ") + ast.unparse(t) for t, pol in S.guards_of(sts[0], gp)]
            rv = dotted_of(got[0].targets[0])
            allowed = {f"len({rv}) > 0", "len(properties) > 0"}
            if set(gs) <= allowed:
                ctx.ok("REQUIRED", g, sts[0], what=f"definition['required'] = {rv} (guards: {gs})")
            else:
                ctx.fail("REQUIRED", g, sts[0], f"the required list is stored only under {sorted(set(gs) - allowed)}", construct="required store guard")
        else:
            ctx.fail("REQUIRED", g, g.node, "the list from _list_required_properties is not stored as definition['required']", construct="required store")


def check_modeltype(ctx) -> None:
    p = ctx.p
    g = p.func("jsonschema.main:_generate_concrete_definition")
    gp = S.parents_of(g)
    # leaf arm: properties["modelType"] = {"const": model_type} under with_model_type
    sts = [st for k, st in S.key_stores(g) if k == "modelType"]
    ctx.require_anchor(len(sts) >= 1, 'properties["modelType"] store in _generate_concrete_definition')
    for st in sts:
        v = st.value
        gs = [("" if pol else "not ") + ast.unparse(t) for t, pol in S.guards_of(st, gp)]
        is_const = isinstance(v, ast.Dict) and len(v.keys) == 1 and isinstance(v.keys[0], ast.Constant) and v.keys[0].value == "const"
        mt = c11._sym(g, v.values[0], gp) if is_const else None
        if is_const and mt and all(a.subject == "cls" and a.suffix == "" and a.prefix == "" for a in mt) and gs == ["cls.serialization.with_model_type"]:
            ctx.ok("MODELTYPE", g, st, what="leaf: modelType const = model type of the class, iff with_model_type")
        else:
            ctx.fail("MODELTYPE", g, st, f"modelType is stored as `{short(v)}` under {gs}; expected the const of the class's own model type whenever with_model_type", construct="modelType const (leaf)")
    # required in the leaf arm unless a parent requires it
    reqs = [n for n in walk_function_body(g.node) if isinstance(n, ast.Call) and isinstance(n.func, ast.Attribute) and n.func.attr == "append" and dotted_of(n.func.value) == "required"]
    ok_req = False
    for r in reqs:
        a = r.args[0] if r.args else None
        txt = ast.unparse(a) if a is not None else ""
        if "'modelType'" in txt or '"modelType"' in txt:
            gs = [("" if pol else "not ") + ast.unparse(t) for t, pol in S.guards_of(S.stmt_of(r, gp), gp)]
            if "cls.serialization.with_model_type" in gs:
                ok_req = True
                ctx.ok("MODELTYPE", g, r, what=f"leaf: modelType required (guards {gs})")
    if not ok_req:
        ctx.fail("MODELTYPE", g, g.node, "a concrete class without descendants whose parents do not require modelType gets the const but `modelType` is not in `required`: a document lacking modelType validates", construct="modelType required (leaf)")
    # descendants arm: allOf of _abstract and const
    dicts = [n for n in walk_function_body(g.node) if isinstance(n, ast.Dict) and any(isinstance(k, ast.Constant) and k.value == "const" for k in n.keys)]
    arm = [d for d in dicts if any(ast.unparse(t) == "len(cls.concrete_descendants) > 0" and pol for t, pol in S.guards_of(d, gp))]
    if arm:
        mt = c11._sym(g, arm[0].values[0], gp)
        if mt and all(a.subject == "cls" and a.suffix == "" for a in mt):
            ctx.ok("MODELTYPE", g, arm[0], what="class with descendants: modelType const = own model type")
        else:
            ctx.fail("MODELTYPE", g, arm[0], "the const of the descendants arm is not the class's own model type", construct="modelType const (descendants arm)")
    else:
        ctx.fail("MODELTYPE", g, g.node, "no modelType const in the arm for classes with concrete descendants", construct="modelType const (descendants arm)")
    # inheritable: the top-most class with model type requires modelType
    h = p.func("jsonschema.main:_generate_inheritable_definition")
    hp = S.parents_of(h)
    hreq = [n for n in walk_function_body(h.node) if isinstance(n, ast.Call) and isinstance(n.func, ast.Attribute) and n.func.attr == "append" and dotted_of(n.func.value) == "required" and "modelType" in ast.unparse(n)]
    if hreq:
        ctx.ok("MODELTYPE", h, hreq[0], what="inheritable: the top-most class with a model type requires modelType")
    else:
        ctx.fail("MODELTYPE", h, h.node, "the inheritable definition never requires modelType", construct="modelType required (inheritable)")
    # choice: self (if concrete) and every concrete descendant
    ch = p.func("jsonschema.main:_generate_choice_definition")
    chp = S.parents_of(ch)
    loops = [n for n in walk_function_body(ch.node) if isinstance(n, ast.For)]
    ok_loop = [l for l in loops if dotted_of(l.iter) == "cls.concrete_descendants" and not any(isinstance(x, (ast.If, ast.Continue, ast.Break)) for x in ast.walk(l))]
    if ok_loop:
        ctx.ok("MODELTYPE", ch, ok_loop[0], what="choice lists every concrete descendant")
    else:
        ctx.fail("MODELTYPE", ch, ch.node, "the choice does not list every element of cls.concrete_descendants unconditionally: an instance of the missing class is rejected or dispatch is incomplete", construct="choice descendants")
    selfs = [n for n in walk_function_body(ch.node) if isinstance(n, ast.If) and ast.unparse(n.test) == "isinstance(cls, intermediate.ConcreteClass)"]
    if selfs:
        ctx.ok("MODELTYPE", ch, selfs[0], what="choice lists the class itself when it is concrete")
    else:
        ctx.fail("MODELTYPE", ch, ch.node, "the choice does not offer the class itself when it is concrete", construct="choice self")
    # ModelType enum: all concrete classes with model type
    gen = p.func("jsonschema.main:generate")
    mts = [n for n in walk_function_body(gen.node) if isinstance(n, ast.Assign) and dotted_of(n.targets[0]) == "model_types"]
    ctx.require_anchor(len(mts) == 1, "model_types in generate()")
    txt = ast.unparse(mts[0].value)
    if "symbol_table.concrete_classes" in txt and "with_model_type" in txt and "json_model_type" in txt:
        ctx.ok("MODELTYPE", gen, mts[0], what="ModelType enum = model types of all concrete classes serialized with model type")
    else:
        ctx.fail("MODELTYPE", gen, mts[0], f"ModelType enum is `{short(mts[0].value)}`", construct="ModelType enum")


def check_fld(ctx) -> None:
    p = ctx.p
    f = p.func("jsonschema.main:_translate_constraints")
    ft = artefacts(ctx.ty, f).types
    used: Set[str] = set()
    for n in walk_function_body(f.node):
        if isinstance(n, ast.Attribute) and dotted_of(n.value) == "constraints":
            used.add(n.attr)
    ci = p.cls("infer_for_schema._types:Constraints")
    fields = set()
    init = ci.methods.get("__init__")
    ctx.require_anchor(init is not None, "Constraints.__init__")
    for a in init.param_names():
        if a != "self":
            fields.add(a)
    EXCLUDED = {
        "set_of_primitives": "not translated by design (documented in the property: length, pattern and list-size constraints)",
        "set_of_enumeration_literals": "not translated by design",
    }
    for fld_name in sorted(fields):
        if fld_name in used:
            ctx.ok("FLD", f, None, what=f"Constraints.{fld_name} consumed")
        elif fld_name in EXCLUDED:
            ctx.ok("FLD", f, None, what=f"Constraints.{fld_name}: {EXCLUDED[fld_name]}", nontrivial=False)
        else:
            ctx.fail("FLD", f, f.node, f"Constraints.{fld_name} is never read by _translate_constraints: that kind of constraint cannot reach the schema", construct=f"Constraints.{fld_name}")
