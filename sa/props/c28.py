"""C28 Smoke check agrees with the real generators (DESIGN §4 C28)."""
import ast

from ..model import dotted_of
from ..rules import err, exitcode, seq
from ..flow import find_calls

CLAIM = (
    "on smoke.main.execute: every path to `return 0` passes, in this order, through source_to_atok, check_expected_imports, "
    "atok_to_symbol_table, intermediate.translate, infer_constraints_by_class and _smoke_transpile_to_csharp, and "
    "_smoke_transpile_to_csharp passes through verify_for_types, generate_types and generate_verification before its final return; "
    "every stage result is read before the next stage (ERR1/ERR3); every failing test leads to a write to stderr and `return 1`, "
    "a `return 0` writes nothing to stderr (ERR4); the front-end stage sequence equals the one of run.load_model."
    " SKIPS: the loops of the functions in scope have no more `continue`, `break` or in-loop `return` statements than the reference "
    "read on the unchanged tree (baselines/skips.json): a new skip means elements that were handled are no longer handled."
    " EXIT-PROP (shared with C03): the exit status of the smoke run reaches the process through main()/entry_point() and the `__main__` block."
)
NOTE = "Trusted base: callee identification by resolved name. Not decided: equality of the report with the recorded expectations under dev/test_data/smoke."
TECHNIQUE = "static analysis: must-pass-through and ordering on the CFG, exit-code/stream pairing, error-value discipline"

FRONT = ["source_to_atok", "check_expected_imports", "atok_to_symbol_table", "translate"]


def run(ctx) -> None:
    p = ctx.p
    ctx.rule("SEQ", "stages are called on every path to success, in order", floor=3)
    ctx.rule("ERR4", "exit code <-> stderr pairing in smoke execute", floor=6)
    ctx.rule("ERR1", "stage errors read before continuing", floor=5)
    ctx.rule("ERR1v", "stage values unused while error untested", floor=3)
    ctx.rule("ERR2", "no stage result dropped", floor=0)
    ctx.rule("ERR3", "collected errors returned", floor=1)
    ex = p.func("smoke.main:execute")
    seq.check_sequence(ctx, ex, "SEQ", FRONT + ["infer_constraints_by_class", "_smoke_transpile_to_csharp"], seq.returns_const(0))
    tr = p.func("smoke.main:_smoke_transpile_to_csharp")

    def final_return(node):
        return node.kind == "return" and node.stmt is tr.node.body[-1]

    seq.check_sequence(ctx, tr, "SEQ", ["verify_for_types", "generate_types", "generate_verification"], final_return, "transpile: ")
    lm = p.func("run:load_model")
    seq.check_sequence(ctx, lm, "SEQ", FRONT, lambda n: seq.returns_value_none(n) and not _in_cache_branch(lm, n), "load_model: ")
    exitcode.check_exit_contract(ctx, ex, "ERR4")
    for f in (ex, tr):
        err.check_err12(ctx, f, "ERR1", "ERR1v", "ERR2")
        err.check_err3(ctx, f, "ERR3")
    ctx.rule("EXIT-PROP", "the exit status computed by execute() reaches the process: main()/entry_point() return it and every `__main__` block hands it to sys.exit (shared with C03)", floor=5)
    from . import c03 as _c03
    _c03._check_exit_propagation(ctx)
    ctx.rule("SKIPS", "the loops of the functions in scope have no more continue/break/return-in-loop statements than the reference read on the unchanged tree", floor=1)
    from ..rules import skips as _skips
    _base = _skips.load_baseline()
    for _m in ctx.p.modules.values():
        if _m.name in ("aas_core_codegen.run", "aas_core_codegen.main", "aas_core_codegen.smoke.main"):
            for _f in _m.functions.values():
                _skips.check_skips(ctx, _f, "SKIPS", _base)


def _in_cache_branch(f, node) -> bool:
    """The cached-hit return of load_model legitimately skips the stages."""
    for n in ast.walk(f.node):
        if isinstance(n, ast.If) and isinstance(n.test, ast.Name) and n.test.id == "cache_model":
            if any(x is node.stmt for x in ast.walk(n)):
                return True
    return False
