"""C01 Meta-model front end never crashes (DESIGN §4 C01)."""
import ast

from ..model import dotted_of
from ..rules import err, idx, fmt, contract, seq, exitcode, attr, extparse
from ..scopes import in_front_end, funcs
from . import c16

CLAIM = (
    "crash classes whose absence is visible in the code of the front end (run, main, common, specific_implementations, parse/**, "
    "intermediate/**): (1) no stage's error value is dropped or its value used unchecked (ERR1-3), and functions promising a "
    "(value, error) XOR pair return exactly one on every return statement; (2) every constant subscript of an input-controlled node "
    "list (args, keywords, elts, targets, values, uniates, concatenants, ...) is dominated by an established length fact; (3) the "
    "regular-expression parser used for pattern verification is total as far as C16's totality clauses go (cursor preconditions, "
    "assertion arms, quantifier bounds, non-empty sets); (4) numeric format specs are applied to numbers; (5) icontract lambdas are "
    "well-typed against the decorated signature (a mistyped contract raises instead of reporting); (6) run.load_model reaches success "
    "only through all front-end stages and main.execute pairs its exit code with stderr; (7) no attribute is read from a union-typed "
    "value when a member of the union lacks it (isinstance narrowing followed through boolean operators, conditional expressions, "
    "comprehensions, asserts); (8) docutils, re.compile and ast.parse run on input-derived text only inside handlers covering their failures."
    " KEYED: a local mapping that is subscripted with the elements of a local list receives an entry for every element appended to that list "
    "(otherwise the report that uses the mapping raises KeyError)."
    " SKIPS (shared with C06): the verification and resolution loops of the front end have no more `continue` / `break` / in-loop `return` statements, comprehension filters or filter conjuncts than the reference read on the unchanged tree - a check that leaves more elements unexamined accepts models on which later stages assert."
)
NOTE = (
    "Trusted base: the resolver and CFG; the frozen table of lengths guaranteed by the Python grammar; one named exception "
    "(PatternVerification._extract_pattern_expr re-reads a shape validated by pattern_verification.try_to_understand). "
    "Not decided: totality over all texts - exceptions from library calls (asttokens, docutils, re), recursion depth, arithmetic, and any "
    "crash class outside (1)-(6)."
)
TECHNIQUE = "static analysis: CFG dataflow for error values and length facts, cursor typestate, contract typing, must-pass-through"

IDX_EXCEPTIONS = {
    ("aas_core_codegen/intermediate/_types.py", "PatternVerification._extract_pattern_expr"):
        "re-reads the shape that pattern_verification.try_to_understand validated (len(match_call.args) checked there) before the IR object is constructed",
}


def run(ctx) -> None:
    p = ctx.p
    ctx.rule("ERR1", "error of a (value, error) pair read on every path (front end)", floor=100)
    ctx.rule("ERR1v", "value not used while its error is untested (front end)", floor=80)
    ctx.rule("ERR2", "no error-returning call is an expression statement (front end)", floor=30)
    ctx.rule("ERR3", "non-empty error accumulators are handed on (front end)", floor=30)
    ctx.rule("RET-XOR", "functions with the XOR post-condition return exactly one of value/error at each return", floor=100)
    ctx.rule("IDX", "constant subscripts of input-controlled lists are dominated by length facts", floor=90)
    ctx.rule("FMT", "numeric format specs applied to numbers (front end)", floor=5)
    ctx.rule("CONTRACT", "icontract lambdas are well-typed against the decorated function", floor=8)
    ctx.rule("SEQ", "load_model reaches success only through all front-end stages", floor=1)
    ctx.rule("ERR4", "main.execute pairs exit code and stderr", floor=8)
    ctx.rule("ATTR", "no attribute access on a union-typed value one of whose members lacks the attribute (front end)", floor=300)
    ctx.rule("EXT-PARSE", "external parsers (docutils, re, ast) run on input-derived text inside a handler covering their failures", floor=2)
    for r, d, fl in (
        ("PRE-CURSOR", "retree: _parse_range_char preconditions established", 2),
        ("ARM", "retree: AssertionError arms unreachable", 5),
        ("ASSERT-NONE", "retree: assert x is None not reachable with non-None x", 0),
        ("PRE-QUANT", "retree: Quantifier preconditions", 8),
        ("NONEMPTY", "retree: no empty character set accepted", 1),
    ):
        ctx.rule(r, d, fl)
    for f in funcs(p, in_front_end):
        err.check_err12(ctx, f, "ERR1", "ERR1v", "ERR2")
        err.check_err3(ctx, f, "ERR3")
        err.check_ret_xor(ctx, f, "RET-XOR")
        fmt.check_format_specs(ctx, f, "FMT")
        contract.check_contract_lambdas(ctx, f, "CONTRACT")
        attr.check_attr(ctx, f, "ATTR")
        extparse.check_ext_parse(ctx, f, "EXT-PARSE")
        if f.module.name.startswith(("aas_core_codegen.parse", "aas_core_codegen.intermediate")):
            if (f.module.relpath, f.qualname) in IDX_EXCEPTIONS:
                continue
            init = None
            if f.cls is not None and f.name == "transform" and "matches" in f.cls.methods:
                init = idx.matches_facts(ctx, f.cls.methods["matches"])
            idx.check_idx(ctx, f, "IDX", init)
    c16._check_range_char_preconditions(ctx)
    c16._check_assertion_arms(ctx)
    c16._check_assert_none(ctx)
    c16._check_quantifier(ctx)
    c16._check_nonempty_ranges(ctx)
    lm = p.func("run:load_model")
    from .c28 import FRONT, _in_cache_branch
    seq.check_sequence(ctx, lm, "SEQ", FRONT, lambda n: seq.returns_value_none(n) and not _in_cache_branch(lm, n), "load_model: ")
    exitcode.check_exit_contract(ctx, p.func("main:execute"), "ERR4")

    # a verification loop of the front end that skips more than it did lets a model through on which later stages assert
    ctx.rule("SKIPS", "verification/resolution loops of the front end have no more continue/break/return-in-loop statements and comprehension filters than the reference read on the unchanged tree (shared with C06)", floor=40)
    from ..rules import skips as _skips
    _base = _skips.load_baseline()
    for _m in ctx.p.modules.values():
        if _m.name in ("aas_core_codegen.intermediate._translate", "aas_core_codegen.intermediate._hierarchy", "aas_core_codegen.intermediate.construction", "aas_core_codegen.parse._translate"):
            for _f in _m.functions.values():
                _skips.check_skips(ctx, _f, "SKIPS", _base)
    ctx.rule("KEYED", "a local mapping subscripted with elements of a local list has an entry for every appended element", floor=1)
    from ..rules import keyed as _keyed
    for _m in ctx.p.modules.values():
        if _m.name.startswith(("aas_core_codegen.parse", "aas_core_codegen.intermediate")):
            for _f in _m.functions.values():
                _keyed.check_keyed(ctx, _f, "KEYED")