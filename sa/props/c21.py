"""C21 Distinct meta-model names never collide in generated code (DESIGN §4 C21)."""
import ast

from ..flow import artefacts, calls_in, find_calls
from ..model import dotted_of, short
from ..rules import err, seq
from ..scopes import SDK_TARGETS

CLAIM = (
    "for each of the six SDK targets: (1) the collision verifiers return what they collect (ERR3: the bundled error is not dropped), "
    "(2) verify() reaches success only through _verify_structure_name_collisions, which calls _verify_intra_structure_collisions for "
    "every one of our types and appends its result, and the target's main reads the errors of verify_for_types before generating "
    "(ERR1, ERR4); (3) scope coverage: the verifier converts names with the target's own naming functions for every entity kind the "
    "property lists in that scope - types (class/struct/interface/enum names), enumeration literals, properties (incl. getter/setter "
    "names where the target emits them) and methods; (4) jsonschema's Definitions.update/update_for results are consumed and xsd keeps "
    "its observed-definitions check."
    " SKIPS: the loops of the functions in scope have no more `continue`, `break` or in-loop `return` statements than the reference "
    "read on the unchanged tree (baselines/skips.json): a new skip means elements that were handled are no longer handled."
    " SKIPS also covers xsd.main and jsonschema.main (the duplicate-definition tests of the schema targets)."
)
NOTE = (
    "Trusted base: classification of naming functions into entity kinds by their names. Not decided: absence of collisions among derived "
    "names the verifier does not enumerate (argument names, constants, functions); the claim is verifier/generator agreement per kind."
)
TECHNIQUE = "static analysis: sibling agreement across the six verifiers (entity-kind coverage), must-pass-through, error-accumulator typestate"

KINDS = {
    "type": ("class_name", "struct_name", "interface_name", "enum_name", "name_of"),
    "enumeration literal": ("enum_literal_name",),
    "property": ("property_name", "getter_name", "setter_name", "private_property_name", "mutable_getter_name"),
    "method": ("method_name",),
}


def run(ctx) -> None:
    p = ctx.p
    ctx.rule("ERR3", "collision verifiers return the errors they collect", floor=12)
    ctx.rule("ERR1", "verify / main read the verification errors", floor=12)
    ctx.rule("ERR1v", "verified table not used while errors untested", floor=6)
    ctx.rule("ERR2", "no error-returning call dropped", floor=0)
    ctx.rule("SEQ", "verify() passes through the collision checks; every our_type is checked", floor=12)
    ctx.rule("COVER", "each verifier names every entity kind (types, enum literals, properties, methods) with the target's naming functions", floor=24)
    ctx.rule("DEFS", "schema targets detect duplicate definitions", floor=3)
    ctx.rule("SCOPE", "no member/literal is skipped by the verifiers, and names that share a scope in the target are looked up in one table", floor=24)
    for t in SDK_TARGETS:
        m = p.module(f"{t}.lib._generate_types")
        intra = p.func(f"{t}.lib._generate_types:_verify_intra_structure_collisions")
        inter = p.func(f"{t}.lib._generate_types:_verify_structure_name_collisions")
        verify = p.func(f"{t}.lib._generate_types:verify")
        main = p.func(f"{t}.main:execute")
        for f in (intra, inter, verify):
            err.check_err3(ctx, f, "ERR3")
            err.check_err12(ctx, f, "ERR1", "ERR1v", "ERR2")
        # main: only the verify_for_types pair
        err.check_err12(ctx, main, "ERR1", "ERR1v", "ERR2")
        seq.check_sequence(ctx, verify, "SEQ", ["_verify_structure_name_collisions"], seq.returns_value_none, f"{t}: ")
        # inter calls intra in a loop over all our types and appends the result
        ok_loop = False
        for loop in [n for n in ast.walk(inter.node) if isinstance(n, ast.For)]:
            it = dotted_of(loop.iter) or ""
            calls = [c for c in ast.walk(loop) if isinstance(c, ast.Call) and dotted_of(c.func) == "_verify_intra_structure_collisions"]
            if calls and it.endswith(".our_types"):
                appended = any(isinstance(c, ast.Call) and isinstance(c.func, ast.Attribute) and c.func.attr in ("append", "extend") for c in ast.walk(loop))
                ok_loop = appended
        what = f"{t}: intra-structure check applied to every element of symbol_table.our_types"
        if ok_loop:
            ctx.ok("SEQ", inter, inter.node, what=what)
        else:
            ctx.fail("SEQ", inter, inter.node, "_verify_intra_structure_collisions is not applied to every one of symbol_table.our_types (or its result is not collected)", construct=what)
        # coverage per entity kind
        used = set()
        for f in (intra, inter):
            for c in ast.walk(f.node):
                if isinstance(c, ast.Call):
                    d = dotted_of(c.func) or ""
                    if d.startswith(f"{t}_naming.") or d.startswith("naming."):
                        used.add(d.split(".")[-1])
        for kind, fns in KINDS.items():
            hit = sorted(used & set(fns))
            what = f"{t}: {kind} names checked via {hit}"
            if hit:
                ctx.ok("COVER", intra, intra.node, what=what)
            else:
                ctx.fail("COVER", intra, intra.node,
                         f"the {t} collision verifiers never convert a {kind} name ({'/'.join(fns)}): two {kind} names that become equal in {t} are generated without a collision error",
                         construct=f"{t}: {kind} names not checked")
        _check_scopes(ctx, t, intra, inter)
    # schema targets
    js = p.func("jsonschema.main:generate")
    upd = [c for c in find_calls(js.node, lambda c: isinstance(c.func, ast.Attribute) and c.func.attr in ("update", "update_for") and dotted_of(c.func.value) == "definitions")]
    ctx.require_anchor(len(upd) >= 2, "jsonschema.generate updates the definitions")
    err.check_err12(ctx, js, "ERR1", "ERR1v", "ERR2")
    before = len(ctx.findings)
    for d in ("update", "update_for"):
        f = p.func(f"jsonschema.main:Definitions.{d}")
        has = any(isinstance(n, ast.If) and any(isinstance(c, ast.Compare) and isinstance(c.ops[0], ast.In) for c in ast.walk(n.test)) and any(isinstance(r, ast.Return) and r.value is not None and not (isinstance(r.value, ast.Constant) and r.value.value is None) for r in n.body)
                  and any(isinstance(c, ast.Call) and (dotted_of(c.func) or "").split(".")[-1] == "Error" for st_ in n.body for c in ast.walk(st_)) for n in ast.walk(f.node))
        if has:
            ctx.ok("DEFS", f, f.node, what=f"Definitions.{d} returns an Error when the key already exists")
        else:
            ctx.fail("DEFS", f, f.node, f"Definitions.{d} no longer reports an already defined key", construct=f"Definitions.{d} duplicate test")
    xg = p.func("xsd.main:_generate")
    from ..rules import own
    defs = own.local_defs(xg)
    has = False
    for n in ast.walk(xg.node):
        if isinstance(n, ast.If) and isinstance(n.test, ast.Compare) and isinstance(n.test.left, ast.Name) and isinstance(n.test.ops[0], ast.IsNot):
            og = own.origins(xg, n.test.left, defs)
            reports = any(isinstance(c, ast.Call) and dotted_of(c.func) in ("errors.append", "Error") for c in ast.walk(ast.Module(body=n.body, type_ignores=[])))
            if reports and any("observed_definitions" in o for o in og):
                has = True
    if has:
        ctx.ok("DEFS", xg, xg.node, what="xsd._generate tests new definitions against observed_definitions")
    else:
        ctx.fail("DEFS", xg, xg.node, "xsd._generate no longer detects duplicate definitions", construct="xsd observed_definitions")
    ctx.rule("SKIPS", "the loops of the functions in scope have no more continue/break/return-in-loop statements than the reference read on the unchanged tree", floor=6)
    from ..rules import skips as _skips
    _base = _skips.load_baseline()
    for _m in ctx.p.modules.values():
        if _m.name.endswith(".lib._generate_types") or _m.name in ("aas_core_codegen.xsd.main", "aas_core_codegen.jsonschema.main"):
            for _f in _m.functions.values():
                _skips.check_skips(ctx, _f, "SKIPS", _base)


def _kind_of(fn_name: str):
    for kind, fns in KINDS.items():
        if fn_name in fns:
            return kind
    return None


def _check_scopes(ctx, t: str, intra, inter) -> None:
    """(a) the loops over literals / properties / methods have no ``continue``/``break``: every member takes part;
    (b) within one verifier, the names of kinds that live in one scope of the target are registered in one table:
    all kinds in the inter-structure verifier (package/namespace scope), properties and methods in the intra one."""
    for f in (intra, inter):
        for loop in [n for n in ast.walk(f.node) if isinstance(n, ast.For)]:
            it = dotted_of(loop.iter) or ""
            if it.split(".")[-1] not in ("literals", "properties", "methods"):
                continue
            skips = [x for x in ast.walk(loop) if isinstance(x, (ast.Continue, ast.Break))]
            what = f"{t}: every element of {it} takes part in the collision check"
            if skips:
                ctx.fail("SCOPE", f, skips[0], f"the loop over `{it}` skips some elements (`{short(skips[0])}` at line {skips[0].lineno}): a collision involving a skipped (e.g. inherited) member is not reported although the member is generated", construct=what)
            else:
                ctx.ok("SCOPE", f, loop, what=what)
        # name variable -> kind, by the latest assignment before the use (variables are reused across arms)
        assigns = []  # (lineno, var, kind)
        for n in ast.walk(f.node):
            if isinstance(n, ast.Assign) and len(n.targets) == 1 and isinstance(n.targets[0], ast.Name) and isinstance(n.value, ast.Call):
                d = dotted_of(n.value.func) or ""
                k = _kind_of(d.split(".")[-1]) if (d.startswith(f"{t}_naming.") or d.startswith("naming.")) else None
                assigns.append((n.lineno, n.targets[0].id, k))
            if isinstance(n, ast.For) and isinstance(n.target, ast.Name) and dotted_of(n.iter) == "names":
                assigns.append((n.lineno, n.target.id, "type"))
        assigns.sort()

        def kind_at(var: str, line: int):
            k = None
            for ln, v, kk in assigns:
                if v == var and ln <= line:
                    k = kk
            return k

        tables = {}
        for n in ast.walk(f.node):
            tbl = var = None
            if isinstance(n, ast.Subscript) and isinstance(n.value, ast.Name) and isinstance(n.slice, ast.Name) and isinstance(n.ctx, ast.Store):
                tbl, var = n.value.id, n.slice.id
            elif isinstance(n, ast.Compare) and len(n.ops) == 1 and isinstance(n.ops[0], (ast.In, ast.NotIn)) and isinstance(n.left, ast.Name) and isinstance(n.comparators[0], ast.Name):
                tbl, var = n.comparators[0].id, n.left.id
            elif isinstance(n, ast.Call) and isinstance(n.func, ast.Attribute) and n.func.attr == "get" and isinstance(n.func.value, ast.Name) and n.args and isinstance(n.args[0], ast.Name):
                tbl, var = n.func.value.id, n.args[0].id
            if var is not None:
                k = kind_at(var, n.lineno)
                if k is not None:
                    tables.setdefault(k, set()).add(tbl)
        if f is inter:
            groups = [sorted(tables)]
            scope = "package/namespace scope"
        else:
            groups = [[k for k in ("property", "method") if k in tables]]
            scope = "class scope"
        for g in groups:
            if not g:
                continue
            used = set()
            for k in g:
                used |= tables[k]
            what = f"{t}: {f.name}: {', '.join(g)} names share one table ({scope})"
            if len(used) == 1:
                ctx.ok("SCOPE", f, f.node, what=what)
            else:
                ctx.fail("SCOPE", f, f.node, f"the names of {g} live in one {scope} of the {t} code, but the verifier registers them in different tables {sorted(used)}: a {g[0]} colliding with a {g[-1]} is not reported", construct=what)
