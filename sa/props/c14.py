"""C14 XSD enforces the constraints a class declares itself (DESIGN §4 C14)."""
import ast
from typing import Dict, List, Optional, Set

from ..flow import kwarg
from ..model import FuncInfo, dotted_of, short, walk_function_body
from ..rules import param
from ..rules import schema as S
from ..scopes import PKG

CLAIM = (
    "the structural clauses of `every own constraint reaches the XSD`: (1) SRC: in _translate_to_simple_type the minimum comes from "
    "len_constraint.min_value and the maximum from .max_value, every relevant pattern reaches the translation (single pattern translated "
    "directly, several through the intersection over ALL of them), and the restriction object is built whenever one of the three is set, "
    "with min_length/max_length/pattern passed to the parameters of the same name (which the constructor stores unchanged); (2) FACETS: "
    "_value_to_type_element_or_type_identifier emits xs:pattern, xs:minLength, xs:maxLength from restriction.pattern/.min_length/"
    ".max_length, each guarded only by the presence of its own source, as children of the xs:restriction that is returned; (3) OCCURS: "
    "list sizes go to minOccurs <- min_value and maxOccurs <- max_value of the item element that is appended to the sequence, defaults "
    "0/unbounded; (4) PROPS: _define_properties emits one element per property the class specifies itself (the documented exclusion: "
    "inherited ones), marks only Optional properties minOccurs=0, and appends every element to the returned sequence; the class group "
    "references the group of every parent; the choice group offers the class itself (if concrete) and every concrete descendant."
    " SKIPS: the loops of the functions in scope have no more `continue`, `break` or in-loop `return` statements than the reference "
    "read on the unchanged tree (baselines/skips.json): a new skip means elements that were handled are no longer handled."
    " TRUTHY: in the modules in scope no Optional[int|str|float|bytes] is tested by truthiness (a bound of 0 or an empty pattern is a "
    "constraint, not the absence of one); zero instances on the unchanged tree, kept alive by a positive control."
    " OCCURS also requires each bound to be taken whenever it is set, independently of the other bound. BOUND / DIR / INTER (shared with C15) decide the arithmetic and folding direction of the inference that feeds the facets."
)
NOTE = (
    "Not decided: the verdict of a validator on a mutated document (runtime). Documented exclusions of the property: tightenings by "
    "descendants. The general XML-character pattern is deliberately skipped by the generator (frozen, see PATTERN-SKIP)."
)
TECHNIQUE = "static analysis: keyword/source table extraction with guard analysis, constructor parameter flow, def-use flow of emitted elements into the returned tree"

XM = f"{PKG}.xsd.main"


def _guards_txt(node, parents) -> List[str]:
    return [("" if pol else "not ") + ast.unparse(t) for t, pol in S.guards_of(node, parents)]


def run(ctx) -> None:
    ctx.rule("SRC", "length bounds and patterns flow from the constraints into the restriction object", floor=6)
    ctx.rule("PARAM", "_SimpleTypeRestriction / _SimpleType store their parameters unchanged", floor=5)
    ctx.rule("FACETS", "xs:pattern / xs:minLength / xs:maxLength emitted from their own source under the returned xs:restriction", floor=3)
    ctx.rule("OCCURS", "list sizes reach minOccurs/maxOccurs of the item element", floor=3)
    ctx.rule("PROPS", "one element per own property; only Optional is minOccurs=0; parents' groups referenced; choice complete", floor=5)
    check_src(ctx)
    for key in ("xsd.main:_SimpleTypeRestriction.__init__", "xsd.main:_SimpleType.__init__", "xsd.main:_TypeElementOrTypeIdentifier.__init__"):
        param.check_param_flow(ctx, ctx.p.func(key), "PARAM")
    check_facets(ctx)
    check_occurs(ctx)
    check_props(ctx)
    # the inference the schema is fed from (shared with C15): bound arithmetic per comparator, folding direction, intersection
    ctx.rule("BOUND", "each (operand order, comparator) arm of the length matcher yields the oracle's (bound kind, offset) (shared with C15)", floor=12)
    ctx.rule("DIR", "min bounds fold with max, max bounds fold with min; merging two ranges intersects them (shared with C15)", floor=8)
    ctx.rule("INTER", "set constraints are intersected; patterns de-duplicated (shared with C15)", floor=3)
    from . import c15 as _c15
    _c15._check_bounds(ctx)
    _c15._check_direction(ctx)
    _c15._check_intersection(ctx)
    ctx.rule("STACK-ORDER", "constraints of constrained-primitive chains and ancestors are stacked parents-first (shared with C12/C15)", floor=2)
    from ..rules import stack
    for m in ctx.p.modules.values():
        if m.name.startswith(f"{PKG}.infer_for_schema"):
            for f in m.functions.values():
                stack.check_stack_order(ctx, f, "STACK-ORDER")
    ctx.rule("SKIPS", "the loops of the functions in scope have no more continue/break/return-in-loop statements than the reference read on the unchanged tree", floor=5)
    from ..rules import skips as _skips
    _base = _skips.load_baseline()
    for _m in ctx.p.modules.values():
        if _m.name == "aas_core_codegen.xsd.main" or _m.name.startswith("aas_core_codegen.infer_for_schema"):
            for _f in _m.functions.values():
                _skips.check_skips(ctx, _f, "SKIPS", _base)
    ctx.rule("TRUTHY", "no Optional int/str/float/bytes is tested by truthiness (0 and the empty string are values, not absence)", floor=1)
    from ..rules import truthy as _truthy
    _truthy.positive_control(ctx, "TRUTHY")
    for _m in ctx.p.modules.values():
        if _m.name == "aas_core_codegen.xsd.main" or _m.name.startswith("aas_core_codegen.infer_for_schema"):
            for _f in _m.functions.values():
                _truthy.check_truthy(ctx, _f, "TRUTHY")


def check_src(ctx) -> None:
    p = ctx.p
    f = p.func("xsd.main:_translate_to_simple_type")
    parents = S.parents_of(f)
    assigns = [n for n in walk_function_body(f.node) if isinstance(n, (ast.Assign, ast.AnnAssign)) and (len(n.targets) == 1 if isinstance(n, ast.Assign) else True)
               and isinstance((n.targets[0] if isinstance(n, ast.Assign) else n.target), ast.Name) and n.value is not None]
    for a in assigns:
        if isinstance(a, ast.AnnAssign):
            a.targets = [a.target]  # uniform access below
    # the local variables are whatever is handed to the constructor of the restriction (names are not frozen)
    ctor0 = [n for n in walk_function_body(f.node) if isinstance(n, ast.Call) and dotted_of(n.func) == "_SimpleTypeRestriction"]
    ctx.require_anchor(len(ctor0) == 1, "one _SimpleTypeRestriction(...) call")
    local = {k: dotted_of(kwarg(ctor0[0], k)) for k in ("min_length", "max_length", "pattern")}
    ctx.require_anchor(all(v is not None for v in local.values()), "the restriction is built from local variables")
    for var, attr in ((local["min_length"], "min_value"), (local["max_length"], "max_value")):
        srcs = [a for a in assigns if a.targets[0].id == var and not (isinstance(a.value, ast.Constant) and a.value.value is None)]
        what = f"{var} <- constraints.len_constraint.{attr}"
        if len(srcs) == 1 and ast.unparse(srcs[0].value) == f"constraints.len_constraint.{attr}":
            g = set(_guards_txt(srcs[0], parents))
            if g <= {"constraints is not None", "constraints.len_constraint is not None"}:
                ctx.ok("SRC", f, srcs[0], what=what)
            else:
                ctx.fail("SRC", f, srcs[0], f"`{var}` is only set under {sorted(g)}: some length constraints never reach the XSD", construct=what + " guard")
        else:
            ctx.fail("SRC", f, f.node, f"`{var}` is not assigned from constraints.len_constraint.{attr} (got {[short(a.value) for a in srcs]}): the {attr.split('_')[0]} length facet is wrong or missing", construct=what)
    # patterns: the relevant list is a filter of constraints.patterns by the one frozen skip
    rel = [a for a in assigns if isinstance(a.value, ast.ListComp) and any(ast.unparse(g.iter) == "constraints.patterns" for g in a.value.generators)]
    ctx.require_anchor(len(rel) == 1, "one filtered list over constraints.patterns")
    relvar = rel[0].targets[0].id
    comp = rel[0].value
    conds = [c for g in comp.generators for c in g.ifs]
    ok_skip = len(conds) == 1 and isinstance(conds[0], ast.Compare) and isinstance(conds[0].ops[0], ast.NotEq) and ast.unparse(conds[0].left).endswith(".pattern") \
        and isinstance(conds[0].comparators[0], ast.Constant) and conds[0].comparators[0].value == "^[\\x09\\x0A\\x0D\\x20-\\uD7FF\\uE000-\\uFFFD\\U00010000-\\U0010FFFF]*$"
    if ok_skip:
        ctx.ok("SRC", f, rel[0], what="PATTERN-SKIP: only the general XML-character pattern is skipped (frozen exclusion: every XML document satisfies it)")
    else:
        ctx.fail("SRC", f, rel[0], f"the patterns are filtered by `{[short(c) for c in conds]}`; only the general XML-character pattern may be skipped", construct="pattern filter")
    # single pattern: element [0]; several: loop over the whole list feeding the merger
    single = [n for n in walk_function_body(f.node) if isinstance(n, ast.Call) and dotted_of(n.func) == "_translate_pattern" and n.args and ast.unparse(n.args[0]) == f"{relvar}[0].pattern"]
    g_single = set(_guards_txt(single[0], parents)) if single else set()
    if single and f"len({relvar}) == 1" in g_single:
        ctx.ok("SRC", f, single[0], what="single pattern: translated directly")
    else:
        ctx.fail("SRC", f, f.node, "no direct translation of the single relevant pattern", construct="single pattern arm")
    loops = [n for n in walk_function_body(f.node) if isinstance(n, ast.For) and dotted_of(n.iter) == relvar]
    merged = [n for n in walk_function_body(f.node) if isinstance(n, ast.Call) and dotted_of(n.func) == "_translate_pattern" and n.args and "merger" in ast.unparse(n.args[0])]
    if loops and merged and not any(isinstance(x, (ast.Break, ast.Continue)) for x in ast.walk(loops[0])):
        ctx.ok("SRC", f, loops[0], what="several patterns: every relevant pattern enters the merger, whose text is translated")
    else:
        ctx.fail("SRC", f, f.node, "with several patterns not every one enters the intersection that is translated", construct="several patterns arm")
    # the translated pattern is what the restriction gets
    pat_assign = [a for a in assigns if a.targets[0].id == local["pattern"] and dotted_of(a.value) == "translated_pattern"]
    if pat_assign:
        ctx.ok("SRC", f, pat_assign[0], what="pattern <- translated_pattern")
    else:
        ctx.fail("SRC", f, f.node, "the translated pattern is not stored in `pattern`", construct="pattern <- translated_pattern")
    # construction of the restriction
    ctor = [n for n in walk_function_body(f.node) if isinstance(n, ast.Call) and dotted_of(n.func) == "_SimpleTypeRestriction"]
    ctx.require_anchor(len(ctor) == 1, "one _SimpleTypeRestriction(...) call")
    c = ctor[0]
    # each keyword gets the variable that was fed from the matching source (checked above): min <- min_value etc.
    fed = {}
    for a in assigns:
        txt = ast.unparse(a.value)
        if txt.endswith("len_constraint.min_value"):
            fed["min_length"] = a.targets[0].id
        elif txt.endswith("len_constraint.max_value"):
            fed["max_length"] = a.targets[0].id
        elif dotted_of(a.value) == "translated_pattern":
            fed["pattern"] = a.targets[0].id
    bad = [k for k in ("min_length", "max_length", "pattern") if dotted_of(kwarg(c, k)) != fed.get(k)]
    if bad:
        ctx.fail("SRC", f, c, f"_SimpleTypeRestriction is built with {[(k, short(kwarg(c, k)) if kwarg(c, k) is not None else None) for k in bad]}: the facet gets another value", construct="restriction arguments")
    else:
        ctx.ok("SRC", f, c, what="_SimpleTypeRestriction(min_length=<min>, max_length=<max>, pattern=<translated pattern>)")
    g = S.guards_of(c, parents)
    cond = ast.unparse(g[-1][0]) if g else ""
    need = {f"{local['min_length']} is not None", f"{local['max_length']} is not None", f"{local['pattern']} is not None"}
    got = set()
    if g and isinstance(g[-1][0], ast.BoolOp) and isinstance(g[-1][0].op, ast.Or):
        got = {ast.unparse(v) for v in g[-1][0].values}
    if len(g) == 1 and got == need:
        ctx.ok("SRC", f, c, what="built whenever one of the three is set")
    else:
        ctx.fail("SRC", f, c, f"the restriction is built under `{cond}`, not whenever a minimum, a maximum or a pattern is set: a constraint alone is dropped", construct="restriction guard")
    # returned
    rets = [n for n in walk_function_body(f.node) if isinstance(n, ast.Return) and isinstance(n.value, ast.Tuple) and isinstance(n.value.elts[0], ast.Call) and dotted_of(n.value.elts[0].func) == "_SimpleType"]
    if rets and dotted_of(kwarg(rets[0].value.elts[0], "restriction", 1)) == "restriction":
        ctx.ok("SRC", f, rets[0], what="_SimpleType(restriction=restriction) returned")
    else:
        ctx.fail("SRC", f, f.node, "the restriction is not part of the returned _SimpleType", construct="restriction returned")


def check_facets(ctx) -> None:
    p = ctx.p
    f = p.func("xsd.main:_value_to_type_element_or_type_identifier")
    parents = S.parents_of(f)
    subs = [n for n in walk_function_body(f.node) if isinstance(n, ast.Call) and dotted_of(n.func) == "ET.SubElement" and len(n.args) >= 2 and isinstance(n.args[1], ast.Constant)]
    table = {"xs:pattern": "pattern", "xs:minLength": "min_length", "xs:maxLength": "max_length"}
    restr = [n for n in walk_function_body(f.node) if isinstance(n, ast.Assign) and isinstance(n.value, ast.Call) and dotted_of(n.value.func) == "ET.SubElement" and len(n.value.args) >= 2
             and isinstance(n.value.args[1], ast.Constant) and n.value.args[1].value == "xs:restriction"]
    ctx.require_anchor(len(restr) == 1, "one xs:restriction sub-element")
    rvar = dotted_of(restr[0].targets[0])
    base = restr[0].value.args[2] if len(restr[0].value.args) > 2 else None
    if isinstance(base, ast.Dict) and base.keys and isinstance(base.keys[0], ast.Constant) and base.keys[0].value == "base" and ast.unparse(base.values[0]) == "simple_type.tajp":
        ctx.ok("FACETS", f, restr[0], what="xs:restriction base = the primitive's XSD type")
    else:
        ctx.fail("FACETS", f, restr[0], "xs:restriction is not based on simple_type.tajp", construct="restriction base")
    for tag, attr in table.items():
        mine = [s for s in subs if s.args[1].value == tag]
        what = f"{tag} <- restriction.{attr}"
        if len(mine) != 1:
            ctx.fail("FACETS", f, f.node, f"{len(mine)} emissions of `{tag}`: the {attr} constraint never reaches the XSD (or twice)", construct=what)
            continue
        s = mine[0]
        val = s.args[2] if len(s.args) > 2 else None
        src_ok = isinstance(val, ast.Dict) and len(val.keys) == 1 and isinstance(val.keys[0], ast.Constant) and val.keys[0].value == "value" \
            and ast.unparse(val.values[0]) in (f"simple_type.restriction.{attr}", f"str(simple_type.restriction.{attr})")
        parent_ok = dotted_of(s.args[0]) == rvar
        g = set(_guards_txt(s, parents))
        allowed = {f"simple_type.restriction.{attr} is not None", "simple_type.restriction is not None", "not simple_type.restriction is None", "primitive_type is not None"}
        if not src_ok:
            ctx.fail("FACETS", f, s, f"`{tag}` gets `{short(val) if val is not None else '?'}`, not restriction.{attr}", construct=what)
        elif not parent_ok:
            ctx.fail("FACETS", f, s, f"`{tag}` is not a child of the returned xs:restriction", construct=what + " parent")
        elif f"simple_type.restriction.{attr} is not None" not in g or not g <= allowed:
            ctx.fail("FACETS", f, s, f"`{tag}` is emitted under {sorted(g)}, not exactly when restriction.{attr} is set", construct=what + " guard")
        else:
            ctx.ok("FACETS", f, s, what=what)


def check_occurs(ctx) -> None:
    p = ctx.p
    f = p.func("xsd.main:_value_to_type_element_or_type_identifier")
    parents = S.parents_of(f)
    assigns = [n for n in walk_function_body(f.node) if isinstance(n, ast.Assign) and len(n.targets) == 1]
    other = {"min_value": "max_value", "max_value": "min_value"}
    for var, attr, default, key in (("min_occurs", "min_value", "0", "minOccurs"), ("max_occurs", "max_value", "unbounded", "maxOccurs")):
        defs = [a for a in assigns if dotted_of(a.targets[0]) == var]
        consts = [a for a in defs if isinstance(a.value, ast.Constant)]
        srcs = [a for a in defs if not isinstance(a.value, ast.Constant)]
        what = f"{key} <- len_constraint.{attr} (default {default})"
        stores = [a for a in assigns if isinstance(a.targets[0], ast.Subscript) and isinstance(a.targets[0].slice, ast.Constant) and a.targets[0].slice.value == key
                  and ast.unparse(a.targets[0].value) == "item_element.attrib" and dotted_of(a.value) == var]
        ok = (
            len(consts) == 1 and consts[0].value.value == default and len(srcs) == 1
            and ast.unparse(srcs[0].value) == f"str(constraints.len_constraint.{attr})"
            and f"constraints.len_constraint.{attr} is not None" in _guards_txt(srcs[0], parents)
            # the bound does not depend on the other bound being present
            and not [g for g in _guards_txt(srcs[0], parents) if f"len_constraint.{other[attr]}" in g]
            and len(stores) == 1 and not [g for g in _guards_txt(stores[0], parents) if "len_constraint" in g]
        )
        if ok:
            ctx.ok("OCCURS", f, srcs[0], what=what)
        else:
            ctx.fail("OCCURS", f, f.node, f"`{key}` of the list item is not the string of len_constraint.{attr} (default {default!r}), taken whenever that bound is set (independently of the other bound) and stored unconditionally on item_element", construct=what)
    appended = [n for n in walk_function_body(f.node) if isinstance(n, ast.Call) and ast.unparse(n.func) == "xs_sequence.append" and n.args and dotted_of(n.args[0]) == "item_element"]
    if appended:
        ctx.ok("OCCURS", f, appended[0], what="the item element is part of the returned sequence")
    else:
        ctx.fail("OCCURS", f, f.node, "item_element is never appended to xs_sequence", construct="item element appended")
    getc = [a for a in assigns if dotted_of(a.targets[0]) == "constraints" and "constraints_by_value.get(type_annotation" in ast.unparse(a.value)]
    if getc:
        ctx.ok("OCCURS", f, getc[0], what="constraints looked up for the list annotation itself")
    else:
        ctx.fail("OCCURS", f, f.node, "the list's constraints are not looked up with the list type annotation", construct="constraints lookup")


def check_props(ctx) -> None:
    p = ctx.p
    f = p.func("xsd.main:_define_properties")
    parents = S.parents_of(f)
    loops = [n for n in walk_function_body(f.node) if isinstance(n, ast.For) and dotted_of(n.iter) == "cls.properties"]
    ctx.require_anchor(len(loops) == 1, "_define_properties loops over cls.properties")
    loop = loops[0]
    pv = dotted_of(loop.target)
    skips = [n for n in ast.walk(loop) if isinstance(n, ast.Continue)]
    allowed_skips = 0
    for sk in skips:
        g = _guards_txt(sk, parents)
        if g == [f"{pv}.specified_for is not cls"] or g == ["type_error is not None"]:
            allowed_skips += 1
        else:
            ctx.fail("PROPS", f, sk, f"a property is skipped under {g}: its element (and constraints) never reach the XSD", construct="property skipped")
    if allowed_skips == len(skips):
        ctx.ok("PROPS", f, loop, what="only inherited properties (documented exclusion) and failed translations are skipped")
    app = [n for n in ast.walk(loop) if isinstance(n, ast.Call) and ast.unparse(n.func) == "sequence.append"]
    if len(app) == 1 and not [g for g in _guards_txt(app[0], parents)]:
        ctx.ok("PROPS", f, app[0], what="every translated element is appended to the returned sequence")
    else:
        ctx.fail("PROPS", f, loop, "the property element is not appended unconditionally to the returned sequence", construct="element appended")
    opt = [n for n in ast.walk(loop) if isinstance(n, ast.Assign) and isinstance(n.targets[0], ast.Subscript) and isinstance(n.targets[0].slice, ast.Constant) and n.targets[0].slice.value == "minOccurs"]
    if len(opt) == 1 and _guards_txt(opt[0], parents) == [f"isinstance({pv}.type_annotation, intermediate.OptionalTypeAnnotation)"] and isinstance(opt[0].value, ast.Constant) and opt[0].value.value == "0":
        ctx.ok("PROPS", f, opt[0], what="minOccurs=0 exactly for Optional properties (all others are required once)")
    else:
        ctx.fail("PROPS", f, loop, "minOccurs=0 is not set exactly for Optional properties: a missing required element is accepted (or an optional one demanded)", construct="optional minOccurs")
    name = [n for n in ast.walk(loop) if isinstance(n, ast.Call) and dotted_of(n.func) == "ET.Element" and len(n.args) == 2 and isinstance(n.args[0], ast.Constant) and n.args[0].value == "xs:element"]
    if name and "naming.xml_property(" + pv + ".name)" in ast.unparse(name[0].args[1]):
        ctx.ok("PROPS", f, name[0], what="element name = naming.xml_property(prop.name)")
    else:
        ctx.fail("PROPS", f, loop, "the element is not named naming.xml_property(prop.name)", construct="element name")
    tv = [n for n in ast.walk(loop) if isinstance(n, ast.Call) and dotted_of(n.func) == "_value_to_type_element_or_type_identifier"]
    if tv and dotted_of(kwarg(tv[0], "constraints_by_value", 1)) == "constraints_by_value":
        src = [n for n in walk_function_body(f.node) if isinstance(n, ast.Assign) and dotted_of(n.targets[0]) == "constraints_by_value"]
        if src and ast.unparse(src[0].value) == "constraints_by_class[cls]":
            ctx.ok("PROPS", f, tv[0], what="translated with the class's own constraints")
        else:
            ctx.fail("PROPS", f, f.node, "constraints_by_value is not constraints_by_class[cls]", construct="constraints source")
    else:
        ctx.fail("PROPS", f, f.node, "the type is not translated with the class's constraints", construct="constraints source")
    # parents' groups
    g = p.func("xsd.main:_generate_xs_group_for_class")
    gl = [n for n in walk_function_body(g.node) if isinstance(n, ast.For) and dotted_of(n.iter) == "cls.inheritances"]
    if gl and not any(isinstance(x, (ast.If, ast.Continue, ast.Break)) for x in ast.walk(gl[0])) and any(isinstance(c, ast.Call) and ast.unparse(c.func) == "xs_sequence.append" for c in ast.walk(gl[0])):
        ctx.ok("PROPS", g, gl[0], what="the group of every parent is referenced (inherited properties and their constraints)")
    else:
        ctx.fail("PROPS", g, g.node, "not every parent's group is referenced from the class group", construct="parent groups")
    ext = [n for n in walk_function_body(g.node) if isinstance(n, ast.Call) and ast.unparse(n.func) == "xs_sequence.extend" and n.args and dotted_of(n.args[0]) == "properties"]
    if ext:
        ctx.ok("PROPS", g, ext[0], what="own property elements added to the group")
    else:
        ctx.fail("PROPS", g, g.node, "the own property elements are not added to the class group", construct="own properties in group")
    ch = p.func("xsd.main:_generate_choice_group")
    cl = [n for n in walk_function_body(ch.node) if isinstance(n, ast.For) and dotted_of(n.iter) == "cls.concrete_descendants"]
    if cl and not any(isinstance(x, (ast.If, ast.Continue, ast.Break)) for x in ast.walk(cl[0])):
        ctx.ok("PROPS", ch, cl[0], what="choice offers every concrete descendant")
    else:
        ctx.fail("PROPS", ch, ch.node, "the choice group does not offer every concrete descendant unconditionally", construct="choice descendants")
    selfs = [n for n in walk_function_body(ch.node) if isinstance(n, ast.If) and ast.unparse(n.test) == "isinstance(cls, intermediate.ConcreteClass)"]
    if selfs:
        ctx.ok("PROPS", ch, selfs[0], what="choice offers the class itself when concrete")
    else:
        ctx.fail("PROPS", ch, ch.node, "the choice group does not offer the class itself when it is concrete", construct="choice self")
