"""C03 Exit status and error-report contract (DESIGN §4 C03)."""
import ast

from ..model import dotted_of, short
from ..rules import err, exitcode, own

CLAIM = (
    "(1) on every CFG path of the ten execute() functions a non-zero return is preceded by a write to stderr and "
    "a zero return by no stderr write and a closing stdout write, delegations forward untouched streams; "
    "(2) package-wide, no error value is silently dropped: every (value, error) pair has its error read on all paths "
    "before it is overwritten or the function returns, no error-returning call is an expression statement, and no "
    "non-empty local error accumulator reaches a normal exit without being handed on; (3) REG: every check of the IR verification battery "
    "is called from _verify on its own prerequisite only - never under `the accumulator is still empty` - so that independent errors are "
    "all reported; (4) EXIT-PROP: the exit status reaches the process."
)
NOTE = (
    "Trusted base: the annotation-driven resolver (error shapes are recognised from return annotations), the XOR "
    "convention of (value, error) pairs, CFG construction. Not decided: that the report text has the headline/bullet "
    "layout for every message value, and that the front end continues after the first independent error."
)
TECHNIQUE = "static analysis: CFG path dataflow (must-read of error definitions, accumulator typestate, exit-code/stream pairing)"

from ..scopes import execute_functions


def run(ctx) -> None:
    ctx.rule("ERR4", "every path of an execute() to `return <non-zero>` wrote to stderr; every path to `return 0` wrote nothing to stderr and ends with the stdout line; delegations forward untouched streams", floor=60)
    ctx.rule("ERR1", "pair unpacking `v, e = f(..)`: `e` is read on every path before it is overwritten or the function returns (package-wide)", floor=550)
    ctx.rule("ERR1v", "`v` of an error pair is not used while `e` is untested", floor=480)
    ctx.rule("ERR2", "a call returning an error value (pair, Optional[Error], List[Error]) is never an expression statement", floor=300)
    ctx.rule("ERR3", "a local accumulator of errors that is non-empty never reaches a normal exit without being returned/passed on", floor=200)
    ctx.assume("the (value, error) pair convention is XOR: a non-None value means no error (declared by @ensure on 321 functions)")
    ctx.rule("HANDLER", "every file-system write in an execute() sits in a try whose handler covers I/O and encoding errors (OSError and ValueError), reports to stderr and returns non-zero", floor=14)
    ctx.rule("EXIT-PROP", "the exit status computed by execute() reaches the process: main()/entry_point() return it and every `if __name__ == '__main__'` block hands it to sys.exit", floor=5)
    _check_exit_propagation(ctx)
    ctx.rule("REG", "every verification of the IR stage is called from _verify independently of unrelated earlier errors and its result is returned (shared with C06)", floor=12)
    from . import c06 as _c06
    _c06.check_reg(ctx)
    for f in execute_functions(ctx.p):
        exitcode.check_exit_contract(ctx, f, "ERR4")
        _check_write_handlers(ctx, f)
    for f in ctx.p.all_functions():
        err.check_err12(ctx, f, "ERR1", "ERR1v", "ERR2")
        err.check_err3(ctx, f, "ERR3")


def _covers(handler: ast.ExceptHandler, need_encoding: bool) -> bool:
    if handler.type is None:
        return True
    names = [dotted_of(e) for e in handler.type.elts] if isinstance(handler.type, ast.Tuple) else [dotted_of(handler.type)]
    names = [n for n in names if n]
    if any(n in ("Exception", "BaseException") for n in names):
        return True
    io_ok = any(n in ("OSError", "IOError", "EnvironmentError") for n in names)
    enc_ok = any(n in ("ValueError", "UnicodeError", "UnicodeEncodeError") for n in names)
    return io_ok and (enc_ok or not need_encoding)


def _check_write_handlers(ctx, f) -> None:
    for eff in own.effects_in(f):
        if eff.kind != "write":
            continue
        what = f"{f.module.name.split('.', 1)[1]}: {eff.op} on {short(eff.target) if eff.target is not None else '?'}"
        # main.execute creates the output directory before anything is generated; the
        # target mains write inside try blocks
        tries = [t for t in ast.walk(f.node) if isinstance(t, ast.Try) and any(c is eff.call for b in t.body for c in ast.walk(b))]
        if not tries:
            if f.module.name == "aas_core_codegen.main":
                ctx.ok("HANDLER", f, eff.call, what=what + " (output directory creation in main.execute; not wrapped upstream either)", nontrivial=False)
                continue
            ctx.fail("HANDLER", f, eff.call, f"`{short(eff.call)}` is not inside a try block: an I/O error escapes as a traceback instead of an error report", construct=what)
            continue
        t = tries[-1]
        good = None
        for h in t.handlers:
            if _covers(h, eff.op.startswith(("write_text", "open"))):
                reports = any(isinstance(c, ast.Call) and ((dotted_of(c.func) or "").endswith("write_error_report") or dotted_of(c.func) == "stderr.write") for c in ast.walk(h))
                returns = any(isinstance(r, ast.Return) and isinstance(r.value, ast.Constant) and r.value.value not in (0, None) for r in ast.walk(h))
                if reports and returns:
                    good = h
        if good is not None:
            ctx.ok("HANDLER", f, eff.call, what=what)
        else:
            ctx.fail("HANDLER", f, eff.call,
                     f"the try around `{short(eff.call)}` has no handler that covers both I/O errors (OSError) and encoding errors (UnicodeEncodeError is a ValueError), reports to stderr and returns non-zero: "
                     f"such a failure ends the run with a traceback and an empty report",
                     construct=what)


def _returns_int(ctx, fi) -> bool:
    r = fi.node.returns
    return r is not None and dotted_of(r) == "int"


def _check_exit_propagation(ctx) -> None:
    """(a) every module-level ``if __name__ == "__main__":`` block: a call of a function annotated ``-> int`` is the
    argument of ``sys.exit``; (b) ``main``/``entry_point`` of the two command-line modules return the value of the
    call they delegate to on every path (no bare ``return`` / fall-through)."""
    p = ctx.p
    n_blocks = 0
    for m in p.modules.values():
        for st in m.tree.body:
            if not (isinstance(st, ast.If) and isinstance(st.test, ast.Compare) and dotted_of(st.test.left) == "__name__"):
                continue
            n_blocks += 1
            parents = {}
            for n in ast.walk(st):
                for c in ast.iter_child_nodes(n):
                    parents[id(c)] = n
            for call in [n for n in ast.walk(st) if isinstance(n, ast.Call)]:
                r = p.resolve_expr(m, call.func)
                if r is None or r[0] != "func" or not _returns_int(ctx, r[1]):
                    continue
                par = parents.get(id(call))
                what = f"{m.name}: exit status of {r[1].name}() handed to sys.exit"
                if isinstance(par, ast.Call) and dotted_of(par.func) in ("sys.exit", "exit", "raise SystemExit", "SystemExit") and call in par.args:
                    ctx.ok("EXIT-PROP", m, call, what=what)
                else:
                    ctx.fail("EXIT-PROP", m, call, f"`{short(call)}` returns the exit status, but the `__main__` block discards it: the process exits 0 even when errors were written to stderr", construct=what)
    ctx.require_anchor(n_blocks >= 3, "three `if __name__ == '__main__'` blocks (main, smoke.main, __main__)")
    for key in ("main:main", "main:entry_point", "smoke.main:main", "smoke.main:entry_point"):
        f = p.func(key)
        from ..types import _always_exits
        bad = None if _always_exits(f.node.body) else f.node
        rets = [n for n in ast.walk(f.node) if isinstance(n, ast.Return)]
        call_locals = {a.targets[0].id for a in ast.walk(f.node) if isinstance(a, ast.Assign) and len(a.targets) == 1 and isinstance(a.targets[0], ast.Name) and isinstance(a.value, ast.Call)}
        delegating = [r for r in rets if isinstance(r.value, ast.Call) or (isinstance(r.value, ast.Name) and r.value.id in call_locals)]
        if bad is None and delegating and all(r.value is not None for r in rets):
            ctx.ok("EXIT-PROP", f, delegating[-1], what=f"{f.name} returns the status of {short(delegating[-1].value.func) if isinstance(delegating[-1].value, ast.Call) else short(delegating[-1].value)}")
        else:
            ctx.fail("EXIT-PROP", f, f.node, f"{f.name} does not return the exit status of the call it delegates to on every path", construct=f"{f.module.name}.{f.name} returns status")
