"""C03 Exit status and error-report contract (DESIGN §4 C03)."""
from ..rules import err, exitcode

CLAIM = (
    "(1) on every CFG path of the ten execute() functions a non-zero return is preceded by a write to stderr and "
    "a zero return by no stderr write and a closing stdout write, delegations forward untouched streams; "
    "(2) package-wide, no error value is silently dropped: every (value, error) pair has its error read on all paths "
    "before it is overwritten or the function returns, no error-returning call is an expression statement, and no "
    "non-empty local error accumulator reaches a normal exit without being handed on."
)
NOTE = (
    "Trusted base: the annotation-driven resolver (error shapes are recognised from return annotations), the XOR "
    "convention of (value, error) pairs, CFG construction. Not decided: that the report text has the headline/bullet "
    "layout for every message value, and that the front end continues after the first independent error."
)
TECHNIQUE = "static analysis: CFG path dataflow (must-read of error definitions, accumulator typestate, exit-code/stream pairing)"

from ..scopes import execute_functions


def run(ctx) -> None:
    ctx.rule("ERR4", "every path of an execute() to `return <non-zero>` wrote to stderr; every path to `return 0` wrote nothing to stderr and ends with the stdout line; delegations forward untouched streams", floor=60)
    ctx.rule("ERR1", "pair unpacking `v, e = f(..)`: `e` is read on every path before it is overwritten or the function returns (package-wide)", floor=550)
    ctx.rule("ERR1v", "`v` of an error pair is not used while `e` is untested", floor=480)
    ctx.rule("ERR2", "a call returning an error value (pair, Optional[Error], List[Error]) is never an expression statement", floor=300)
    ctx.rule("ERR3", "a local accumulator of errors that is non-empty never reaches a normal exit without being returned/passed on", floor=200)
    ctx.assume("the (value, error) pair convention is XOR: a non-None value means no error (declared by @ensure on 321 functions)")
    for f in execute_functions(ctx.p):
        exitcode.check_exit_contract(ctx, f, "ERR4")
    for f in ctx.p.all_functions():
        err.check_err12(ctx, f, "ERR1", "ERR1v", "ERR2")
        err.check_err3(ctx, f, "ERR3")
