"""C03 Exit status and error-report contract (DESIGN §4 C03)."""
import ast

from ..model import dotted_of, short
from ..rules import err, exitcode, own

CLAIM = (
    "(1) on every CFG path of the ten execute() functions a non-zero return is preceded by a write to stderr and "
    "a zero return by no stderr write and a closing stdout write, delegations forward untouched streams; "
    "(2) package-wide, no error value is silently dropped: every (value, error) pair has its error read on all paths "
    "before it is overwritten or the function returns, no error-returning call is an expression statement, and no "
    "non-empty local error accumulator reaches a normal exit without being handed on."
)
NOTE = (
    "Trusted base: the annotation-driven resolver (error shapes are recognised from return annotations), the XOR "
    "convention of (value, error) pairs, CFG construction. Not decided: that the report text has the headline/bullet "
    "layout for every message value, and that the front end continues after the first independent error."
)
TECHNIQUE = "static analysis: CFG path dataflow (must-read of error definitions, accumulator typestate, exit-code/stream pairing)"

from ..scopes import execute_functions


def run(ctx) -> None:
    ctx.rule("ERR4", "every path of an execute() to `return <non-zero>` wrote to stderr; every path to `return 0` wrote nothing to stderr and ends with the stdout line; delegations forward untouched streams", floor=60)
    ctx.rule("ERR1", "pair unpacking `v, e = f(..)`: `e` is read on every path before it is overwritten or the function returns (package-wide)", floor=550)
    ctx.rule("ERR1v", "`v` of an error pair is not used while `e` is untested", floor=480)
    ctx.rule("ERR2", "a call returning an error value (pair, Optional[Error], List[Error]) is never an expression statement", floor=300)
    ctx.rule("ERR3", "a local accumulator of errors that is non-empty never reaches a normal exit without being returned/passed on", floor=200)
    ctx.assume("the (value, error) pair convention is XOR: a non-None value means no error (declared by @ensure on 321 functions)")
    ctx.rule("HANDLER", "every file-system write in an execute() sits in a try whose handler covers I/O and encoding errors (OSError and ValueError), reports to stderr and returns non-zero", floor=14)
    for f in execute_functions(ctx.p):
        exitcode.check_exit_contract(ctx, f, "ERR4")
        _check_write_handlers(ctx, f)
    for f in ctx.p.all_functions():
        err.check_err12(ctx, f, "ERR1", "ERR1v", "ERR2")
        err.check_err3(ctx, f, "ERR3")


def _covers(handler: ast.ExceptHandler, need_encoding: bool) -> bool:
    if handler.type is None:
        return True
    names = [dotted_of(e) for e in handler.type.elts] if isinstance(handler.type, ast.Tuple) else [dotted_of(handler.type)]
    names = [n for n in names if n]
    if any(n in ("Exception", "BaseException") for n in names):
        return True
    io_ok = any(n in ("OSError", "IOError", "EnvironmentError") for n in names)
    enc_ok = any(n in ("ValueError", "UnicodeError", "UnicodeEncodeError") for n in names)
    return io_ok and (enc_ok or not need_encoding)


def _check_write_handlers(ctx, f) -> None:
    for eff in own.effects_in(f):
        if eff.kind != "write":
            continue
        what = f"{f.module.name.split('.', 1)[1]}: {eff.op} on {short(eff.target) if eff.target is not None else '?'}"
        # main.execute creates the output directory before anything is generated; the
        # target mains write inside try blocks
        tries = [t for t in ast.walk(f.node) if isinstance(t, ast.Try) and any(c is eff.call for b in t.body for c in ast.walk(b))]
        if not tries:
            if f.module.name == "aas_core_codegen.main":
                ctx.ok("HANDLER", f, eff.call, what=what + " (output directory creation in main.execute; not wrapped upstream either)", nontrivial=False)
                continue
            ctx.fail("HANDLER", f, eff.call, f"`{short(eff.call)}` is not inside a try block: an I/O error escapes as a traceback instead of an error report", construct=what)
            continue
        t = tries[-1]
        good = None
        for h in t.handlers:
            if _covers(h, eff.op.startswith(("write_text", "open"))):
                reports = any(isinstance(c, ast.Call) and ((dotted_of(c.func) or "").endswith("write_error_report") or dotted_of(c.func) == "stderr.write") for c in ast.walk(h))
                returns = any(isinstance(r, ast.Return) and isinstance(r.value, ast.Constant) and r.value.value not in (0, None) for r in ast.walk(h))
                if reports and returns:
                    good = h
        if good is not None:
            ctx.ok("HANDLER", f, eff.call, what=what)
        else:
            ctx.fail("HANDLER", f, eff.call,
                     f"the try around `{short(eff.call)}` has no handler that covers both I/O errors (OSError) and encoding errors (UnicodeEncodeError is a ValueError), reports to stderr and returns non-zero: "
                     f"such a failure ends the run with a traceback and an empty report",
                     construct=what)
