"""C22 Generation is deterministic (DESIGN §4 C22)."""
import ast

from ..model import dotted_of, short
from ..rules import det, own
from ..scopes import TARGETS

CLAIM = (
    "absence of the sources of run-to-run nondeterminism, package-wide: (1) no set-typed expression is consumed in iteration order "
    "(for / comprehension into list or str / list() / join / enumerate / indexing) unless through sorted() or an order-free consumer; "
    "(2) no file-system listing (glob/rglob/iterdir/listdir/walk) is consumed without sorted(); (3) no entropy source (id, hash, uuid, "
    "time, random, pid, environment, cwd) is formatted into text outside the cache's temporary file name; (4) no object whose text form "
    "is the default repr with its address is interpolated into a message or into generated code; (5) no function reads or lists the "
    "output directory (only existence tests and mkdir), so pre-existing files cannot influence the output; (6) the anchored orderings "
    "exist: sorted definition names in jsonschema.generate, _sort_by_tags_and_names_in_place applied in xsd, sorted containers in "
    "_topologically_sort; (7) a run on the cached model sees the same object graph as the run that wrote the cache: the id-sets dropped by "
    "__getstate__ are recomputed by __setstate__ from the same lists."
)
NOTE = (
    "Trusted base: the annotation-driven typer decides what is a set (an untyped set is invisible; counted as unresolved); the table of "
    "order-free consumers and of entropy functions in sa/rules/det.py; dict iteration is insertion-ordered (Python >= 3.7). "
    "Frozen exceptions: the two import-time self-checks that build AssertionError texts from set differences, and the uuid in the cache's "
    "temporary file name. Not decided: byte equality of two runs as such; nondeterminism inside third-party libraries."
)
TECHNIQUE = "static analysis: typed syntactic dataflow lint (set-iteration, unsorted listings, entropy and address-bearing reprs into text), effect ownership on the output directory"

EXCEPTIONS = {
    ("aas_core_codegen/common.py", "assert_union_of_descendants_exhaustive"): "import-time self-check; the set difference only feeds the text of an AssertionError raised while developing the package",
    ("aas_core_codegen/stringify.py", "assert_dispatch_exhaustive"): "import-time self-check; the set difference only feeds the text of an AssertionError raised while developing the package",
}


def run(ctx) -> None:
    p = ctx.p
    ctx.rule("DET-SET", "no order-sensitive consumption of a set-typed expression", floor=0)
    ctx.rule("DET-FS", "file-system listings consumed through sorted()", floor=1)
    ctx.rule("DET-ENT", "no entropy source formatted into text", floor=0)
    ctx.rule("DET-REPR", "no address-bearing object interpolated into text", floor=2000)
    ctx.rule("DET-OUT", "the output directory is never read or listed", floor=10)
    ctx.rule("DET-ANCHOR", "anchored orderings: sorted definitions (jsonschema), sorted children (xsd), sorted containers (topological sort)", floor=3)
    ctx.rule("DET-POS", "positive controls: the rules fire on a fixture with one instance of each pattern", floor=4)
    ctx.rule("PICKLE", "a model restored from the cache equals the fresh one: __getstate__ pops exactly what __setstate__ recomputes, from the same sources (shared with C23)", floor=5)
    from . import c23
    c23._check_pickle_agreement(ctx)
    addr = det.address_bearing_classes(ctx)
    ctx.extra["address_bearing_classes"] = len(addr)
    for f in p.all_functions():
        if (f.module.relpath, f.qualname.split(".")[0]) in EXCEPTIONS or (f.module.relpath, f.qualname) in EXCEPTIONS:
            continue
        det.check_sets_and_listings(ctx, f, "DET-SET", "DET-FS")
        det.check_entropy(ctx, f, "DET-ENT", "DET-REPR", addr)
    # the uuid of the cache's temp file is the single allowed entropy-into-text (needed by C24)
    kept = []
    for fi in ctx.findings:
        if fi.rule == "DET-ENT" and fi.relpath == "aas_core_codegen/run.py" and fi.qualname == "load_model" and fi.construct.startswith("uuid.uuid4()"):
            lm = p.func("run:load_model")
            defs = own.local_defs(lm)
            # allowed only if that f-string flows into tmp_path and nowhere else
            uses = [n for n, vs in defs.items() if any("uuid.uuid4" in ast.unparse(v) for v in vs)]
            if uses == ["tmp_path"]:
                ctx._finding_keys.discard(fi.key)
                ctx.obligations["DET-ENT"] -= 1
                ctx.ok("DET-ENT", lm, None, what="uuid4 only names the cache's temporary file (C24)")
                continue
        kept.append(fi)
    ctx.findings[:] = kept

    # (5) output directory
    roots = {"aas_core_codegen.main:execute": "params.output_dir"}
    for t in TARGETS:
        roots[f"aas_core_codegen.{t}.main:execute"] = "context.output_dir"
    for f in p.all_functions():
        fdefs = None
        for eff in own.effects_in(f):
            if eff.kind != "read" or eff.target is None:
                continue
            if fdefs is None:
                fdefs = own.local_defs(f)
            og = own.origins(f, eff.target, fdefs)
            touches_out = any(o.endswith("output_dir") or ".output_dir" in o for o in og)
            what = f"{eff.op} on {short(eff.target)}"
            if not touches_out:
                ctx.ok("DET-OUT", f, eff.call, what=what + " (not the output directory)", nontrivial=False)
            elif eff.op in ("exists", "is_dir", "is_file"):
                ctx.ok("DET-OUT", f, eff.call, what=what + " (existence test only)")
            else:
                ctx.fail("DET-OUT", f, eff.call, f"`{short(eff.call)}` reads the output directory: pre-existing files can influence the run", construct=what)

    # (6) anchors
    gen = p.func("jsonschema.main:generate")
    ok = any(isinstance(c, ast.Call) and dotted_of(c.func) == "sorted" and "definitions" in ast.unparse(c) for c in ast.walk(gen.node))
    (ctx.ok if ok else ctx.fail)("DET-ANCHOR", gen, gen.node, *([] if ok else ["the definitions of the JSON schema are not emitted in sorted order"]), **({"what": "definitions emitted in sorted(name) order"} if ok else {"construct": "sorted definitions"}))
    xsd_gen = p.func("xsd.main:_generate")
    sorter = p.func("xsd.main:_sort_by_tags_and_names_in_place")
    called = any(isinstance(c, ast.Call) and dotted_of(c.func) == "_sort_by_tags_and_names_in_place" for c in ast.walk(xsd_gen.node))
    (ctx.ok if called else ctx.fail)("DET-ANCHOR", xsd_gen, xsd_gen.node, *([] if called else ["_sort_by_tags_and_names_in_place is no longer applied to the generated schema"]), **({"what": "xsd children sorted by tag and name"} if called else {"construct": "xsd sort"}))
    topo = p.func("intermediate._hierarchy:_topologically_sort")
    srt = any(isinstance(c, ast.Call) and (dotted_of(c.func) or "").startswith("sortedcontainers.") for c in ast.walk(topo.node)) or \
        any(isinstance(c, ast.Call) and dotted_of(c.func) == "sorted" for c in ast.walk(topo.node))
    (ctx.ok if srt else ctx.fail)("DET-ANCHOR", topo, topo.node, *([] if srt else ["the topological sort no longer uses sorted containers"]), **({"what": "topological sort over sorted containers"} if srt else {"construct": "topological sort order"}))

    _positive_controls(ctx, addr)


FIXTURE = '''
import pathlib
from typing import Set, List

def f(xs: Set[str], d: pathlib.Path) -> List[str]:
    out = [x for x in xs]
    for p in d.glob("*"):
        out.append(str(p))
    out.append(f"{id(xs)}")
    return out
'''


def _positive_controls(ctx, addr) -> None:
    """Zero-count rules need a positive example that must match on every run."""
    from ..model import Program
    from ..types import Typer
    from ..report import Ctx as _Ctx

    rel = "aas_core_codegen/naming.py"
    base = ctx.p.modules["aas_core_codegen.naming"].source
    prog = Program(overlay_text={rel: base + FIXTURE}, base=ctx.p)
    sub = _Ctx("C22", "quick", prog, Typer(prog))
    for r in ("DET-SET", "DET-FS", "DET-ENT", "DET-REPR"):
        sub.rule(r, "", 0)
    f = prog.func("naming:f")
    det.check_sets_and_listings(sub, f, "DET-SET", "DET-FS")
    det.check_entropy(sub, f, "DET-ENT", "DET-REPR", addr)
    fired = {x.rule for x in sub.findings}
    for r in ("DET-SET", "DET-FS", "DET-ENT"):
        if r in fired:
            ctx.ok("DET-POS", f, None, what=f"{r} fires on the fixture")
        else:
            from ..model import AnalysisError
            raise AnalysisError(f"positive control: rule {r} no longer fires on its fixture")
    # DET-REPR control: Enumeration is address-bearing
    if any(k.endswith(":Enumeration") for k in addr):
        ctx.ok("DET-POS", f, None, what="intermediate Enumeration recognised as address-bearing (no __str__, repr with id)")
    else:
        from ..model import AnalysisError
        raise AnalysisError("positive control: address-bearing classes are no longer recognised")
