"""C15 Schema constraint inference equals the invariant conjunction (DESIGN §4 C15)."""
import ast
from typing import Dict, Optional, Tuple

from ..flow import find_calls, kwarg
from ..model import dotted_of, short, walk_function_body
from ..rules import err, lin, pre, stack
from ..scopes import PKG

CLAIM = (
    "the entire arithmetic of the inference, as tables: (1) the twelve arms of _match_len_constraint_on_member_or_name equal the oracle "
    "`len<c -> Max(c-1), len<=c -> Max(c), len==c -> Exact(c), len>c -> Min(c+1), len>=c -> Min(c), len!=c -> ignored` and the mirrored "
    "table for `c ? len` (operand order decided from which operand feeds _match_int_constant); (2) lattice direction: _MinLength folds with "
    "a max-helper and feeds min_value, _MaxLength folds with a min-helper and feeds max_value, in _reduce_constraints and "
    "_merge_len_constraints, and the four helpers call the builtin they are named after; (3) set constraints are intersected: a literal "
    "is kept iff it was counted once per source (count == number of chained sources); pattern lists are concatenated without duplicates; "
    "(4) contradictory bounds become errors, never a contract violation (LenConstraint precondition, shared with C02); (5) only the "
    "class's own invariants are read (`invariant.specified_for is not X: continue` in all five inference loops); (6) errors of the inference "
    "are not dropped (ERR1-3 over infer_for_schema)."
    " SKIPS: the verification / resolution loops in scope have no more `continue`, `break` or in-loop `return` statements than the reference "
    "read on the unchanged tree (baselines/skips.json): a new skip means elements that were examined are no longer examined."
    " TRUTHY: in the modules in scope no Optional[int|str|float|bytes] is tested by truthiness (a bound of 0 or an empty pattern is a "
    "constraint, not the absence of one); zero instances on the unchanged tree, kept alive by a positive control."
    " ARITY: the matchers of the schema inference read `node.values[i]` / `node.args[i]` only after establishing the exact number of "
    "operands (an ignored extra operand makes the inferred constraint stronger than the invariant)."
)
NOTE = (
    "Oracle: integer arithmetic on lengths (trusted, 12 rows). Not decided: that every accepted invariant form is recognised, and the "
    "equality of the inferred constraints with the invariants for every value beyond (1)-(3), which are the only arithmetic in the code."
)
TECHNIQUE = "static analysis: table extraction from if/elif chains and keyword arguments (linear forms), compared against an arithmetic oracle table; path facts for the precondition"

ORACLE = {
    ("len_left", "LT"): ("_MaxLength", -1), ("len_left", "LE"): ("_MaxLength", 0), ("len_left", "EQ"): ("_ExactLength", 0),
    ("len_left", "GT"): ("_MinLength", 1), ("len_left", "GE"): ("_MinLength", 0), ("len_left", "NE"): None,
    ("len_right", "LT"): ("_MinLength", 1), ("len_right", "LE"): ("_MinLength", 0), ("len_right", "EQ"): ("_ExactLength", 0),
    ("len_right", "GT"): ("_MaxLength", -1), ("len_right", "GE"): ("_MaxLength", 0), ("len_right", "NE"): None,
}
PHRASE = {"LT": "<", "LE": "<=", "EQ": "==", "GT": ">", "GE": ">=", "NE": "!="}


def run(ctx) -> None:
    p = ctx.p
    ctx.rule("BOUND", "each (operand order, comparator) arm yields the oracle's (bound kind, offset)", floor=12)
    ctx.rule("DIR", "min bounds fold with max, max bounds fold with min; helpers call the right builtin", floor=8)
    ctx.rule("INTER", "set constraints are intersected (kept iff counted once per source); patterns de-duplicated", floor=3)
    ctx.rule("PRE-LEN", "LenConstraint precondition established at construction sites", floor=2)
    ctx.rule("OWN", "only the own invariants of the class / constrained primitive are read", floor=5)
    ctx.rule("STACK-ORDER", "passes that stack constraints along the hierarchy visit parents before children (topological order)", floor=2)
    ctx.rule("ERR1", "errors of the inference read", floor=8)
    ctx.rule("ERR1v", "values unused while error untested", floor=5)
    ctx.rule("ERR2", "no error-returning call dropped", floor=0)
    ctx.rule("ERR3", "collected errors returned", floor=5)
    _check_bounds(ctx)
    _check_direction(ctx)
    _check_intersection(ctx)
    pre.check_len_constraint_sites(ctx, "PRE-LEN", lambda m: m.name.startswith(f"{PKG}.infer_for_schema"))
    _check_own(ctx)
    for m in p.modules.values():
        if m.name.startswith(f"{PKG}.infer_for_schema"):
            for f in m.functions.values():
                stack.check_stack_order(ctx, f, "STACK-ORDER")
                err.check_err12(ctx, f, "ERR1", "ERR1v", "ERR2")
                err.check_err3(ctx, f, "ERR3")
    ctx.rule("SKIPS", "verification/resolution loops have no more continue/break/return-in-loop statements than the reference read on the unchanged tree", floor=10)
    from ..rules import skips as _skips
    _base = _skips.load_baseline()
    for _m in ctx.p.modules.values():
        if _m.name.startswith("aas_core_codegen.infer_for_schema"):
            for _f in _m.functions.values():
                _skips.check_skips(ctx, _f, "SKIPS", _base)
    ctx.rule("TRUTHY", "no Optional int/str/float/bytes is tested by truthiness (0 and the empty string are values, not absence)", floor=1)
    from ..rules import truthy as _truthy
    _truthy.positive_control(ctx, "TRUTHY")
    for _m in ctx.p.modules.values():
        if _m.name.startswith("aas_core_codegen.infer_for_schema"):
            for _f in _m.functions.values():
                _truthy.check_truthy(ctx, _f, "TRUTHY")
    ctx.rule("ARITY", "matchers of the inference read a fixed number of operands only after establishing exactly that arity", floor=4)
    from ..rules import arity as _arity
    for _m in ctx.p.modules.values():
        if _m.name.startswith("aas_core_codegen.infer_for_schema"):
            for _f in _m.functions.values():
                _arity.check_arity(ctx, _f, "ARITY")


def _check_bounds(ctx) -> None:
    p = ctx.p
    f = p.func("infer_for_schema._len:_match_len_constraint_on_member_or_name")
    # which operand feeds the constant matcher, per assignment (in source order)
    assigns = [n for n in walk_function_body(f.node) if isinstance(n, ast.Assign) and isinstance(n.value, ast.Call)]
    const_src = []  # (lineno, 'left'|'right')
    for a in assigns:
        d = dotted_of(a.value.func)
        if d == "_match_int_constant" and a.value.args:
            side = dotted_of(a.value.args[0])
            if side in ("node.left", "node.right"):
                const_src.append((a.lineno, side.split(".")[1], a.targets[0].id if isinstance(a.targets[0], ast.Name) else None))
    ctx.require_anchor(len(const_src) == 2, "two regions assigning the integer constant from node.left / node.right")
    chains = []
    for n in walk_function_body(f.node):
        if isinstance(n, ast.If) and isinstance(n.test, ast.Compare) and dotted_of(n.test.left) == "node.op" and isinstance(n.test.ops[0], ast.Is):
            # chain head only
            chains.append(n)
    heads = [c for c in chains if not any(c in o.orelse for o in chains if o is not c)]
    ctx.require_anchor(len(heads) == 2, "two comparator chains over node.op")
    for head in heads:
        # the region: the latest constant assignment before the chain
        before = [cs for cs in const_src if cs[0] < head.lineno]
        ctx.require_anchor(bool(before), "constant assigned before the comparator chain")
        _, side, cname = before[-1]
        order = "len_left" if side == "right" else "len_right"
        cur = head
        seen = set()
        while True:
            comp = dotted_of(cur.test.comparators[0]) or ""
            member = comp.split(".")[-1]
            seen.add(member)
            got: Optional[Tuple[str, int]] = None
            bad_form = None
            for s in cur.body:
                if isinstance(s, ast.Assign) and isinstance(s.value, ast.Call):
                    kind = dotted_of(s.value.func)
                    val = kwarg(s.value, "value", 1)
                    lf = lin.lin_of(val) if val is not None else None
                    if lf is not None and lf[0] == ((cname, 1),):
                        got = (kind, lf[1])
                    else:
                        bad_form = short(val) if val is not None else "?"
            want = ORACLE.get((order, member), "missing")
            phrase = f"len(x) {PHRASE.get(member, member)} c" if order == "len_left" else f"c {PHRASE.get(member, member)} len(x)"
            what = f"{phrase} -> {('%s(c%+d)' % want) if want else 'ignored'}"
            if want == "missing":
                ctx.fail("BOUND", f, cur, f"unknown comparator {member}", construct=f"{order} {member}")
            elif bad_form is not None:
                ctx.fail("BOUND", f, cur, f"for `{phrase}` the bound is computed as `{bad_form}`, not as the constant plus an offset", construct=f"{order} {member}")
            elif got != want:
                g = ("%s(c%+d)" % got) if got else "ignored"
                ctx.fail("BOUND", f, cur, f"`{phrase}` is translated to {g}; integer arithmetic gives {('%s(c%+d)' % want) if want else 'no constraint'}: the schema admits a wrong length range", construct=f"{order} {member}")
            else:
                ctx.ok("BOUND", f, cur, what=what)
            if len(cur.orelse) == 1 and isinstance(cur.orelse[0], ast.If) and isinstance(cur.orelse[0].test, ast.Compare) and dotted_of(cur.orelse[0].test.left) == "node.op":
                cur = cur.orelse[0]
            else:
                break
        missing = {"LT", "LE", "EQ", "GT", "GE", "NE"} - seen
        if missing:
            ctx.fail("BOUND", f, head, f"the {order} chain has no arm for {sorted(missing)}", construct=f"{order} arms")


def _builtin_called(func, name: str) -> bool:
    return any(isinstance(c, ast.Call) and isinstance(c.func, ast.Name) and c.func.id == name for c in ast.walk(func.node))


def _check_direction(ctx) -> None:
    p = ctx.p
    helpers = {
        "infer_for_schema._len:max_with_none": "max", "infer_for_schema._len:min_with_none": "min",
        "infer_for_schema._inline:_max_or_none": "max", "infer_for_schema._inline:_min_or_none": "min",
    }
    for key, b in helpers.items():
        f = p.func(key)
        other = "min" if b == "max" else "max"
        if _builtin_called(f, b) and not _builtin_called(f, other):
            ctx.ok("DIR", f, f.node, what=f"{f.name} folds with {b}()")
        else:
            ctx.fail("DIR", f, f.node, f"`{f.name}` does not fold with the builtin {b}() (or also calls {other}())", construct=f"{f.name} uses {b}")
    red = p.func("infer_for_schema._len:_reduce_constraints")
    # which local feeds min_value / max_value of the LenConstraint
    lc = [c for c in find_calls(red.node, lambda c: dotted_of(c.func) == "LenConstraint")]
    ctx.require_anchor(len(lc) == 1, "_reduce_constraints constructs one LenConstraint")
    feeds = {"min": dotted_of(kwarg(lc[0], "min_value", 0)), "max": dotted_of(kwarg(lc[0], "max_value", 1))}
    for n in walk_function_body(red.node):
        if isinstance(n, ast.If):
            cur = n
            while True:
                t = cur.test
                if isinstance(t, ast.Call) and dotted_of(t.func) == "isinstance" and len(t.args) == 2:
                    kind = dotted_of(t.args[1])
                    if kind in ("_MinLength", "_MaxLength"):
                        want_var = feeds["min"] if kind == "_MinLength" else feeds["max"]
                        want_helper = "max_with_none" if kind == "_MinLength" else "min_with_none"
                        ok = False
                        for s in cur.body:
                            if isinstance(s, ast.Assign) and isinstance(s.targets[0], ast.Name) and isinstance(s.value, ast.Call):
                                tgt = s.targets[0].id
                                helper = dotted_of(s.value.func)
                                args = {dotted_of(a) for a in s.value.args}
                                if tgt == want_var and helper == want_helper and tgt in args and any(a and a.endswith(".value") for a in args):
                                    ok = True
                        what = f"_reduce_constraints: {kind} -> {want_var} = {want_helper}(value, {want_var})"
                        if ok:
                            ctx.ok("DIR", red, cur, what=what)
                        else:
                            ctx.fail("DIR", red, cur, f"the {kind} arm does not tighten `{want_var}` with {want_helper}: several lower bounds must combine to their maximum and several upper bounds to their minimum", construct=what)
                if len(cur.orelse) == 1 and isinstance(cur.orelse[0], ast.If):
                    cur = cur.orelse[0]
                else:
                    break
    mg = p.func("infer_for_schema._inline:_merge_len_constraints")
    lc = [c for c in find_calls(mg.node, lambda c: dotted_of(c.func) == "LenConstraint")]
    ctx.require_anchor(len(lc) == 1, "_merge_len_constraints constructs one LenConstraint")
    for kw, helper, attr in (("min_value", "_max_or_none", "min_value"), ("max_value", "_min_or_none", "max_value")):
        v = kwarg(lc[0], kw)
        ok = isinstance(v, ast.Call) and dotted_of(v.func) == helper and len(v.args) == 2 and all(isinstance(a, ast.Attribute) and a.attr == attr for a in v.args) \
            and {dotted_of(a.value) for a in v.args} == {"that", "other"}
        what = f"_merge_len_constraints: {kw} = {helper}(that.{attr}, other.{attr})"
        if ok:
            ctx.ok("DIR", mg, lc[0], what=what)
        else:
            ctx.fail("DIR", mg, lc[0], f"`{kw}` of the merged constraint is `{short(v) if v is not None else '?'}`; the intersection of two ranges needs {helper}(that.{attr}, other.{attr})", construct=what)


def _check_intersection(ctx) -> None:
    p = ctx.p
    for key in ("infer_for_schema._inline:_merge_set_of_primitives_constraints", "infer_for_schema._inline:_merge_set_of_enumeration_literals_constraints"):
        f = p.func(key)
        chains = [c for c in find_calls(f.node, lambda c: dotted_of(c.func) == "itertools.chain")]
        ctx.require_anchor(len(chains) >= 1, f"{f.name} chains the literals of both sources")
        n_src = len(chains[0].args)
        srcs = {dotted_of(a) for a in chains[0].args}
        filt = None
        for n in ast.walk(f.node):
            if isinstance(n, ast.comprehension):
                for cond in n.ifs:
                    if isinstance(cond, ast.Compare) and isinstance(cond.ops[0], ast.Eq) and isinstance(cond.comparators[0], ast.Constant):
                        filt = cond.comparators[0].value
        inc_ok = any(isinstance(n, ast.AugAssign) and isinstance(n.op, ast.Add) and isinstance(n.value, ast.Constant) and n.value.value == 1 for n in ast.walk(f.node))
        init_ok = any(isinstance(n, ast.Assign) and isinstance(n.targets[0], ast.Subscript) and isinstance(n.value, ast.Constant) and n.value.value == 1 for n in ast.walk(f.node))
        what = f"{f.name}: kept iff count == {n_src} over chain({', '.join(sorted(s or '?' for s in srcs))})"
        if filt == n_src and srcs == {"that.literals", "other.literals"} and inc_ok and init_ok:
            ctx.ok("INTER", f, f.node, what=what)
        else:
            ctx.fail("INTER", f, f.node, f"the merged set is not the intersection of the two literal sets (filter `count == {filt}` over {n_src} sources {sorted(s or '?' for s in srcs)})", construct=f"{f.name} intersection")
    f = p.func("infer_for_schema._inline:_merge_pattern_constraints")
    has_guard = any(isinstance(n, ast.If) and isinstance(n.test, ast.Compare) and isinstance(n.test.ops[0], ast.NotIn) for n in ast.walk(f.node))
    chains = [c for c in find_calls(f.node, lambda c: dotted_of(c.func) == "itertools.chain")]
    if has_guard and chains and {dotted_of(a) for a in chains[0].args} == {"that", "other"}:
        ctx.ok("INTER", f, f.node, what="_merge_pattern_constraints: chain(that, other) guarded by a not-in test")
    else:
        ctx.fail("INTER", f, f.node, "patterns of both sources are not concatenated under a de-duplication guard", construct="_merge_pattern_constraints union")


def _check_own(ctx) -> None:
    p = ctx.p
    n = 0
    for m in p.modules.values():
        if not m.name.startswith(f"{PKG}.infer_for_schema"):
            continue
        for f in m.functions.values():
            for loop in [x for x in walk_function_body(f.node) if isinstance(x, ast.For)]:
                it = dotted_of(loop.iter) or ""
                if not it.endswith(".invariants"):
                    continue
                owner = it.rsplit(".", 1)[0]
                n += 1
                first = next((st_ for st_ in loop.body if not isinstance(st_, (ast.Assert, ast.Pass)) and not (isinstance(st_, ast.Expr) and isinstance(st_.value, ast.Constant))), None)
                ok = False
                if isinstance(first, ast.If) and isinstance(first.test, ast.Compare) and isinstance(first.test.ops[0], ast.IsNot) \
                        and (dotted_of(first.test.left) or "").endswith(".specified_for") and dotted_of(first.test.comparators[0]) == owner \
                        and first.body and isinstance(first.body[-1], ast.Continue):
                    ok = True
                what = f"{f.qualname}: for invariant in {it}: skip unless specified_for is {owner}"
                if ok:
                    ctx.ok("OWN", f, loop, what=what)
                else:
                    ctx.fail("OWN", f, loop, f"the loop over `{it}` does not skip invariants inherited from ancestors (`specified_for is not {owner}: continue`): inherited constraints are counted twice when merged along the hierarchy", construct=what)
    ctx.require_anchor(n >= 5, "five inference loops over invariants")
