"""C09 All runnable SDK targets agree with the Python SDK (DESIGN §4 C09)."""
import ast

from ..flow import find_calls
from ..model import dotted_of, short
from ..rules import transp, exh
from .c08 import _check_transpiler_complete, _check_description_flow

CLAIM = (
    "sibling agreement of the five non-Python transpilers with the Python one, as tables: (1) each target's comparison map equals the "
    "operator oracle for every Comparator member and is looked up by node.op; (2) transform_and/or/not emit only their own connective "
    "(&&, ||, !), transform_implication negates the antecedent and joins the un-negated consequent with ||, add/sub emit + and -; "
    "(3) every Transpiler implements every node kind; (4) JSON names come from one place: every jsonization generator takes property "
    "names from naming.json_property and model types from naming.json_model_type, the XML generators from naming.xml_property / "
    "naming.xml_class_name; (5) invariant descriptions pass through wrap_text_into_lines and the target's string_literal; (6) JOINED: in each "
    "transform_joined_str the literal parts of a formatted string reach the output through the target's literal function exactly once, and "
    "the escaping required by the target's interpolation syntax (doubled braces for Python f-strings and C# `$\"`, `${` for TypeScript "
    "templates, %% for Go's Sprintf, none for the concatenating Java and C++) is applied to them and nowhere else; (7) the C++ SDK matches patterns with the regex VM, whose "
    "quantifier expansion and `.*$` shortcut are checked as in C18 (REP, SUFFIX-OPT); (8) PAREN: an operand is emitted without parentheses only on paths where its own node kind was "
    "tested, and the kinds exempted are atomic; (9) DEREF: the C++ and Go transpilers, whose optionals are not values, pass every operand "
    "of !, &&, ||, +, -, an implication and a quantifier condition through their dereference-if-optional helper (found structurally)."
)
NOTE = (
    "Trusted base: operator oracle table; identification of the transpiled operands by the names bound from self.transform(node.<field>). "
    "Not decided: equality of verdicts, of serialized JSON and of accept/reject behaviour between the SDKs - that needs the four toolchains."
)
TECHNIQUE = "static analysis: table agreement across sibling transpilers against an operator oracle, template-shape analysis, who-may-name check on the jsonization/xmlization generators"

TARGETS = ["cpp", "csharp", "golang", "java", "typescript"]


def run(ctx) -> None:
    p = ctx.p
    ctx.rule("OPS", "comparison maps equal the operator oracle (five targets)", floor=35)
    ctx.rule("CONN", "connective templates: own connective only; implication = !antecedent || consequent (five targets)", floor=30)
    ctx.rule("EXH3", "every Transpiler implements every node kind", floor=5)
    ctx.rule("PAREN", "an operand is emitted without parentheses only on paths where its own node kind was tested (five targets)", floor=10)
    ctx.rule("REFLOW", "line-broken variants of a template carry the same holes and text as the one-line form (five targets)", floor=2)
    ctx.rule("NAMES", "JSON/XML property and class names are produced by the shared naming functions only", floor=20)
    ctx.rule("DESC", "invariant descriptions pass through wrap_text_into_lines and string_literal", floor=4)
    for t in TARGETS:
        transp.check_ops(ctx, t, "OPS")
        transp.check_connectives(ctx, t, "CONN")
        _check_transpiler_complete(ctx, t, "EXH3")
        transp.check_parentheses(ctx, t, "PAREN")
        transp.check_bare_kinds(ctx, t, "PAREN")
        for m in p.modules.values():
            if m.name.startswith(f"aas_core_codegen.{t}"):
                for f in m.functions.values():
                    transp.check_reflow(ctx, f, "REFLOW")
        _check_description_flow(ctx, t, "DESC")
    _check_names(ctx)
    ctx.rule("REP", "C++ regex VM: quantifier expansion emits the right number of fresh copies (shared with C18)", floor=3)
    ctx.rule("SUFFIX-OPT", "C++ regex VM: the `.*$` shortcut only for a dot with minimum 0 and no maximum (shared with C18)", floor=4)
    from . import c18 as _c18
    _c18._check_repetitions(ctx)
    _c18._check_suffix_optimisation(ctx)
    ctx.rule("DEREF", "C++/Go: operands of !, &&, ||, +, -, implication and quantifier conditions go through the dereference-if-optional helper", floor=13)
    for t in ("cpp", "golang"):
        transp.check_deref(ctx, t, "DEREF")
    ctx.rule("JOINED", "formatted strings: literal parts escaped exactly once, interpolation-specific escaping only where the target needs it (six targets)", floor=10)
    for t in JOINED_TABLE:
        _check_joined_str(ctx, t)


def _check_names(ctx) -> None:
    """In every <target>/lib/_generate_jsonization.py a JSON key / model type used in
    generated code originates from naming.json_property / naming.json_model_type;
    it is never derived from the meta-model name through another conversion."""
    p = ctx.p
    for t in ["cpp", "csharp", "golang", "java", "python", "typescript"]:
        for modname, fns, alt in (
            (f"{t}.lib._generate_jsonization", ("json_property", "json_model_type"), ("property_name", "class_name")),
            (f"{t}.lib._generate_xmlization", ("xml_property", "xml_class_name"), ("property_name", "class_name")),
        ):
            if f"aas_core_codegen.{modname}" not in p.modules:
                continue
            m = p.module(modname)
            used = set()
            for f in m.functions.values():
                for c in find_calls(f.node, lambda c: (dotted_of(c.func) or "").startswith("naming.")):
                    used.add((dotted_of(c.func) or "").split(".")[-1])
            for fn in fns:
                what = f"{t}: {modname.split('.')[-1]} uses naming.{fn}"
                if fn in used:
                    ctx.ok("NAMES", m, m.tree, what=what)
                else:
                    ctx.fail("NAMES", m, m.tree, f"{modname} never calls naming.{fn}: the names in the {t} serialization are derived elsewhere and can disagree with the other SDKs", construct=what)
            # string literals of generated code must not be built from `<x>.name` directly where a naming function exists:
            for f in m.functions.values():
                for js in [n for n in ast.walk(f.node) if isinstance(n, ast.Call) and (dotted_of(n.func) or "").split(".")[-1] == "string_literal" and n.args]:
                    a = js.args[0]
                    if isinstance(a, ast.Attribute) and a.attr == "name" and dotted_of(a.value) in ("prop", "cls", "our_type"):
                        ctx.fail("NAMES", f, js, f"`{short(js)}` emits the raw meta-model name as a serialized name instead of naming.{fns[0]}(...)", construct=f"{t}: raw name {short(a)}")


JOINED_TABLE = {
    # target: (literal function suffixes, required keyword on the literal parts of the INTERPOLATED form, text ops allowed on the raw part)
    "python": (("string_literal",), {"duplicate_curly_brackets": True}, ()),
    "typescript": (("string_literal",), {"in_backticks": True}, ()),
    "csharp": (("string_literal",), {}, ("{{", "}}")),
    "java": (("string_literal",), {}, ()),
    "golang": (("string_literal",), {}, ("%%",)),
    "cpp": (("wstring_literal", "string_literal"), {}, ()),
}


def _check_joined_str(ctx, t: str) -> None:
    """Formatted strings (f-strings of the meta-model): per target, (a) every literal part reaches the output through the
    target's literal function exactly once (escaped zero times: quotes break the literal; twice: the escapes become part
    of the text); (b) the escaping that the target's interpolation syntax needs is applied to the literal parts of the
    interpolated form and nowhere else (python: doubled braces via duplicate_curly_brackets, TypeScript: in_backticks,
    C#: doubled braces only under `$"`, Go: %% for Sprintf, Java / C++: none, the parts are concatenated)."""
    p = ctx.p
    f = p.func(f"{t}.transpilation:Transpiler.transform_joined_str")
    lits, need_kw, allowed_ops = JOINED_TABLE[t]
    from ..rules import schema as S

    parents = S.parents_of(f)
    # the loop variable over node.values
    loops = [n for n in ast.walk(f.node) if isinstance(n, ast.For) and dotted_of(n.iter) == "node.values" and isinstance(n.target, ast.Name)]
    ctx.require_anchor(len(loops) >= 1, f"{t}: transform_joined_str loops over node.values")
    lv = loops[0].target.id

    def is_lit(call: ast.Call) -> bool:
        return (dotted_of(call.func) or "").split(".")[-1] in lits and (dotted_of(call.func) or "").startswith(f"{t}_common.")

    level = {lv: 0}

    def lvl(e: ast.AST):
        if isinstance(e, ast.Name):
            return level.get(e.id)
        if isinstance(e, ast.Call):
            if is_lit(e) and e.args:
                a = lvl(e.args[0])
                return None if a is None else a + 1
            if isinstance(e.func, ast.Attribute) and e.func.attr in ("replace", "join", "strip", "format"):
                base = lvl(e.func.value)
                argl = [lvl(a) for a in e.args]
                cand = [x for x in [base] + argl if x is not None]
                return max(cand) if cand else None
            if dotted_of(e.func) in ("Stripped", "str") and e.args:
                return lvl(e.args[0])
            return None
        if isinstance(e, ast.Subscript):
            return lvl(e.value)
        if isinstance(e, ast.IfExp):
            cand = [x for x in (lvl(e.body), lvl(e.orelse)) if x is not None]
            return max(cand) if cand else None
        if isinstance(e, ast.JoinedStr):
            cand = [lvl(v.value) for v in e.values if isinstance(v, ast.FormattedValue)]
            cand = [x for x in cand if x is not None]
            return max(cand) if cand else None
        if isinstance(e, (ast.GeneratorExp, ast.ListComp)):
            return lvl(e.elt)
        return None

    # the literal-part arm only: statements under `isinstance(<lv>, str)`, plus everything after the loop
    for _ in range(4):
        for n in ast.walk(f.node):
            if isinstance(n, ast.Assign) and len(n.targets) == 1 and isinstance(n.targets[0], ast.Name):
                in_fv_arm = any("FormattedValue" in ast.unparse(tst) and pol for tst, pol in S.guards_of(n, parents))
                if in_fv_arm:
                    continue
                v = lvl(n.value)
                if v is not None:
                    level[n.targets[0].id] = max(level.get(n.targets[0].id, 0), v)
            if isinstance(n, ast.Call) and isinstance(n.func, ast.Attribute) and n.func.attr in ("append", "extend") and isinstance(n.func.value, ast.Name) and n.args:
                in_fv_arm = any("FormattedValue" in ast.unparse(tst) and pol for tst, pol in S.guards_of(n, parents))
                if in_fv_arm:
                    continue
                v = lvl(n.args[0])
                if v is not None:
                    level[n.func.value.id] = max(level.get(n.func.value.id, 0), v)
            if isinstance(n, ast.For) and isinstance(n.target, ast.Name) and isinstance(n.iter, ast.Name) and n.iter.id in level:
                level[n.target.id] = level[n.iter.id]
    # no literal function is applied to text that already went through one
    what = f"{t}: literal parts of a formatted string pass through the literal function exactly once"
    twice = [c for c in ast.walk(f.node) if isinstance(c, ast.Call) and is_lit(c) and c.args and (lvl(c.args[0]) or 0) >= 1]
    if twice:
        ctx.fail("JOINED", f, twice[0], f"{t}: `{short(twice[0])}` converts text to a string literal that already contains the output of the literal function: quotes, backslashes and control characters of the literal parts are escaped twice and the escapes become part of the text", construct=what)
    else:
        ctx.ok("JOINED", f, f.node, what=what)
    # interpolation-specific escaping on the literal parts
    lit_calls = [c for c in ast.walk(f.node) if isinstance(c, ast.Call) and is_lit(c) and c.args and lvl(c.args[0]) == 0
                 and not any("FormattedValue" in ast.unparse(tst) and pol for tst, pol in S.guards_of(c, parents))]
    ctx.require_anchor(len(lit_calls) >= 1, f"{t}: a literal call on the raw literal part")
    all_reps = []
    for x in ast.walk(f.node):
        if isinstance(x, ast.Call) and isinstance(x.func, ast.Attribute) and x.func.attr == "replace" and len(x.args) == 2 and isinstance(x.args[1], ast.Constant) \
                and lv in {y.id for y in ast.walk(x.func.value) if isinstance(y, ast.Name)}:
            all_reps.append((x, x.args[1].value))
    for c in lit_calls:
        kws = {k.arg: (k.value.value if isinstance(k.value, ast.Constant) else None) for k in c.keywords}
        in_loop = any(c is x for lp in loops for x in ast.walk(lp))
        for k, v in (need_kw.items() if in_loop else ()):
            what2 = f"{t}: literal parts of the interpolated form are escaped for the interpolation syntax ({k}={v})"
            if kws.get(k) == v:
                ctx.ok("JOINED", f, c, what=what2)
            else:
                ctx.fail("JOINED", f, c, f"{t}: `{short(c)}` does not pass {k}={v}: characters that are syntax inside the interpolated string (braces / `${{`) stay raw and change the text or the interpolation", construct=what2)
        interpolated_arm = len(lit_calls) == 1 or not any("needs_interpolation" in ast.unparse(tst) and not pol or ("all(" in ast.unparse(tst) and pol) for tst, pol in S.guards_of(c, parents) + S.early_exit_guards(c, f, parents))
        reps = list(all_reps) if c is lit_calls[-1] else []
        what3 = f"{t}: text replacements on the literal part are exactly {list(allowed_ops) or 'none'}"
        got = sorted(r for _, r in reps)
        if c is not lit_calls[-1]:
            continue
        if got != sorted(allowed_ops):
            ctx.fail("JOINED", f, c, f"{t}: the literal part is rewritten with {got or 'nothing'} before it is escaped; the {t} form of a formatted string needs {list(allowed_ops) or 'no rewriting'}: the text of the string differs from Python's", construct=what3)
            continue
        if t == "csharp" and reps:
            # brace doubling only when the emitted string is interpolated
            cond = all(any(isinstance(a, ast.IfExp) and "needs_interpolation" in ast.unparse(a.test) and any(y is rx for y in ast.walk(a.body)) for a in ast.walk(f.node))
                       or any("needs_interpolation" in ast.unparse(tst) and pol for tst, pol in S.guards_of(rx, parents)) for rx, _ in reps)
            if not cond:
                ctx.fail("JOINED", f, c, "csharp: the braces of a literal part are doubled also when the emitted string is a plain, non-interpolated literal: `{x}` becomes `{{x}}`", construct="csharp: brace doubling only under $\"")
                continue
        ctx.ok("JOINED", f, c, what=what3)
