"""C09 All runnable SDK targets agree with the Python SDK (DESIGN §4 C09)."""
import ast

from ..flow import find_calls
from ..model import dotted_of, short
from ..rules import transp, exh
from .c08 import _check_transpiler_complete, _check_description_flow

CLAIM = (
    "sibling agreement of the five non-Python transpilers with the Python one, as tables: (1) each target's comparison map equals the "
    "operator oracle for every Comparator member and is looked up by node.op; (2) transform_and/or/not emit only their own connective "
    "(&&, ||, !), transform_implication negates the antecedent and joins the un-negated consequent with ||, add/sub emit + and -; "
    "(3) every Transpiler implements every node kind; (4) JSON names come from one place: every jsonization generator takes property "
    "names from naming.json_property and model types from naming.json_model_type, the XML generators from naming.xml_property / "
    "naming.xml_class_name; (5) invariant descriptions pass through wrap_text_into_lines and the target's string_literal."
)
NOTE = (
    "Trusted base: operator oracle table; identification of the transpiled operands by the names bound from self.transform(node.<field>). "
    "Not decided: equality of verdicts, of serialized JSON and of accept/reject behaviour between the SDKs - that needs the four toolchains."
)
TECHNIQUE = "static analysis: table agreement across sibling transpilers against an operator oracle, template-shape analysis, who-may-name check on the jsonization/xmlization generators"

TARGETS = ["cpp", "csharp", "golang", "java", "typescript"]


def run(ctx) -> None:
    p = ctx.p
    ctx.rule("OPS", "comparison maps equal the operator oracle (five targets)", floor=35)
    ctx.rule("CONN", "connective templates: own connective only; implication = !antecedent || consequent (five targets)", floor=30)
    ctx.rule("EXH3", "every Transpiler implements every node kind", floor=5)
    ctx.rule("PAREN", "an operand is emitted without parentheses only on paths where its own node kind was tested (five targets)", floor=10)
    ctx.rule("REFLOW", "line-broken variants of a template carry the same holes and text as the one-line form (five targets)", floor=2)
    ctx.rule("NAMES", "JSON/XML property and class names are produced by the shared naming functions only", floor=20)
    ctx.rule("DESC", "invariant descriptions pass through wrap_text_into_lines and string_literal", floor=4)
    for t in TARGETS:
        transp.check_ops(ctx, t, "OPS")
        transp.check_connectives(ctx, t, "CONN")
        _check_transpiler_complete(ctx, t, "EXH3")
        transp.check_parentheses(ctx, t, "PAREN")
        for m in p.modules.values():
            if m.name.startswith(f"aas_core_codegen.{t}"):
                for f in m.functions.values():
                    transp.check_reflow(ctx, f, "REFLOW")
        _check_description_flow(ctx, t, "DESC")
    _check_names(ctx)


def _check_names(ctx) -> None:
    """In every <target>/lib/_generate_jsonization.py a JSON key / model type used in
    generated code originates from naming.json_property / naming.json_model_type;
    it is never derived from the meta-model name through another conversion."""
    p = ctx.p
    for t in ["cpp", "csharp", "golang", "java", "python", "typescript"]:
        for modname, fns, alt in (
            (f"{t}.lib._generate_jsonization", ("json_property", "json_model_type"), ("property_name", "class_name")),
            (f"{t}.lib._generate_xmlization", ("xml_property", "xml_class_name"), ("property_name", "class_name")),
        ):
            if f"aas_core_codegen.{modname}" not in p.modules:
                continue
            m = p.module(modname)
            used = set()
            for f in m.functions.values():
                for c in find_calls(f.node, lambda c: (dotted_of(c.func) or "").startswith("naming.")):
                    used.add((dotted_of(c.func) or "").split(".")[-1])
            for fn in fns:
                what = f"{t}: {modname.split('.')[-1]} uses naming.{fn}"
                if fn in used:
                    ctx.ok("NAMES", m, m.tree, what=what)
                else:
                    ctx.fail("NAMES", m, m.tree, f"{modname} never calls naming.{fn}: the names in the {t} serialization are derived elsewhere and can disagree with the other SDKs", construct=what)
            # string literals of generated code must not be built from `<x>.name` directly where a naming function exists:
            for f in m.functions.values():
                for js in [n for n in ast.walk(f.node) if isinstance(n, ast.Call) and (dotted_of(n.func) or "").split(".")[-1] == "string_literal" and n.args]:
                    a = js.args[0]
                    if isinstance(a, ast.Attribute) and a.attr == "name" and dotted_of(a.value) in ("prop", "cls", "our_type"):
                        ctx.fail("NAMES", f, js, f"`{short(js)}` emits the raw meta-model name as a serialized name instead of naming.{fns[0]}(...)", construct=f"{t}: raw name {short(a)}")
