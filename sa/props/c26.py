"""C26 Yield-flow linearization preserves behaviour (DESIGN §4 C26)."""
import ast
from typing import Any, Dict, List, Optional, Set, Tuple

from ..model import AnalysisError, dotted_of, short, walk_function_body
from ..rules import exh, seq

CLAIM = (
    "(1) label arithmetic of every _linearize_* function, by symbolic execution of its paths over labels of the form (epoch, offset): "
    "every forward reference (If.on_true/on_false, Jump.target, including placeholders patched later) ends up equal to a label that is "
    "attached to a statement appended in the same function (or is the label handed to a nested linearization that is followed by an attached statement, which covers the empty nested block), and the returned next-free label is strictly "
    "above every label the function attached since the last nested call; (2) the consumers of statements (_collect_targets, "
    "_remove_noops_in_place, _fix_labels_in_place) agree on the target-bearing fields (If.on_true, If.on_false, Jump.target) and rewrite "
    "each field from itself through the map; (3) _LINEARIZE_DISPATCH covers every node kind of yielding.flow.Node; "
    "(4) linearize_to_subroutines runs linearize -> compress -> fix labels -> split in that order."
    " SKIPS: the loops of the functions in scope have no more `continue`, `break` or in-loop `return` statements than the reference "
    "read on the unchanged tree (baselines/skips.json): a new skip means elements that were handled are no longer handled."
    " TRUTHY: no Optional[int] label is tested by truthiness (label 0 is a label). EMPTY-ONLY: the size tests under which a pass returns early hold for the empty list only (evaluated for lengths 0..4)."
)
NOTE = (
    "Trusted base: the small symbolic executor for straight-line label updates (an unrecognised statement is an ANALYSIS-ERROR). "
    "Not decided: behavioural equivalence of the state machine and the structured flow for all condition outcomes."
)
TECHNIQUE = "static analysis: symbolic execution of label arithmetic over (epoch, offset) pairs per path, table agreement on target-bearing fields, dispatch exhaustiveness, pass ordering"

LIN = "yielding.linear"
Sym = Tuple[int, int]


class _Path:
    def __init__(self):
        self.label: Sym = (0, 0)
        self.epoch = 0
        self.vars: Dict[str, Any] = {}      # name -> Sym | ("stmt", id)
        self.stmts: Dict[int, Dict[str, Any]] = {}  # id -> {"label": Sym, fields...}
        self.appended: List[int] = []
        self.nested_returns: List[Sym] = []
        self.ret: Optional[Sym] = None
        self.next_id = 0

    def clone(self):
        import copy
        return copy.deepcopy(self)


def _sym_of(e: ast.AST, p: _Path, f) -> Any:
    if isinstance(e, ast.Name):
        if e.id == "label":
            return p.label
        if e.id in p.vars:
            return p.vars[e.id]
    if isinstance(e, ast.BinOp) and isinstance(e.op, ast.Add) and isinstance(e.right, ast.Constant) and isinstance(e.right.value, int):
        b = _sym_of(e.left, p, f)
        if isinstance(b, tuple) and len(b) == 2 and isinstance(b[0], int):
            return (b[0], b[1] + e.right.value)
    if isinstance(e, ast.Attribute) and e.attr == "label" and isinstance(e.value, ast.Name) and isinstance(p.vars.get(e.value.id), tuple) and p.vars[e.value.id][0] == "stmt":
        return p.stmts[p.vars[e.value.id][1]]["label"]
    if isinstance(e, ast.Constant) and isinstance(e.value, int):
        return ("const", e.value)
    return None


STMT_CLASSES = {"Command", "If", "Jump", "Yield", "Noop"}
TARGET_FIELDS = {"If": ("on_true", "on_false"), "Jump": ("target",)}


def _construct(call: ast.Call, p: _Path, f) -> Optional[int]:
    name = dotted_of(call.func)
    if name not in STMT_CLASSES:
        return None
    sid = p.next_id
    p.next_id += 1
    rec: Dict[str, Any] = {"kind": name, "label": None}
    for kw in call.keywords:
        if kw.arg == "label":
            rec["label"] = _sym_of(kw.value, p, f)
        if kw.arg in ("target", "on_true", "on_false"):
            rec[kw.arg] = _sym_of(kw.value, p, f)
    if name == "Jump" and call.args:
        rec["target"] = _sym_of(call.args[0], p, f)
    p.stmts[sid] = rec
    return sid


def _exec(body: List[ast.stmt], paths: List[_Path], f) -> List[_Path]:
    for s in body:
        new: List[_Path] = []
        for p in paths:
            if p.ret is not None:
                new.append(p)
                continue
            new.extend(_step(s, p, f))
        paths = new
        if len(paths) > 64:
            raise AnalysisError("C26: too many paths")
    return paths


def _step(s: ast.stmt, p: _Path, f) -> List[_Path]:
    if isinstance(s, ast.Expr) and isinstance(s.value, ast.Constant):
        return [p]
    if isinstance(s, ast.Assert) or isinstance(s, ast.Pass):
        return [p]
    if isinstance(s, ast.If):
        a, b = p.clone(), p.clone()
        return _exec(s.body, [a], f) + _exec(s.orelse, [b], f)
    if isinstance(s, ast.AugAssign) and isinstance(s.target, ast.Name) and s.target.id == "label" and isinstance(s.op, ast.Add) and isinstance(s.value, ast.Constant):
        p.label = (p.label[0], p.label[1] + s.value.value)
        return [p]
    if isinstance(s, (ast.Assign, ast.AnnAssign)) and getattr(s, "value", None) is not None:
        tgt = s.targets[0] if isinstance(s, ast.Assign) else s.target
        v = s.value
        # body, label = _linearize_sequence(..., label)
        if isinstance(tgt, ast.Tuple) and len(tgt.elts) == 2 and isinstance(v, ast.Call) and isinstance(tgt.elts[1], ast.Name) and tgt.elts[1].id == "label":
            p.nested_returns.append((p.label, p.epoch + 1))
            p.epoch += 1
            p.label = (p.epoch, 0)
            if isinstance(tgt.elts[0], ast.Name):
                p.vars[tgt.elts[0].id] = ("block", p.epoch)
            return [p]
        if isinstance(tgt, ast.Name):
            if isinstance(v, ast.Call):
                sid = _construct(v, p, f)
                if sid is not None:
                    p.vars[tgt.id] = ("stmt", sid)
                    return [p]
            if isinstance(v, ast.List):
                for e in v.elts:
                    _append(e, p, f)
                p.vars[tgt.id] = ("list",)
                return [p]
            sym = _sym_of(v, p, f)
            if sym is not None:
                p.vars[tgt.id] = sym
                return [p]
            return [p]
        if isinstance(tgt, ast.Attribute) and isinstance(tgt.value, ast.Name) and tgt.attr in ("target", "on_true", "on_false"):
            ref = p.vars.get(tgt.value.id)
            if isinstance(ref, tuple) and ref[0] == "stmt":
                p.stmts[ref[1]][tgt.attr] = _sym_of(v, p, f)
            return [p]
        return [p]
    if isinstance(s, ast.Expr) and isinstance(s.value, ast.Call) and isinstance(s.value.func, ast.Attribute):
        m = s.value.func.attr
        if m == "append" and s.value.args:
            _append(s.value.args[0], p, f)
            return [p]
        if m == "extend":
            return [p]
    if isinstance(s, ast.Return):
        v = s.value
        if isinstance(v, ast.Tuple) and len(v.elts) == 2:
            if isinstance(v.elts[0], ast.List):
                for e in v.elts[0].elts:
                    _append(e, p, f)
            p.ret = _sym_of(v.elts[1], p, f)
        else:
            p.ret = ("other", 0)
        return [p]
    raise AnalysisError(f"C26: cannot interpret `{short(s)}` in {f.qualname}")


def _append(e: ast.AST, p: _Path, f) -> None:
    if isinstance(e, ast.Name) and isinstance(p.vars.get(e.id), tuple) and p.vars[e.id][0] == "stmt":
        p.appended.append(p.vars[e.id][1])
    elif isinstance(e, ast.Call):
        sid = _construct(e, p, f)
        if sid is not None:
            p.appended.append(sid)


def _check_empty_only(ctx) -> None:
    """`if len(xs) <op> k: return` at the top of a pass: every pass establishes something for each non-empty input (a label on the
    first statement, a subroutine per block), so the early exit is sound only for the empty list.  The test is evaluated for
    lengths 0..4."""
    import operator

    ops = {ast.Eq: operator.eq, ast.NotEq: operator.ne, ast.Lt: operator.lt, ast.LtE: operator.le, ast.Gt: operator.gt, ast.GtE: operator.ge}
    for f in ctx.p.module(LIN).functions.values():
        params = set(f.param_names())
        for st in f.node.body:
            if not (isinstance(st, ast.If) and not st.orelse and len(st.body) == 1 and isinstance(st.body[0], ast.Return)):
                continue
            t = st.test
            if not (isinstance(t, ast.Compare) and len(t.ops) == 1 and type(t.ops[0]) in ops):
                continue
            a, b = t.left, t.comparators[0]
            flipped = False
            if isinstance(a, ast.Constant):
                a, b, flipped = b, a, True
            if not (isinstance(a, ast.Call) and dotted_of(a.func) == "len" and len(a.args) == 1 and isinstance(a.args[0], ast.Name) and a.args[0].id in params
                    and isinstance(b, ast.Constant) and isinstance(b.value, int)):
                continue
            rv = st.body[0].value
            trivial = rv is None or (isinstance(rv, ast.Constant) and rv.value in ("", None)) or (isinstance(rv, (ast.List, ast.Tuple)) and not rv.elts)
            if not trivial:
                continue
            fn = ops[type(t.ops[0])]
            holds = [n for n in range(5) if (fn(b.value, n) if flipped else fn(n, b.value))]
            what = f"{f.name}: early return under `{short(t)}`"
            if holds == [0]:
                ctx.ok("EMPTY-ONLY", f, st, what=what)
            else:
                ctx.fail("EMPTY-ONLY", f, st, f"{f.name} returns early, without doing its work, when `{short(t)}`, which holds for lengths {holds} (of 0..4), not only for the empty list: a one-element flow keeps an unlabelled first statement / is not emitted", construct=what)


def run(ctx) -> None:
    p = ctx.p
    ctx.rule("LABEL-ARITH", "forward references resolve to attached labels; the returned next label is fresh (symbolic execution per path)", floor=10)
    ctx.rule("TARGET-FIELDS", "consumers agree on If.on_true / If.on_false / Jump.target and rewrite each from itself", floor=6)
    ctx.rule("EXH2", "_LINEARIZE_DISPATCH covers yielding.flow.Node", floor=1)
    ctx.rule("SEQ", "linearize -> compress -> fix labels -> split", floor=1)
    ctx.rule("LABEL-REWIRE", "labels are set only when unset, unset only after re-mapping, and re-mapped to labels that survive", floor=5)
    _check_label_rewiring(ctx)
    ctx.rule("TRUTHY", "no Optional[int] label is tested by truthiness (label 0 is a label, not absence)", floor=1)
    from ..rules import truthy as _truthy
    _truthy.positive_control(ctx, "TRUTHY")
    for _f in p.module(LIN).functions.values():
        _truthy.check_truthy(ctx, _f, "TRUTHY")
    ctx.rule("EMPTY-ONLY", "the size tests that let a pass of the linearisation return early hold for the empty list only", floor=3)
    _check_empty_only(ctx)
    m = p.module(LIN)
    n_funcs = 0
    for name, f in m.functions.items():
        if not name.startswith("_linearize_") or name in ("_linearize_node", "_linearize_sequence", "_linearize_control_flow"):
            continue
        n_funcs += 1
        start = _Path()
        body = [s for s in f.node.body if not (isinstance(s, ast.Expr) and isinstance(s.value, ast.Constant))]
        paths = _exec(body, [start], f)
        for i, path in enumerate(paths):
            if path.ret is None:
                ctx.fail("LABEL-ARITH", f, f.node, "a path does not return (statements, next label)", construct=f"{name}: path {i} return")
                continue
            attached = {path.stmts[sid]["label"] for sid in path.appended if path.stmts[sid]["label"] is not None}
            problems = []
            for sid in path.appended:
                rec = path.stmts[sid]
                for fld in TARGET_FIELDS.get(rec["kind"], ()):
                    if fld not in rec:
                        continue
                    t = rec[fld]
                    if t is None:
                        problems.append(f"{rec['kind']}.{fld} is set to an expression that is not a label")
                    elif isinstance(t, tuple) and t[0] == "const":
                        problems.append(f"{rec['kind']}.{fld} keeps the placeholder {t[1]}")
                    elif t not in attached and not any(pre == t and (ep, 0) in attached for pre, ep in path.nested_returns):
                        problems.append(f"{rec['kind']}.{fld} refers to label {t}, which is not attached to any statement appended here (attached: {sorted(attached)})")
                if rec["kind"] == "Jump" and "target" not in rec:
                    problems.append("a Jump is appended without a target")
                # a backward jump closes a loop: it must go to the loop's condition (an If)
                if rec["kind"] == "Jump" and isinstance(rec.get("target"), tuple) and isinstance(rec["target"][0], int) and isinstance(rec.get("label"), tuple):
                    t, own = rec["target"], rec["label"]
                    if t < own:
                        if_labels = {path.stmts[x]["label"] for x in path.appended if path.stmts[x]["kind"] == "If"}
                        if t not in if_labels:
                            problems.append(f"the backward Jump goes to label {t}, which is not the label of the loop's condition (If at {sorted(if_labels)})")
            # the returned label must be fresh w.r.t. the labels attached in the last epoch
            ret = path.ret
            if not (isinstance(ret, tuple) and isinstance(ret[0], int)):
                problems.append("the returned next label is not derived from the label counter")
            else:
                same = [a for a in attached if isinstance(a, tuple) and a[0] == ret[0]]
                if any(a[1] >= ret[1] for a in same):
                    problems.append(f"the returned next label {ret} is not above the attached label(s) {sorted(same)}: the caller reuses a label")
                if ret[0] < path.epoch:
                    problems.append("the returned next label predates a nested linearization: labels of the nested statements are reused")
            what = f"{name}: path {i}: {len(path.appended)} statements, labels {sorted(a for a in attached)}, returns {ret}"
            if problems:
                ctx.fail("LABEL-ARITH", f, f.node, f"{name} (path {i}): " + "; ".join(problems), construct=f"{name}: path {i}: " + problems[0][:60])
            else:
                ctx.ok("LABEL-ARITH", f, f.node, what=what)
    ctx.require_anchor(n_funcs >= 6, "the six _linearize_* functions exist")

    # (2) target fields in consumers
    for key, mode in ((f"{LIN}:_collect_targets", "read"), (f"{LIN}:_remove_noops_in_place", "rewrite"), (f"{LIN}:_fix_labels_in_place", "rewrite")):
        f = p.func(key)
        for cname, flds in TARGET_FIELDS.items():
            branch = None
            for n in ast.walk(f.node):
                if isinstance(n, ast.If) and isinstance(n.test, ast.Call) and dotted_of(n.test.func) == "isinstance" and dotted_of(n.test.args[1]) == cname:
                    branch = n
            what = f"{f.qualname}: {cname} branch handles {list(flds)}"
            if branch is None:
                ctx.fail("TARGET-FIELDS", f, f.node, f"{f.qualname} has no branch for {cname}: its targets are not {mode}", construct=what)
                continue
            body = ast.Module(body=branch.body, type_ignores=[])
            problems = []
            for fl in flds:
                reads = [a for a in ast.walk(body) if isinstance(a, ast.Attribute) and a.attr == fl and isinstance(a.ctx, ast.Load)]
                if not reads:
                    problems.append(f"{fl} is never read")
                if mode == "rewrite":
                    ws = [a for a in ast.walk(body) if isinstance(a, ast.Assign) and isinstance(a.targets[0], ast.Attribute) and a.targets[0].attr == fl]
                    if not ws:
                        problems.append(f"{fl} is never rewritten")
                    for w in ws:
                        src = [x.attr for x in ast.walk(w.value) if isinstance(x, ast.Attribute) and x.attr in ("on_true", "on_false", "target")]
                        if src != [fl]:
                            problems.append(f"{fl} is rewritten from {src}")
                        # the guard of the rewrite must test the same field
                        for g in ast.walk(body):
                            if isinstance(g, ast.If) and any(x is w for x in ast.walk(g)):
                                tested = {x.attr for x in ast.walk(g.test) if isinstance(x, ast.Attribute) and x.attr in ("on_true", "on_false", "target")}
                                if tested and tested != {fl}:
                                    problems.append(f"the rewrite of {fl} is guarded by a test on {sorted(tested)}")
            if problems:
                ctx.fail("TARGET-FIELDS", f, branch, f"{f.qualname}, {cname} branch: " + "; ".join(problems), construct=what)
            else:
                ctx.ok("TARGET-FIELDS", f, branch, what=what)

    # (3) dispatch table
    tab = m.constants.get("_LINEARIZE_DISPATCH")
    ctx.require_anchor(isinstance(tab, ast.Dict), "_LINEARIZE_DISPATCH is a dict display")
    keys = {(dotted_of(k) or "").split(".")[-1] for k in tab.keys}
    flow = p.module("yielding.flow")
    node_alias = flow.constants.get("Node")
    ctx.require_anchor(node_alias is not None, "yielding.flow.Node union exists")
    members = {n.id for n in ast.walk(node_alias) if isinstance(n, ast.Name) and n.id not in ("Union",)} | {n.value for n in ast.walk(node_alias) if isinstance(n, ast.Constant) and isinstance(n.value, str)}
    missing = sorted(members - keys)
    if missing:
        ctx.fail("EXH2", m, tab, f"_LINEARIZE_DISPATCH has no entry for {missing}: linearizing such a node raises KeyError", construct="_LINEARIZE_DISPATCH keys")
    else:
        # each value is the function named after its key
        ctx.ok("EXH2", m, tab, what=f"_LINEARIZE_DISPATCH covers {sorted(members)}")
    seq.check_sequence(ctx, p.func(f"{LIN}:linearize_to_subroutines"), "SEQ", ["_linearize_control_flow", "_compress_in_place", "_fix_labels_in_place", "_split_in_subroutines"], lambda n: n.kind == "return" and isinstance(n.expr, ast.Name))
    ctx.rule("SKIPS", "the loops of the functions in scope have no more continue/break/return-in-loop statements than the reference read on the unchanged tree", floor=3)
    from ..rules import skips as _skips
    _base = _skips.load_baseline()
    for _m in ctx.p.modules.values():
        if _m.name.startswith("aas_core_codegen.yielding"):
            for _f in _m.functions.values():
                _skips.check_skips(ctx, _f, "SKIPS", _base)


def _check_label_rewiring(ctx) -> None:
    """Typestate of labels in the passes that delete or move them (``_remove_noops_in_place`` and siblings):
    (a) a label is given to a statement only when the statement is known to have none (``X.label is None``) - otherwise
        jumps to the old label lose their destination;
    (b) a label is unset only after it was mapped (``old_to_new_target[X.label] = ...``) or proven to be no target;
    (c) the value a label is mapped to belongs to a statement whose label survives the pass: a non-no-op statement, or
        an element of the no-op block that the unsetting loop skips (the prefix consumed by ``next(...)``)."""
    from ..rules import schema as S

    p = ctx.p
    mod = p.module("yielding.linear")
    n_sites = 0
    for f in mod.functions.values():
        stores = [n for n in walk_function_body(f.node) if isinstance(n, ast.Assign) and len(n.targets) == 1 and isinstance(n.targets[0], ast.Attribute) and n.targets[0].attr == "label"]
        if not stores:
            continue
        parents = S.parents_of(f)
        defs: Dict[str, List[ast.expr]] = {}
        for n in walk_function_body(f.node):
            if isinstance(n, ast.Assign) and len(n.targets) == 1 and isinstance(n.targets[0], ast.Name):
                defs.setdefault(n.targets[0].id, []).append(n.value)
        unset_vars = {ast.unparse(s.targets[0].value) for s in stores if isinstance(s.value, ast.Constant) and s.value.value is None}
        for s in stores:
            owner = ast.unparse(s.targets[0].value)
            if owner == "self" and f.name == "__init__":
                continue
            n_sites += 1
            guards = []
            for t, pol in S.guards_of(s, parents):
                parts = t.values if (pol and isinstance(t, ast.BoolOp) and isinstance(t.op, ast.And)) else [t]
                guards.extend(("" if pol else "not ") + ast.unparse(x) for x in parts)
            if isinstance(s.value, ast.Constant) and s.value.value is None:
                # (b) unset: mapped before in the same block, or proven not to be a target
                blk = parents.get(id(s))
                body = next((getattr(blk, fld) for fld in ("body", "orelse") if isinstance(getattr(blk, fld, None), list) and s in getattr(blk, fld)), [])
                before = body[: body.index(s)] if s in body else []
                mapped = any(isinstance(b, ast.Assign) and isinstance(b.targets[0], ast.Subscript) and ast.unparse(b.targets[0].slice) == f"{owner}.label" for b in before)
                not_target = any("not in target_set" in g or "not in targets" in g for g in guards)
                what = f"{f.name}: `{owner}.label = None` only after the label was re-mapped (or is no target)"
                if mapped or not_target:
                    ctx.ok("LABEL-REWIRE", f, s, what=what)
                else:
                    ctx.fail("LABEL-REWIRE", f, s, f"`{owner}.label` is unset without `old_to_new_target[{owner}.label] = ...` before it: jumps to that label keep a target that no statement carries", construct=what)
            else:
                # (a) set: only when unset
                what = f"{f.name}: `{owner}.label` is assigned only when it is None"
                renames_itself = isinstance(s.value, ast.Subscript) and ast.unparse(s.value.slice) == f"{owner}.label"
                if f"{owner}.label is None" in guards or renames_itself:
                    ctx.ok("LABEL-REWIRE", f, s, what=what)
                else:
                    ctx.fail("LABEL-REWIRE", f, s, f"`{owner}.label = {short(s.value)}` overwrites a label the statement may already carry (guards: {guards or 'none'}): jumps to the old label (e.g. a loop's back-jump) lose their destination", construct=what)
        # (c) mapping values
        for m in [n for n in walk_function_body(f.node) if isinstance(n, ast.Assign) and isinstance(n.targets[0], ast.Subscript) and dotted_of(n.targets[0].value) == "old_to_new_target"]:
            v = m.value
            n_sites += 1
            what = f"{f.name}: `{short(m)}` maps to a label that survives"
            ok = False
            why = ""
            if isinstance(v, ast.Attribute) and v.attr == "label":
                base = v.value
                if isinstance(base, ast.Name):
                    if base.id not in unset_vars:
                        ok = True
                    else:
                        why = f"`{base.id}.label` is unset in this pass"
                elif isinstance(base, ast.Subscript) and isinstance(base.value, ast.Name):
                    # an element of a block: it survives iff the unsetting loop skips it
                    idx = base.slice
                    j = idx.value if isinstance(idx, ast.Constant) and isinstance(idx.value, int) else (-idx.operand.value if isinstance(idx, ast.UnaryOp) and isinstance(idx.op, ast.USub) and isinstance(idx.operand, ast.Constant) else None)
                    loop = None
                    cur: ast.AST = m
                    while id(cur) in parents:
                        cur = parents[id(cur)]
                        if isinstance(cur, ast.For):
                            loop = cur
                            break
                    skipped = _skipped_prefix(loop, base.value.id, f, defs) if loop is not None else None
                    if j is not None and skipped is not None and 0 <= j < skipped:
                        ok = True
                    else:
                        why = f"element [{j}] of `{base.value.id}` is among those the enclosing loop unsets (it skips the first {skipped})"
            if ok:
                ctx.ok("LABEL-REWIRE", f, m, what=what)
            else:
                ctx.fail("LABEL-REWIRE", f, m, f"`{short(m)}`: {why or 'the new target is not the label of a statement that keeps its label'}: re-wired jumps point at a label that the pass deletes", construct=what)
    ctx.require_anchor(n_sites >= 5, "label stores and old_to_new_target mappings in yielding/linear.py")


def _is_fresh_object(owner: Optional[str], f) -> bool:
    return False


def _skipped_prefix(loop: ast.For, block: str, f, defs) -> Optional[int]:
    """How many leading elements of ``block`` the loop does not visit: ``it = iter(block); next(it) x k; for x in it``."""
    it = loop.iter
    if isinstance(it, ast.Name):
        ds = defs.get(it.id, [])
        if len(ds) == 1 and isinstance(ds[0], ast.Call) and dotted_of(ds[0].func) == "iter" and ds[0].args and dotted_of(ds[0].args[0]) == block:
            k = 0
            for n in walk_function_body(f.node):
                if isinstance(n, ast.Expr) and isinstance(n.value, ast.Call) and dotted_of(n.value.func) == "next" and n.value.args and dotted_of(n.value.args[0]) == it.id and n.lineno < loop.lineno:
                    k += 1
            return k
        return None
    if isinstance(it, ast.Subscript) and dotted_of(it.value) == block and isinstance(it.slice, ast.Slice) and isinstance(it.slice.lower, ast.Constant) and it.slice.upper is None:
        return it.slice.lower.value
    if dotted_of(it) == block:
        return 0
    return None
