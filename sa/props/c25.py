"""C25 Snippet directory is loaded exactly (DESIGN §4 C25)."""
import ast

from ..flow import artefacts, find_calls, kwarg
from ..model import dotted_of, short, walk_function_body
from ..rules import err, own, exitcode

CLAIM = (
    "on specific_implementations.read_from_directory: the listing is the recursive glob of snippets_dir; the hidden-entry test "
    "consults every component of the path relative to snippets_dir; directories are skipped; the key is data-dependent on "
    "relative_to(snippets_dir) and as_posix() and validated by IMPLEMENTATION_KEY_RE.fullmatch before use; the stored value is "
    "strip() of read_text(encoding='utf-8'); the decoding call sits inside a try whose handler covers UnicodeDecodeError; both "
    "failure arms append a message interpolating the key/path and continue; collected errors are returned (ERR3); "
    "main.execute reads the errors, reports them and returns 1 (ERR1, ERR4)."
    " SKIPS: the verification / resolution loops in scope have no more `continue`, `break` or in-loop `return` statements than the reference "
    "read on the unchanged tree (baselines/skips.json): a new skip means elements that were examined are no longer examined."
    " ASCII-RE: IMPLEMENTATION_KEY_RE, parsed with the regex parser of the standard library, contains no Unicode-aware category, no `.`, no "
    "negated class and no bound above U+007F."
)
NOTE = (
    "Trusted base: pathlib semantics of glob/relative_to/as_posix. Not decided: OS-level behaviours (special files, permissions, "
    "symlink loops) and the regular expression for valid keys itself."
)
TECHNIQUE = "static analysis: data origins (def-use) of key and value, try/handler coverage, guard shapes, error-accumulator typestate"


def run(ctx) -> None:
    p = ctx.p
    ctx.rule("SNIP", "structure of read_from_directory (listing, hidden test, key, value, failure arms)", floor=9)
    ctx.rule("ERR3", "collected snippet errors are returned", floor=1)
    ctx.rule("ERR1", "main.execute reads the snippet errors before using the snippets", floor=1)
    ctx.rule("ERR1v", "snippets not used while errors untested", floor=1)
    ctx.rule("ERR2", "no error-returning call dropped in the two functions", floor=0)
    f = p.func("specific_implementations:read_from_directory")
    defs = own.local_defs(f)
    loops = [n for n in walk_function_body(f.node) if isinstance(n, ast.For)]
    ctx.require_anchor(len(loops) >= 1, "read_from_directory iterates over the directory listing")
    loop = loops[0]
    ctx.require_anchor(isinstance(loop.target, ast.Name), "loop variable is a name")
    var = loop.target.id

    # listing
    globs = [c for c in ast.walk(loop.iter) if isinstance(c, ast.Call) and isinstance(c.func, ast.Attribute) and c.func.attr in ("glob", "rglob")]
    ok_listing = False
    for g in globs:
        recv = dotted_of(g.func.value)
        pat = g.args[0].value if g.args and isinstance(g.args[0], ast.Constant) else None
        if recv == "snippets_dir" and ((g.func.attr == "glob" and pat == "**/*") or (g.func.attr == "rglob" and pat == "*")):
            ok_listing = True
    if ok_listing:
        ctx.ok("SNIP", f, loop, what="listing = recursive glob of snippets_dir")
    else:
        ctx.fail("SNIP", f, loop, f"the loop does not iterate over the recursive listing of snippets_dir: `{short(loop.iter)}`", construct="listing")

    # guards that `continue`
    hidden_ok = False
    hidden_seen = False
    dir_ok = False
    for st in loop.body:
        if isinstance(st, ast.If) and st.body and isinstance(st.body[-1], ast.Continue) and len(st.body) == 1:
            txt = ast.unparse(st.test)
            sw = [c for c in ast.walk(st.test) if isinstance(c, ast.Call) and isinstance(c.func, ast.Attribute) and c.func.attr == "startswith"
                  and c.args and isinstance(c.args[0], ast.Constant) and c.args[0].value == "."]
            if sw:
                hidden_seen = True
                # every component of the relative path
                rel = [c for c in ast.walk(st.test) if isinstance(c, ast.Call) and isinstance(c.func, ast.Attribute) and c.func.attr == "relative_to"
                       and c.args and dotted_of(c.args[0]) == "snippets_dir"]
                parts = [a for a in ast.walk(st.test) if isinstance(a, ast.Attribute) and a.attr == "parts"]
                comp = [g for g in ast.walk(st.test) if isinstance(g, ast.comprehension)]
                # follow a local, e.g. ``rel = pth.relative_to(snippets_dir)``
                if not rel:
                    for nm in [n.id for n in ast.walk(st.test) if isinstance(n, ast.Name)]:
                        for d in defs.get(nm, []):
                            rel += [c for c in ast.walk(d) if isinstance(c, ast.Call) and isinstance(c.func, ast.Attribute) and c.func.attr == "relative_to"
                                    and c.args and dotted_of(c.args[0]) == "snippets_dir"]
                            parts += [a for a in ast.walk(d) if isinstance(a, ast.Attribute) and a.attr == "parts"]
                if rel and parts and (comp or "any(" in txt):
                    hidden_ok = True
            if any(isinstance(c, ast.Call) and dotted_of(c.func) == f"{var}.is_dir" for c in ast.walk(st.test)):
                dir_ok = True
    if hidden_ok:
        ctx.ok("SNIP", f, loop, what="hidden test over every component of relative_to(snippets_dir).parts")
    elif hidden_seen:
        ctx.fail("SNIP", f, loop, "the hidden-entry test does not consult every component of the path relative to snippets_dir (files below a hidden directory are loaded)", construct="hidden test")
    else:
        ctx.fail("SNIP", f, loop, "no hidden-entry test that skips the entry", construct="hidden test")
    if dir_ok:
        ctx.ok("SNIP", f, loop, what="directories skipped")
    else:
        ctx.fail("SNIP", f, loop, "directories are not skipped", construct="directory skip")

    # the store mapping[key] = value
    stores = [n for n in ast.walk(loop) if isinstance(n, ast.Assign) and isinstance(n.targets[0], ast.Subscript)]
    ctx.require_anchor(len(stores) == 1, "one store into the mapping")
    store = stores[0]
    key_expr = store.targets[0].slice
    val_expr = store.value
    ko = own.origins(f, key_expr, defs)
    need_key = [f"call:{var}.relative_to", "snippets_dir"]
    has_posix = any(o.endswith(".as_posix") for o in ko)
    if all(k in ko for k in need_key) and has_posix:
        ctx.ok("SNIP", f, store, what="key <- relative_to(snippets_dir) ... as_posix()")
    else:
        ctx.fail("SNIP", f, store, f"the key is not the POSIX path relative to snippets_dir (origins {sorted(ko)})", construct="key origin")
    # key validated before use: a fullmatch test on the same candidate with continue
    validated = False
    names_in_key = {n.id for n in ast.walk(key_expr) if isinstance(n, ast.Name)}
    cand = set(names_in_key)
    for nm in list(names_in_key):
        for d in defs.get(nm, []):
            cand |= {n.id for n in ast.walk(d) if isinstance(n, ast.Name)}
    fail_arms = []
    for st in loop.body:
        if isinstance(st, ast.If) and any(isinstance(x, ast.Continue) for x in st.body):
            fm = [c for c in ast.walk(st.test) if isinstance(c, ast.Call) and isinstance(c.func, ast.Attribute) and c.func.attr == "fullmatch"
                  and dotted_of(c.func.value) == "IMPLEMENTATION_KEY_RE" and c.args and isinstance(c.args[0], ast.Name) and c.args[0].id in cand]
            if fm and st.lineno < store.lineno:
                # polarity: the continue-arm is taken when the match is None
                t = st.test
                neg = (isinstance(t, ast.Compare) and isinstance(t.ops[0], ast.Is) and isinstance(t.comparators[0], ast.Constant) and t.comparators[0].value is None) or \
                      (isinstance(t, ast.UnaryOp) and isinstance(t.op, ast.Not))
                if neg:
                    validated = True
                    fail_arms.append((st.body, fm[0].args[0].id, "key"))
    if validated:
        ctx.ok("SNIP", f, store, what="key validated by IMPLEMENTATION_KEY_RE.fullmatch, invalid -> continue")
    else:
        ctx.fail("SNIP", f, store, "the key is stored without a dominating IMPLEMENTATION_KEY_RE.fullmatch test that skips invalid keys", construct="key validation")
    # value
    vo = own.origins(f, val_expr, defs)
    reads = []
    for nm in {n.id for n in ast.walk(val_expr) if isinstance(n, ast.Name)} | {None}:
        for d in ([val_expr] if nm is None else defs.get(nm, [])):
            reads += [c for c in ast.walk(d) if isinstance(c, ast.Call) and dotted_of(c.func) == f"{var}.read_text"]
    good_val = False
    read_call = None
    for rc in reads:
        enc = kwarg(rc, "encoding", 0)
        if isinstance(enc, ast.Constant) and str(enc.value).lower().replace("_", "-") in ("utf-8", "utf8"):
            read_call = rc
    if read_call is not None:
        # stripped: <read_text(...)>.strip() with no arguments, somewhere on the way to the value
        for nm in {n.id for n in ast.walk(val_expr) if isinstance(n, ast.Name)} | {None}:
            for d in ([val_expr] if nm is None else defs.get(nm, [])):
                for c in ast.walk(d):
                    if isinstance(c, ast.Call) and isinstance(c.func, ast.Attribute) and c.func.attr == "strip" and not c.args and not c.keywords and c.func.value is read_call:
                        good_val = True
    if good_val:
        ctx.ok("SNIP", f, store, what="value <- read_text(encoding='utf-8').strip()")
    else:
        ctx.fail("SNIP", f, store, "the stored value is not strip() of the UTF-8 decoded file content", construct="value origin")
    # decode inside try/except UnicodeDecodeError
    trys = [t for t in ast.walk(loop) if isinstance(t, ast.Try)]
    covered = False
    for t in trys:
        if read_call is not None and any(c is read_call for c in ast.walk(ast.Module(body=t.body, type_ignores=[]))):
            for h in t.handlers:
                names = []
                if h.type is None:
                    names = ["BaseException"]
                elif isinstance(h.type, ast.Tuple):
                    names = [dotted_of(e) for e in h.type.elts]
                else:
                    names = [dotted_of(h.type)]
                if any(n in ("UnicodeDecodeError", "UnicodeError", "ValueError", "Exception", "BaseException") for n in names):
                    covered = True
                    fail_arms.append((h.body, var, "path"))
    if covered:
        ctx.ok("SNIP", f, store, what="read_text inside try/except UnicodeDecodeError")
    else:
        ctx.fail("SNIP", f, store, "the decoding call is not inside a try whose handler covers UnicodeDecodeError: a non-UTF-8 snippet raises", construct="decode handler")
    # failure arms append a message naming the file and continue
    ctx.require_anchor(len(fail_arms) >= 1 or not (validated or covered), "failure arms found")
    for body, name, what in fail_arms:
        appended = None
        for st in body:
            if isinstance(st, ast.Expr) and isinstance(st.value, ast.Call) and dotted_of(st.value.func) == "errors.append":
                appended = st.value
        cont = body and isinstance(body[-1], ast.Continue)
        mentions = appended is not None and any(isinstance(n, ast.Name) and n.id == name for n in ast.walk(appended))
        if appended is not None and cont and mentions:
            ctx.ok("SNIP", f, body[0], what=f"failure arm ({what}) appends a message naming `{name}` and continues")
        else:
            ctx.fail("SNIP", f, body[0], f"the failure arm for an invalid {what} does not (append an error naming `{name}` and continue)", construct=f"failure arm {what}")
    err.check_err3(ctx, f, "ERR3")
    for g in (f, p.func("main:execute")):
        err.check_err12(ctx, g, "ERR1", "ERR1v", "ERR2")

    ctx.rule("SKIPS", "verification/resolution loops have no more continue/break/return-in-loop statements than the reference read on the unchanged tree", floor=1)
    from ..rules import skips as _skips
    _base = _skips.load_baseline()
    for _m in ctx.p.modules.values():
        if _m.name == "aas_core_codegen.specific_implementations":
            for _f in _m.functions.values():
                _skips.check_skips(ctx, _f, "SKIPS", _base)
    ctx.rule("ASCII-RE", "the regular expression of implementation keys admits ASCII names only", floor=1)
    from ..rules import asciire as _asciire
    _asciire.check_ascii_regex(ctx, "ASCII-RE", "specific_implementations", "IMPLEMENTATION_KEY_RE", "a snippet whose path has another character must be reported as an invalid key, not loaded")
