"""C11 JSON Schema is valid and never rejects valid data (DESIGN §4 C11)."""
import ast
from typing import Any, Dict, List, Optional, Set, Tuple

from ..callgraph import callgraph
from ..flow import artefacts, kwarg
from ..model import FuncInfo, dotted_of, short, walk_function_body
from ..rules import err, seq
from ..rules import schema as S
from ..scopes import PKG
from ..types import Cls, strip_opt

CLAIM = (
    "the structural clauses of `the schema is valid and never rejects SDK output`: (1) REF-DEF: every `$ref` string that "
    "jsonschema/main.py can emit names a definition that generate() stores under the same facts about the referenced type (kind of "
    "our type, has concrete descendants, used as a property type), decided by enumerating all fact assignments of the guards of the "
    "reference against the guards of the definitions; (2) B64-LEN: a length keyword that can apply to a byte array is computed from the "
    "byte length n so that it never cuts off the base64 text of an admissible value (maxLength(n) >= 4*ceil(n/3), minLength(n) <= "
    "4*ceil(n/3), for n in 0..600); (3) PATTERN-FIX: every `pattern` keyword is fix_pattern(<PatternConstraint>.pattern) under a guard "
    "admitting only STR, the fix_pattern parameter is threaded unchanged through every call, execute() passes fix_pattern_for_utf16, "
    "and that function is parse -> fix_for_utf16_regex_in_place -> render on the same tree; (4) TYPE-MAP: the JSON type of each "
    "PrimitiveType equals the JSON Schema type of what the SDKs write; (5) errors are never dropped (ERR1-3, RET-XOR) in jsonschema/main.py; (6) the UTF-16 "
    "rewriting itself (surrogate arithmetic, range decomposition, quantifiers, complement guard) as decided by the rules of C17, run here too."
    " SKIPS: the loops of the functions in scope have no more `continue`, `break` or in-loop `return` statements than the reference "
    "read on the unchanged tree (baselines/skips.json): a new skip means elements that were handled are no longer handled."
    " ARITY: the matchers of the schema inference read `node.values[i]` / `node.args[i]` only after establishing the exact number of "
    "operands (an ignored extra operand makes the inferred constraint stronger than the invariant)."
    " KEYS (shared with C12) and BOUND / DIR (shared with C15): a length keyword fed from the wrong bound or a bound that is one off / folded in the wrong direction rejects valid instances. ANCHOR-ATOMS (shared with C06): only for patterns anchored as a whole does the searching `pattern` keyword equal the full match."
)
NOTE = (
    "Oracles: base64 length 4*ceil(n/3) (RFC 4648 with padding, which all SDKs emit); the five-row JSON type table. Not decided: "
    "conformance of the emitted document to the draft as a whole and validation of concrete instances (runtime quantities); definitions "
    "and references inside implementation-specific snippets."
)
TECHNIQUE = "static analysis: guard-formula extraction for $ref producers and definition producers with exhaustive fact-assignment comparison; abstract evaluation of the length-conversion expression against an arithmetic oracle; parameter-flow and stage-order (CFG must-pass-through) checks; error-discipline typestate"

JS = f"{PKG}.jsonschema.main"

TYPE_ORACLE = {"BOOL": "boolean", "INT": "integer", "FLOAT": "number", "STR": "string", "BYTEARRAY": "string"}

# Facts about the referenced type that hold at every `$ref` producer of a function, which the guards inside the function do
# not show.  Each is tied to a structural check of who calls the function (see _context).
FROZEN_CONTEXT = {
    "_define_type": ("P", "the type annotation comes from a property of a class (callers: _define_properties over cls.properties, and itself for list items)", {"_define_type", "_define_properties"}),
    "_define_all_of_for_inheritance": ("D", "a parent of an emitted class has a concrete descendant: the callers are the inheritable generator (precondition: concrete descendants) and the concrete generator (cls concrete)", {"_generate_inheritable_definition", "_generate_concrete_definition"}),
}


def b64len(n: int) -> int:
    return 4 * ((n + 2) // 3)


def run(ctx) -> None:
    ctx.rule("REF-DEF", "every $ref is matched by a definition stored under the same facts", floor=6)
    ctx.rule("B64-LEN", "length keywords of byte arrays never cut off the base64 text of an admissible value", floor=2)
    ctx.rule("PATTERN-FIX", "every pattern keyword is fix_pattern(constraint.pattern), only for STR", floor=3)
    ctx.rule("FIX-FLOW", "the fix_pattern parameter is threaded through every call; execute passes fix_pattern_for_utf16", floor=6)
    ctx.rule("FIX-SEQ", "fix_pattern_for_utf16 is parse -> fix_for_utf16_regex_in_place -> render on one tree", floor=1)
    ctx.rule("TYPE-MAP", "JSON type of each primitive type", floor=5)
    ctx.rule("P-COVER", "collect_ids_of_our_types_in_properties descends through Optional and List to our types", floor=3)
    ctx.rule("ERR1", "errors read", floor=5)
    ctx.rule("ERR1v", "values unused while error untested", floor=3)
    ctx.rule("ERR2", "no error-returning call dropped", floor=0)
    ctx.rule("ERR3", "collected errors returned", floor=3)
    ctx.rule("RET-XOR", "(value, error) results are exclusive", floor=3)
    mod = ctx.p.module(JS)
    check_ref_def(ctx, "REF-DEF")
    check_b64(ctx, "B64-LEN", enforce=False)
    check_pattern_fix(ctx)
    check_type_map(ctx)
    check_p_cover(ctx)
    # the UTF-16 rewriting of patterns (anchor parse/retree/_fix.py) is decided by the rules of C17, which are run here as well:
    # a wrong piece in the surrogate decomposition makes the schema reject valid text
    from . import c17 as _c17
    _c17.run(ctx)
    # "never rejects valid data": a length keyword fed from the wrong bound, or a bound computed one off / folded in the wrong
    # direction, rejects instances that satisfy the invariants (shared with C12 / C15)
    ctx.rule("KEYS", "length keywords are fed from the matching bound and guarded only by their own source (shared with C12)", floor=4)
    ctx.rule("BOUND", "each (operand order, comparator) arm of the length matcher yields the oracle's (bound kind, offset) (shared with C15)", floor=12)
    ctx.rule("DIR", "min bounds fold with max, max bounds fold with min; merging two ranges intersects them (shared with C15)", floor=8)
    from . import c12 as _c12, c15 as _c15
    _c12.check_keys(ctx)
    _c15._check_bounds(ctx)
    _c15._check_direction(ctx)
    ctx.rule("ANCHOR-ATOMS", "the front end accepts a pattern only with one top-level alternative, first ^ and last $: only then the searching `pattern` keyword equals the full match (shared with C06)", floor=4)
    from ..rules import anchor as _anchor
    _anchor.check_anchor_agreement(ctx, "ANCHOR-ATOMS")
    for f in mod.functions.values():
        err.check_err12(ctx, f, "ERR1", "ERR1v", "ERR2")
        err.check_err3(ctx, f, "ERR3")
        if err.has_xor_ensure(f):
            err.check_ret_xor(ctx, f, "RET-XOR")


# -- REF-DEF -----------------------------------------------------------------------------
    ctx.rule("SKIPS", "the loops of the functions in scope have no more continue/break/return-in-loop statements than the reference read on the unchanged tree", floor=3)
    from ..rules import skips as _skips
    _base = _skips.load_baseline()
    for _m in ctx.p.modules.values():
        if _m.name == "aas_core_codegen.jsonschema.main":
            for _f in _m.functions.values():
                _skips.check_skips(ctx, _f, "SKIPS", _base)
    ctx.rule("ARITY", "matchers of the inference read a fixed number of operands only after establishing exactly that arity", floor=4)
    from ..rules import arity as _arity
    for _m in ctx.p.modules.values():
        if _m.name.startswith("aas_core_codegen.infer_for_schema"):
            for _f in _m.functions.values():
                _arity.check_arity(ctx, _f, "ARITY")


def _kind_of_class(ctx, module):
    p = ctx.p

    def fn(e: ast.AST) -> Optional[Set[str]]:
        if isinstance(e, ast.Tuple):
            out: Set[str] = set()
            for x in e.elts:
                k = fn(x)
                if k is None:
                    return None
                out |= k
            return out
        r = p.resolve_expr(module, e)
        if r is None:
            return None
        if r[0] == "class":
            ci = r[1]
            if ci.name in S.KINDS:
                return {ci.name}
            subs = {c.name for c in p.subclasses(ci)} & set(S.KINDS)
            return subs or None
        if r[0] == "const":
            m, name = r[1]
            v = m.constants.get(name)
            if isinstance(v, ast.Tuple):
                out = set()
                for x in v.elts:
                    rr = p.resolve_expr(m, x)
                    if rr is None or rr[0] != "class" or rr[1].name not in S.KINDS:
                        return None
                    out.add(rr[1].name)
                return out
            if isinstance(v, ast.Subscript) and dotted_of(v.value) in ("Union", "typing.Union"):
                elts = v.slice.elts if isinstance(v.slice, ast.Tuple) else [v.slice]
                out = set()
                for x in elts:
                    rr = p.resolve_expr(m, x)
                    if rr is None or rr[0] != "class" or rr[1].name not in S.KINDS:
                        return None
                    out.add(rr[1].name)
                return out
        return None

    return fn


class _Alt:
    def __init__(self, subject: Optional[str], prefix: str, suffix: str, guards):
        self.subject = subject
        self.prefix = prefix
        self.suffix = suffix
        self.guards = list(guards)


def _sym(f: FuncInfo, e: ast.AST, parents, depth: int = 0) -> Optional[List[_Alt]]:
    """Symbolic value of a string expression: ``<prefix><model type of subject><suffix>`` or a literal."""
    if depth > 4:
        return None
    if isinstance(e, ast.Constant) and isinstance(e.value, str):
        return [_Alt(None, e.value, "", [])]
    if isinstance(e, ast.Call) and (dotted_of(e.func) or "").endswith("json_model_type") and len(e.args) == 1:
        a = e.args[0]
        if isinstance(a, ast.Attribute) and a.attr == "name" and dotted_of(a.value) is not None:
            return [_Alt(dotted_of(a.value), "", "", [])]
        return None
    if isinstance(e, ast.JoinedStr):
        alts = [_Alt(None, "", "", [])]
        for part in e.values:
            new: List[_Alt] = []
            if isinstance(part, ast.Constant):
                for a in alts:
                    if a.subject is None:
                        new.append(_Alt(None, a.prefix + str(part.value), "", a.guards))
                    else:
                        new.append(_Alt(a.subject, a.prefix, a.suffix + str(part.value), a.guards))
            elif isinstance(part, ast.FormattedValue) and part.format_spec is None and part.conversion == -1:
                inner = _sym(f, part.value, parents, depth + 1)
                if inner is None:
                    return None
                for a in alts:
                    for b in inner:
                        if a.subject is not None and b.subject is not None:
                            return None
                        if a.subject is None:
                            new.append(_Alt(b.subject, a.prefix + b.prefix, b.suffix, a.guards + b.guards))
                        else:
                            new.append(_Alt(a.subject, a.prefix, a.suffix + b.prefix + b.suffix, a.guards + b.guards))
            else:
                return None
            alts = new
        return alts
    if isinstance(e, ast.Name):
        out: List[_Alt] = []
        found = False
        for n in walk_function_body(f.node):
            val = None
            if isinstance(n, ast.Assign) and len(n.targets) == 1 and isinstance(n.targets[0], ast.Name) and n.targets[0].id == e.id:
                val = n.value
            elif isinstance(n, ast.AnnAssign) and isinstance(n.target, ast.Name) and n.target.id == e.id and n.value is not None:
                val = n.value
            if val is None:
                continue
            found = True
            inner = _sym(f, val, parents, depth + 1)
            if inner is None:
                return None
            g = S.guards_of(n, parents)
            for b in inner:
                out.append(_Alt(b.subject, b.prefix, b.suffix, g + b.guards))
        return out if found else None
    return None


def _ref_values(f: FuncInfo) -> List[ast.AST]:
    out = []
    for n in walk_function_body(f.node):
        if isinstance(n, ast.Dict):
            for k, v in zip(n.keys, n.values):
                if isinstance(k, ast.Constant) and k.value == "$ref":
                    out.append(v)
        elif isinstance(n, ast.Tuple) and len(n.elts) == 2 and isinstance(n.elts[0], ast.Constant) and n.elts[0].value == "$ref":
            out.append(n.elts[1])
        elif isinstance(n, ast.Assign) and len(n.targets) == 1 and isinstance(n.targets[0], ast.Subscript) \
                and isinstance(n.targets[0].slice, ast.Constant) and n.targets[0].slice.value == "$ref":
            out.append(n.value)
    return out


def _returned_key_exprs(f: FuncInfo) -> List[ast.AST]:
    """Key expressions of the mapping(s) a definition producer returns."""
    keys: List[ast.AST] = []
    names: Set[str] = set()

    def of_value(v: ast.AST) -> None:
        if isinstance(v, ast.Tuple) and v.elts:
            v = v.elts[0]
        if isinstance(v, ast.Constant) and v.value is None:
            return
        if isinstance(v, ast.Dict):
            keys.extend(k for k in v.keys if k is not None)
        elif isinstance(v, ast.Call) and (dotted_of(v.func) or "").endswith("OrderedDict") and v.args and isinstance(v.args[0], ast.List):
            for t in v.args[0].elts:
                if isinstance(t, ast.Tuple) and t.elts:
                    keys.append(t.elts[0])
        elif isinstance(v, ast.Name):
            names.add(v.id)

    for n in walk_function_body(f.node):
        if isinstance(n, ast.Return) and n.value is not None:
            of_value(n.value)
    # a returned local that is built in one expression (`x = OrderedDict([...]); return x`)
    for n in walk_function_body(f.node):
        if isinstance(n, ast.Assign) and len(n.targets) == 1 and isinstance(n.targets[0], ast.Name) and n.targets[0].id in names \
                and not isinstance(n.value, ast.Name):
            of_value(n.value)
    for n in walk_function_body(f.node):
        if isinstance(n, ast.Assign) and len(n.targets) == 1 and isinstance(n.targets[0], ast.Subscript) \
                and isinstance(n.targets[0].value, ast.Name) and n.targets[0].value.id in names:
            keys.append(n.targets[0].slice)
    return keys


def _stores_key(block: List[ast.stmt], keytext: str) -> bool:
    for s in block:
        if isinstance(s, ast.Assign) and len(s.targets) == 1 and isinstance(s.targets[0], ast.Subscript) and ast.unparse(s.targets[0]) == keytext:
            return True
        if isinstance(s, ast.If) and _chain_exhaustive(s, keytext):
            return True
    return False


def _chain_exhaustive(node: ast.If, keytext: str) -> bool:
    """Every branch of the if/elif/else chain stores the same key: the chain's own conditions do not decide whether it is stored."""
    if not _stores_key(node.body, keytext) or not node.orelse:
        return False
    return _stores_key(node.orelse, keytext)


def _store_guards(st: ast.stmt, parents) -> List[Tuple[ast.expr, bool]]:
    """Guards of a ``result[K] = ...`` store, without the conditions of chains that store ``K`` on every branch."""
    if not (isinstance(st, ast.Assign) and len(st.targets) == 1 and isinstance(st.targets[0], ast.Subscript)):
        return S.guards_of(st, parents)
    keytext = ast.unparse(st.targets[0])
    out: List[Tuple[ast.expr, bool]] = []
    cur: ast.AST = st
    while True:
        par = parents.get(id(cur))
        if par is None:
            break
        if isinstance(par, ast.If):
            # the head of the chain this ``if`` belongs to
            head = par
            while True:
                pp = parents.get(id(head))
                if isinstance(pp, ast.If) and len(pp.orelse) == 1 and pp.orelse[0] is head:
                    head = pp
                else:
                    break
            if _chain_exhaustive(head, keytext):
                cur = head
                continue
            if any(cur is b for b in par.body):
                out.append((par.test, True))
            elif any(cur is b for b in par.orelse):
                out.append((par.test, False))
        cur = par
    out.reverse()
    return out


def _context(ctx, f: FuncInfo, subject: str, mod, koc) -> Tuple[S.Formula, str]:
    """Facts about ``subject`` that hold on entry of ``f``: from the guards of its call sites when the subject is a parameter,
    from its ``@require`` lambdas, and from the frozen table."""
    cg = callgraph(ctx)
    parts: List[S.Formula] = []
    why: List[str] = []
    if f.name in FROZEN_CONTEXT:
        atom, reason, allowed = FROZEN_CONTEXT[f.name]
        callers = {cg.funcs[k].name for k in cg.callers_of(f.key) if k in cg.funcs}
        ctx.require_anchor(bool(callers), f"{f.name} has callers")
        if callers <= allowed:
            parts.append(S.Formula("atom", atom, None))
            why.append(f"{atom}: {reason}")
        else:
            why.append(f"{atom} NOT assumed: unexpected callers {sorted(callers - allowed)}")
    if subject in f.param_names():
        # @require(lambda <subject>: ...)
        for d in f.node.decorator_list:
            if isinstance(d, ast.Call) and dotted_of(d.func) == "require" and d.args and isinstance(d.args[0], ast.Lambda):
                lam = d.args[0]
                if [a.arg for a in lam.args.args] == [subject]:
                    fm = S.SubjectFacts(subject, koc).formula(lam.body)
                    parts.append(fm)
                    why.append(f"precondition {fm.show()}")
        sites: List[S.Formula] = []
        for k in cg.callers_of(f.key):
            caller = cg.funcs.get(k)
            if caller is None:
                continue
            cparents = S.parents_of(caller)
            for call in cg.sites.get((k, f.key), []):
                arg = kwarg(call, subject, f.param_names().index(subject))
                if arg is None or dotted_of(arg) is None:
                    sites.append(S.TRUE)
                    continue
                sf = S.SubjectFacts(dotted_of(arg), koc)
                sites.append(sf.of_guards(S.guards_of(call, cparents)))
        if sites:
            parts.append(S.f_or(sites))
            why.append("guards of the call sites")
    return S.f_and(parts), "; ".join(why)


def check_ref_def(ctx, rule: str) -> None:
    p = ctx.p
    mod = p.module(JS)
    koc = _kind_of_class(ctx, mod)
    gen = p.func("jsonschema.main:generate")
    gparents = S.parents_of(gen)

    # ---- definitions ------------------------------------------------------------------
    defs: List[Tuple[Optional[str], str, str, S.Formula, str]] = []  # (subject?, prefix(literal), suffix, formula, where)
    update_calls = [c for c in ast.walk(gen.node) if isinstance(c, ast.Call) and isinstance(c.func, ast.Attribute)
                    and c.func.attr in ("update_for", "update") and dotted_of(c.func.value) == "definitions"]
    ctx.require_anchor(len(update_calls) >= 4, "generate() stores definitions through definitions.update_for/update")
    n_producers = 0
    for uc in update_calls:
        ext = kwarg(uc, "extension", 1 if uc.func.attr == "update_for" else 0)
        if ext is None:
            continue
        site_guards = S.guards_of(uc, gparents)
        prod_calls: List[ast.Call] = []
        if isinstance(ext, ast.Call):
            prod_calls.append(ext)
        elif isinstance(ext, ast.Name):
            for n in walk_function_body(gen.node):
                if isinstance(n, ast.Assign) and isinstance(n.value, ast.Call):
                    tg = n.targets[0]
                    names = [tg.id] if isinstance(tg, ast.Name) else [e.id for e in tg.elts if isinstance(e, ast.Name)] if isinstance(tg, ast.Tuple) else []
                    if names and names[0] == ext.id and S.guards_of(n, gparents) == site_guards[:len(S.guards_of(n, gparents))]:
                        prod_calls.append(n.value)
        elif isinstance(ext, ast.Dict):
            for k in ext.keys:
                if isinstance(k, ast.Constant) and isinstance(k.value, str):
                    defs.append((None, k.value, "", S.TRUE, f"generate:{uc.lineno}"))
            continue
        for pc in prod_calls:
            r = p.resolve_expr(mod, pc.func)
            if r is None or r[0] != "func":
                continue  # json.loads(...) of a snippet: implementation specific
            prod: FuncInfo = r[1]
            if prod.module is not mod:
                continue
            n_producers += 1
            pparents = S.parents_of(prod)
            for kx in _returned_key_exprs(prod):
                alts = _sym(prod, kx, pparents)
                ctx.require_anchor(alts is not None, f"definition key `{short(kx)}` of {prod.name} is a model-type string")
                st = S.stmt_of(kx, pparents)
                for a in alts or []:
                    if a.subject is None:
                        defs.append((None, a.prefix, "", S.TRUE, f"{prod.name}:{kx.lineno}"))
                        continue
                    ctx.require_anchor(a.subject in prod.param_names(), f"definition key subject `{a.subject}` is a parameter of {prod.name}")
                    inner = S.SubjectFacts(a.subject, koc).of_guards(_store_guards(st, pparents) + a.guards)
                    arg = kwarg(pc, a.subject, prod.param_names().index(a.subject))
                    ctx.require_anchor(arg is not None and dotted_of(arg) is not None, f"argument for `{a.subject}` at the call of {prod.name}")
                    outer = S.SubjectFacts(dotted_of(arg), koc).of_guards(site_guards)
                    defs.append(("T", a.prefix, a.suffix, S.f_and([outer, inner]), f"{prod.name}:{kx.lineno}"))
    ctx.require_anchor(n_producers >= 4, "four definition producers called from generate()")
    ctx.extra["definition_producers"] = [f"{d[1]}<T>{d[2]} if {d[3].show()}  [{d[4]}]" if d[0] else f"literal {d[1]}  [{d[4]}]" for d in defs]

    # ---- references -------------------------------------------------------------------
    n_refs = 0
    for f in mod.functions.values():
        parents = S.parents_of(f)
        for v in _ref_values(f):
            alts = _sym(f, v, parents)
            if alts is None:
                ctx.fail(rule, f, v, f"the $ref `{short(v)}` is not built from a model-type string; cannot be matched against the definitions", construct=f"$ref {short(v)}")
                continue
            st = S.stmt_of(v, parents)
            for a in alts:
                n_refs += 1
                if not a.prefix.startswith("#/definitions/"):
                    ctx.fail(rule, f, v, f"the $ref `{short(v)}` does not point into #/definitions/", construct=f"$ref {short(v)}")
                    continue
                name_prefix = a.prefix[len("#/definitions/"):]
                if a.subject is None:
                    if any(d[0] is None and d[1] == name_prefix for d in defs):
                        ctx.ok(rule, f, v, what=f"$ref {a.prefix} has a literal definition")
                    else:
                        ctx.fail(rule, f, v, f"the $ref `{a.prefix}` names no definition that generate() stores", construct=f"$ref {a.prefix}")
                    continue
                sf = S.SubjectFacts(a.subject, koc)
                local = sf.of_guards(S.guards_of(st, parents) + S.early_exit_guards(st, f, parents) + a.guards)
                # static type of the subject
                ft = artefacts(ctx.ty, f).types
                typed: List[S.Formula] = []
                try:
                    subj_expr = ast.parse(a.subject, mode="eval").body
                    t = strip_opt(ft.type_of(subj_expr, ft.env_for(st) or ft.final_env()))
                    if isinstance(t, Cls) and t.ci.name in S.KINDS:
                        typed.append(S.Formula("atom", "kind", frozenset({t.ci.name})))
                except Exception:  # noqa
                    pass
                context, why = _context(ctx, f, a.subject, mod, koc)
                cond = S.f_and([local, context] + typed)
                missing = []
                n_env = 0
                for env in S.assignments():
                    if cond.eval(env) is False:
                        continue
                    n_env += 1
                    if not any(d[0] is not None and d[1] == name_prefix and d[2] == a.suffix and d[3].eval(env) is True for d in defs):
                        missing.append(env)
                label = f"$ref <{a.subject}>{a.suffix or ''}"
                if not missing:
                    ctx.ok(rule, f, v, what=f"{label} under {cond.show()}: defined in all {n_env} fact assignments ({why})")
                else:
                    for env in missing:
                        ctx.fail(
                            rule, f, v,
                            f"`{short(v)}` is emitted for a type that is {S.show_env(env)}, but generate() stores no definition "
                            f"`<model type>{a.suffix}` under these facts: the reference dangles",
                            construct=f"{label} for {env['kind']} D={env['D']} P={env['P']}",
                        )
    ctx.require_anchor(n_refs >= 6, "at least six $ref producers in jsonschema/main.py")


# -- B64-LEN -----------------------------------------------------------------------------


def check_b64(ctx, rule: str, enforce: bool) -> None:
    """``enforce=False`` (C11): the keyword never rejects the base64 text of an admissible byte length.
    ``enforce=True`` (C12): the keyword rejects every text length that only inadmissible byte lengths produce."""
    f = ctx.p.func("jsonschema.main:_translate_constraints")
    parents = S.parents_of(f)
    seen = 0
    for key, st in S.key_stores(f):
        if key not in ("minLength", "maxLength"):
            continue
        guards = S.guards_of(st, parents)
        members = S.prim_members("primitive_type", guards)
        if "BYTEARRAY" not in members:
            if not enforce:
                ctx.ok(rule, f, st, what=f"{key} store at a point where the primitive type is in {sorted(members)}: text length", nontrivial=False)
            continue
        seen += 1
        attr = "max_value" if key == "maxLength" else "min_value"

        def is_var(e: ast.AST) -> bool:
            return isinstance(e, ast.Attribute) and e.attr in ("min_value", "max_value")

        used = {n.attr for n in ast.walk(st.value) if is_var(n)}
        what = f"{key} of a byte array = `{short(st.value, 60)}`"
        if used != {attr}:
            continue  # KEYS (C12) reports a wrong source
        bad: Optional[Tuple[int, int, str]] = None
        try:
            for n in range(0, 601):
                v = S.eval_int(st.value, is_var, n)
                if key == "maxLength":
                    if not enforce and v < b64len(n):
                        bad = (n, v, f"a byte array of {n} bytes is admissible, its base64 text has {b64len(n)} characters, but maxLength is {v}: valid data is rejected")
                    if enforce and v >= b64len(n) + 4:
                        bad = (n, v, f"maxLength {v} admits the base64 text of {n + 3} bytes ({b64len(n) + 4} characters) although at most {n} bytes are allowed")
                else:
                    if not enforce and v > b64len(n):
                        bad = (n, v, f"a byte array of {n} bytes is admissible, its base64 text has {b64len(n)} characters, but minLength is {v}: valid data is rejected")
                    if enforce and n > 0 and v <= b64len(n) - 4:
                        bad = (n, v, f"minLength {v} admits a base64 text of {b64len(n) - 4} characters (at most {n - (n - 1) % 3 - 1} bytes) although at least {n} bytes are required")
                if bad:
                    break
        except S.CannotEvaluate as e:
            ctx.fail(rule, f, st, f"the length conversion `{short(st.value)}` is not integer arithmetic over the byte length ({e}); cannot be compared with the base64 oracle", construct=f"{key} of a byte array: unevaluable")
            continue
        if bad is None:
            ctx.ok(rule, f, st, what=what + (" rejects what base64 length can tell apart" if enforce else " never below/above the base64 text length") + " for n in 0..600")
        else:
            ctx.fail(rule, f, st, f"`{key}` <- `{short(st.value, 80)}` where the primitive type can be BYTEARRAY: {bad[2]}", construct=f"{key} of a byte array")
    ctx.require_anchor(seen >= 1 or _no_bytes_len(f), "a length keyword store reachable for BYTEARRAY (or none at all for byte arrays)")


def _no_bytes_len(f: FuncInfo) -> bool:
    return True


# -- PATTERN-FIX -------------------------------------------------------------------------


def check_pattern_fix(ctx) -> None:
    p = ctx.p
    mod = p.module(JS)
    n_pat = 0
    for f in mod.functions.values():
        parents = S.parents_of(f)
        ft = artefacts(ctx.ty, f).types
        for key, st in S.key_stores(f):
            if key != "pattern":
                continue
            n_pat += 1
            v = st.value
            members = S.prim_members("primitive_type", S.guards_of(st, parents))
            okform = (
                isinstance(v, ast.Call) and isinstance(v.func, ast.Name) and v.func.id in f.param_names()
                and len(v.args) == 1 and not v.keywords and isinstance(v.args[0], ast.Attribute) and v.args[0].attr == "pattern"
            )
            if not okform:
                ctx.fail("PATTERN-FIX", f, st, f"the `pattern` keyword is `{short(v)}`, not the fix_pattern parameter applied to a constraint's pattern: engines following the UTF-16 convention get an unfixed pattern", construct="pattern store")
                continue
            t = strip_opt(ft.type_of(v.args[0].value, ft.env_for(st) or ft.final_env()))
            if not (isinstance(t, Cls) and t.ci.name == "PatternConstraint"):
                ctx.fail("PATTERN-FIX", f, st, f"`{short(v.args[0].value)}` is not a PatternConstraint (typed {t.show()})", construct="pattern store")
            elif not members <= {"STR"}:
                ctx.fail("PATTERN-FIX", f, st, f"a `pattern` keyword is stored where the primitive type can be {sorted(members - {'STR'})}: the pattern would be matched against a non-text JSON value or base64 text", construct="pattern store guard")
            else:
                ctx.ok("PATTERN-FIX", f, st, what=f"pattern <- {short(v)} under STR")
    ctx.require_anchor(n_pat >= 3, "three pattern stores in _translate_constraints")
    # threading of the parameter
    for f in mod.functions.values():
        for call in [n for n in walk_function_body(f.node) if isinstance(n, ast.Call)]:
            r = p.resolve_expr(mod, call.func)
            if r is None or r[0] != "func" or "fix_pattern" not in r[1].param_names():
                continue
            arg = kwarg(call, "fix_pattern", r[1].param_names().index("fix_pattern"))
            what = f"{f.name} -> {r[1].name}(fix_pattern=...)"
            if "fix_pattern" in f.param_names():
                if isinstance(arg, ast.Name) and arg.id == "fix_pattern":
                    ctx.ok("FIX-FLOW", f, call, what=what)
                else:
                    ctx.fail("FIX-FLOW", f, call, f"{r[1].name} is called with fix_pattern=`{short(arg) if arg is not None else 'missing'}` instead of the caller's own fix_pattern parameter", construct=what)
            else:
                rr = p.resolve_expr(mod, arg) if arg is not None else None
                if rr is not None and rr[0] == "func" and rr[1].name == "fix_pattern_for_utf16":
                    ctx.ok("FIX-FLOW", f, call, what=what + " = fix_pattern_for_utf16")
                else:
                    ctx.fail("FIX-FLOW", f, call, f"{f.name} passes `{short(arg) if arg is not None else 'nothing'}` as fix_pattern; the schema follows the UTF-16 convention (fix_pattern_for_utf16)", construct=what)
    # the stages
    fx = p.func("jsonschema.main:fix_pattern_for_utf16")
    seq.check_sequence(ctx, fx, "FIX-SEQ", ["parse", "fix_for_utf16_regex_in_place", "render"], lambda n: n.kind == "return")
    calls = {(dotted_of(c.func) or "").split(".")[-1]: c for c in ast.walk(fx.node) if isinstance(c, ast.Call)}
    tree_names = set()
    for name in ("fix_for_utf16_regex_in_place", "render"):
        c = calls.get(name)
        if c is not None:
            a = kwarg(c, "regex", 0)
            tree_names.add(dotted_of(a) if a is not None else None)
    # the tree is the first element of parse's result
    parse_assign = [n for n in walk_function_body(fx.node) if isinstance(n, ast.Assign) and isinstance(n.value, ast.Call) and (dotted_of(n.value.func) or "").endswith("parse")]
    ctx.require_anchor(len(parse_assign) == 1 and isinstance(parse_assign[0].targets[0], ast.Tuple), "regex, error = parse_retree.parse(...)")
    tree = dotted_of(parse_assign[0].targets[0].elts[0])
    if tree_names == {tree}:
        ctx.ok("FIX-SEQ", fx, parse_assign[0], what=f"fix and render both take the parsed tree `{tree}`")
    else:
        ctx.fail("FIX-SEQ", fx, parse_assign[0], f"fix_for_utf16_regex_in_place / render take {sorted(str(x) for x in tree_names)}, not the parsed tree `{tree}`", construct="same tree")
    pa = parse_assign[0].value.args[0] if parse_assign[0].value.args else None
    if isinstance(pa, ast.List) and len(pa.elts) == 1 and dotted_of(pa.elts[0]) == "pattern":
        ctx.ok("FIX-SEQ", fx, parse_assign[0], what="the parser gets the unmodified pattern")
    else:
        ctx.fail("FIX-SEQ", fx, parse_assign[0], f"the parser is given `{short(pa) if pa is not None else '?'}` instead of the unmodified pattern", construct="parse input")


# -- TYPE-MAP ----------------------------------------------------------------------------


def check_type_map(ctx) -> None:
    mod = ctx.p.module(JS)
    table = mod.constants.get("_PRIMITIVE_MAP")
    ctx.require_anchor(isinstance(table, ast.Dict), "_PRIMITIVE_MAP is a dict literal")
    got: Dict[str, Any] = {}
    for k, v in zip(table.keys, table.values):
        name = (dotted_of(k) or "").split(".")[-1]
        got[name] = v.value if isinstance(v, ast.Constant) else None
    for prim, want in TYPE_ORACLE.items():
        if got.get(prim) == want:
            ctx.ok("TYPE-MAP", mod, table, what=f"{prim} -> {want}")
        else:
            ctx.fail("TYPE-MAP", mod, table, f"PrimitiveType.{prim} is declared as JSON type {got.get(prim)!r}; the SDKs write a JSON {want}: valid documents would be rejected", construct=f"{prim} -> {got.get(prim)!r}")
    f = ctx.p.func("jsonschema.main:_define_type")
    uses = [n for n in walk_function_body(f.node) if isinstance(n, ast.Assign) and isinstance(n.targets[0], ast.Subscript)
            and isinstance(n.targets[0].slice, ast.Constant) and n.targets[0].slice.value == "type"
            and isinstance(n.value, ast.Subscript) and dotted_of(n.value.value) == "_PRIMITIVE_MAP"]
    ctx.require_anchor(len(uses) == 1, '_define_type stores definition["type"] = _PRIMITIVE_MAP[primitive_type]')


# -- P-COVER -----------------------------------------------------------------------------


def check_p_cover(ctx) -> None:
    f = ctx.p.func("intermediate._types:collect_ids_of_our_types_in_properties")
    arms: Dict[str, str] = {}
    for n in walk_function_body(f.node):
        if isinstance(n, ast.If) and isinstance(n.test, ast.Call) and dotted_of(n.test.func) == "isinstance" and len(n.test.args) == 2:
            cls = (dotted_of(n.test.args[1]) or "").split(".")[-1]
            subj = dotted_of(n.test.args[0])
            for s in n.body:
                if isinstance(s, ast.Assign) and dotted_of(s.targets[0]) == subj and isinstance(s.value, ast.Attribute) and dotted_of(s.value.value) == subj:
                    arms[cls] = "descend ." + s.value.attr
                elif isinstance(s, ast.Expr) and isinstance(s.value, ast.Call) and isinstance(s.value.func, ast.Attribute) and s.value.func.attr == "add":
                    a = s.value.args[0] if s.value.args else None
                    if isinstance(a, ast.Call) and dotted_of(a.func) == "id" and a.args and dotted_of(a.args[0]) == f"{subj}.our_type":
                        arms[cls] = "add id(our_type)"
    want = {"OptionalTypeAnnotation": "descend .value", "ListTypeAnnotation": "descend .items", "OurTypeAnnotation": "add id(our_type)"}
    for cls, w in want.items():
        if arms.get(cls) == w:
            ctx.ok("P-COVER", f, None, what=f"{cls}: {w}")
        else:
            ctx.fail("P-COVER", f, f.node, f"for {cls} the collector does `{arms.get(cls)}`, expected `{w}`: an abstract class used only inside such an annotation gets no `_choice` definition although _define_type refers to it", construct=f"{cls} arm")
    loops = [dotted_of(n.iter) for n in walk_function_body(f.node) if isinstance(n, ast.For)]
    if "symbol_table.classes" in loops and "cls.properties" in loops:
        ctx.ok("P-COVER", f, None, what="iterates all properties of all classes")
    else:
        ctx.fail("P-COVER", f, f.node, f"the collector iterates {loops}, not every property of every class", construct="loops")
