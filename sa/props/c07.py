"""C07 Type-checked invariants cannot fail at run time (DESIGN §4 C07)."""
import ast
from typing import List, Optional, Tuple

from ..flow import artefacts, set_dataflow, find_calls
from ..model import dotted_of, short, walk_function_body
from ..rules import err, exh
from ..scopes import SDK_TARGETS

CLAIM = (
    "(1) non-None requirement table: for every operand that Python dereferences (member instance, index collection/index, comparison "
    "operands, membership operands, implication antecedent, method-call receiver, not/and/or operands, add/sub operands, formatted value, "
    "loop iteration and range bounds) the inferrer obtains the operand type with self.transform and tests it with "
    "isinstance(t, OptionalTypeAnnotation) on a branch that appends an error and from which no path reaches a non-None return; "
    "(2) narrowing polarity: `and` and the implication narrow on IsNotNone, `or` narrows on IsNone; (3) every increment of the "
    "non-null counter sits in a `with ExitStack()` and is immediately followed by a registered decrement of the same key; "
    "(4) Optional is stripped only when the counter says so; (5) _Inferrer and _Canonicalizer implement every node kind; "
    "(6) the inference result is read before transpiling in all six targets."
    " SHADOW: a loop variable of a generator is rejected when any enclosing scope defines the name (lookup through Environment.find and its parents); "
    "SKIPS: the inferrer and the checkers of the contracts have no fewer unconditional descents into sub-expressions and no more skips than the reference."
    " CANON-INJ: the canonical text under which non-nullness is tracked renders a constant as its Python literal (repr / !r / %r / json.dumps), so that it cannot read like a name or like a constant of another type."
)
NOTE = (
    "Trusted base: the requirement table (Python semantics: which operands are dereferenced), one line of reason per row in this file. "
    "Not decided: soundness of the typing rules themselves with respect to Python."
)
TECHNIQUE = "static analysis: requirement table checked on the CFG of each handler (error branch cannot reach a non-None return), paired-update and polarity rules on the AST"

TI = "intermediate.type_inference"

# (method, operand, reason)
TABLE = [
    ("transform_member", "node.instance", "x.attr raises on None"),
    ("transform_index", "node.collection", "x[i] raises on None"),
    ("transform_index", "node.index", "x[None] raises TypeError"),
    ("transform_comparison", "node.left", "None < 1 raises TypeError"),
    ("transform_comparison", "node.right", "1 < None raises TypeError"),
    ("transform_is_in", "node.member", "membership of None is ill-typed for the generated languages"),
    ("transform_is_in", "node.container", "x in None raises TypeError"),
    ("transform_implication", "node.antecedent", "a condition must be a boolean, not None"),
    ("transform_method_call", "node.member", "calling a method on None raises"),
    ("transform_not", "node.operand", "a condition must be a boolean, not None"),
    ("transform_and", "<values>", "a condition must be a boolean, not None"),
    ("transform_or", "<values>", "a condition must be a boolean, not None"),
    ("_transform_add_or_sub", "node.left", "None + 1 raises TypeError"),
    ("_transform_add_or_sub", "node.right", "1 + None raises TypeError"),
    ("transform_formatted_value", "node.value", "formatting None into a pattern gives 'None'"),
    ("transform_for_each", "node.iteration", "iterating over None raises TypeError"),
    ("transform_for_range", "node.start", "range(None, n) raises TypeError"),
    ("transform_for_range", "node.end", "range(0, None) raises TypeError"),
    ("transform_function_call", "<args>", "len(None) raises TypeError; the built-in and the verification functions dereference their arguments"),
]


def _check_canonical_constants(ctx) -> None:
    """Non-nullness is tracked per canonical *text* of an expression.  Two different expressions with one text share their
    narrowing; for names, members and calls the text is their syntax, and a constant must be rendered so that it cannot collide
    with them or with a constant of another type: its Python literal (repr / !r / %r / json.dumps), not its str()."""
    can = ctx.p.cls(f"{TI}:_Canonicalizer")
    m = can.methods.get("transform_constant")
    ctx.require_anchor(m is not None, "_Canonicalizer.transform_constant exists")
    param = m.node.args.args[1].arg

    def value_of(e: ast.AST) -> bool:
        return isinstance(e, ast.Attribute) and isinstance(e.value, ast.Name) and e.value.id == param and e.attr == "value"

    def injective(e: ast.AST) -> bool:
        if isinstance(e, ast.Call) and dotted_of(e.func) in ("repr", "json.dumps") and len(e.args) == 1 and value_of(e.args[0]):
            return True
        if isinstance(e, ast.JoinedStr):
            fvs = [v for v in e.values if isinstance(v, ast.FormattedValue)]
            return len(fvs) == 1 and value_of(fvs[0].value) and fvs[0].conversion == ord("r")
        if isinstance(e, ast.BinOp) and isinstance(e.op, ast.Mod) and isinstance(e.left, ast.Constant) and e.left.value == "%r":
            return value_of(e.right)
        return False

    # the expression that reaches representation_map[node] / the return value
    defs = {}
    for st in walk_function_body(m.node):
        if isinstance(st, ast.Assign) and len(st.targets) == 1 and isinstance(st.targets[0], ast.Name):
            defs[st.targets[0].id] = st.value
    rets = [st for st in walk_function_body(m.node) if isinstance(st, ast.Return) and st.value is not None]
    ctx.require_anchor(len(rets) >= 1, "transform_constant returns the canonical text")
    for r in rets:
        e = r.value
        if isinstance(e, ast.Name) and e.id in defs:
            e = defs[e.id]
        what = "transform_constant: a constant is rendered as its literal"
        if injective(e):
            ctx.ok("CANON-INJ", m, r, what=what)
        else:
            ctx.fail("CANON-INJ", m, r, f"the canonical text of a constant is `{short(e)}`, not the literal of its value: the string constant \"self.x\" and the expression self.x (or the constants 1 and \"1\") get the same text and share their non-null narrowing, so an Optional operand passes the type check un-narrowed", construct=what)


def run(ctx) -> None:
    p = ctx.p
    ctx.rule("NONNULL", "operands that Python dereferences are rejected when Optional (error appended, no non-None return reachable)", floor=18)
    ctx.rule("SHADOW", "a generator variable is rejected when ANY enclosing scope already defines the name (non-nullness is tracked by the text of an expression)", floor=2)
    ctx.rule("POLARITY", "and/implication narrow on IsNotNone, or narrows on IsNone", floor=3)
    ctx.rule("PAIR", "every non-null increment is paired with a registered decrement of the same key inside an ExitStack", floor=4)
    ctx.rule("STRIP", "Optional stripped only under the non-null counter", floor=1)
    ctx.rule("EXH3", "inferrer and canonicalizer implement every node kind", floor=2)
    ctx.rule("ERR1", "inference errors read before transpiling (six targets)", floor=10)
    ctx.rule("ERR1v", "inference result unused while error untested", floor=10)
    ctx.rule("ERR2", "no inference result dropped", floor=0)
    ctx.rule("CANON-INJ", "the canonical text (the key of the non-null bookkeeping) renders a constant so that it cannot read like a name or another constant", floor=1)
    _check_canonical_constants(ctx)
    inf = p.cls(f"{TI}:_Inferrer")
    for method, operand, reason in TABLE:
        m = inf.methods.get(method)
        ctx.require_anchor(m is not None, f"_Inferrer.{method} exists")
        _check_nonnull(ctx, m, operand, reason)
    _check_shadowing(ctx, inf)
    _check_polarity(ctx, inf)
    _check_pairs(ctx, inf)
    _check_strip(ctx, inf)
    base = p.cls("parse.tree:Transformer")
    required = sorted(n for n in base.methods if n.startswith("transform_"))
    ctx.require_anchor(len(required) >= 20, "parse.tree.Transformer declares the node kinds")
    for cname in ("_Inferrer", "_Canonicalizer"):
        ci = p.cls(f"{TI}:{cname}")
        missing = []
        for name in required:
            impl = p.find_method(ci, name)
            if impl is None or impl.cls is None or impl.cls.name in ("Transformer", "RestrictedTransformer"):
                missing.append(name)
        where = (ci.module.relpath, ci.qualname)
        if missing:
            ctx.fail("EXH3", where, ci.node, f"{cname} does not implement {', '.join(missing)}: an invariant using that construct raises AssertionError/NotImplementedError during type inference", construct=f"class {cname} handlers")
        else:
            ctx.ok("EXH3", where, ci.node, what=f"{cname} implements all {len(required)} node kinds")
    # consumers
    n = 0
    for f in p.all_functions():
        calls = find_calls(f.node, lambda c: (dotted_of(c.func) or "").split(".")[-1] in ("infer_for_invariant", "infer_for_verification"))
        if calls and not f.module.name.endswith("type_inference"):
            n += 1
            err.check_err12(ctx, f, "ERR1", "ERR1v", "ERR2")
    ctx.require_anchor(n >= 6, "the targets call the type inference")
    ctx.rule("SKIPS", "the type inference and the contract checker have no fewer unconditional descents and no more skips than the reference read on the unchanged tree", floor=20)
    from ..rules import skips as _skips
    _base = _skips.load_baseline()
    for _m in ctx.p.modules.values():
        if _m.name in ("aas_core_codegen.intermediate.type_inference", "aas_core_codegen.intermediate._translate"):
            for _f in _m.functions.values():
                _skips.check_skips(ctx, _f, "SKIPS", _base)



def _operand_var(m, operand: str) -> Optional[Tuple[str, ast.AST]]:
    """Variable bound to self.transform(<operand>)."""
    for n in walk_function_body(m.node):
        if isinstance(n, ast.Assign) and isinstance(n.value, ast.Call) and dotted_of(n.value.func) == "self.transform" and isinstance(n.targets[0], ast.Name) and n.value.args:
            arg = n.value.args[0]
            if operand in ("<values>", "<args>"):
                # loop variable over node.values / node.args
                want = "node.values" if operand == "<values>" else "node.args"
                for loop in walk_function_body(m.node):
                    if not isinstance(loop, ast.For):
                        continue
                    it, tg = loop.iter, loop.target
                    if isinstance(it, ast.Call) and dotted_of(it.func) == "enumerate" and it.args and isinstance(tg, ast.Tuple) and len(tg.elts) == 2:
                        it, tg = it.args[0], tg.elts[1]
                    if dotted_of(it) == want and isinstance(tg, ast.Name) and isinstance(arg, ast.Name) and arg.id == tg.id:
                        return n.targets[0].id, n
            elif dotted_of(arg) == operand:
                return n.targets[0].id, n
    return None


def _check_nonnull(ctx, m, operand: str, reason: str) -> None:
    what = f"_Inferrer.{m.name}: {operand} must not be Optional ({reason})"
    ov = _operand_var(m, operand)
    if ov is None:
        ctx.fail("NONNULL", m, m.node, f"the type of `{operand}` is no longer obtained with self.transform in {m.name}: {reason}", construct=what)
        return
    var, assign = ov
    tests = [n for n in walk_function_body(m.node) if isinstance(n, ast.If) and isinstance(n.test, ast.Call) and dotted_of(n.test.func) == "isinstance"
             and len(n.test.args) == 2 and isinstance(n.test.args[0], ast.Name) and n.test.args[0].id == var and dotted_of(n.test.args[1]) == "OptionalTypeAnnotation"]
    good = None
    for t in tests:
        appends = any(isinstance(c, ast.Call) and dotted_of(c.func) == "self.errors.append" for c in ast.walk(ast.Module(body=t.body, type_ignores=[])))
        if appends:
            good = t
    if good is None:
        ctx.fail("NONNULL", m, assign, f"`{operand}` is not rejected when its type is Optional: {reason}", construct=what)
        return
    # from the error branch no path may reach a return of a non-None value
    art = artefacts(ctx.ty, m)
    cfg = art.cfg
    first_in_branch = good.body[0]
    # the statements of the error branch that record the error (the branch may also hold a nested test that exempts
    # some cases, e.g. arguments declared Optional)
    append_stmts = [x for x in ast.walk(ast.Module(body=good.body, type_ignores=[])) if isinstance(x, ast.Expr) and isinstance(x.value, ast.Call) and dotted_of(x.value.func) == "self.errors.append"]

    def transfer(node, st):
        tainted, flags = st
        flags = dict(flags)
        s = node.stmt
        if node.kind == "stmt" and s is not None and any(x is s for x in append_stmts):
            tainted = True
        if node.kind == "stmt" and isinstance(s, ast.Assign) and isinstance(s.targets[0], ast.Name):
            name = s.targets[0].id
            v = s.value
            if isinstance(v, ast.Constant) and isinstance(v.value, bool):
                flags[name] = v.value
            elif isinstance(v, ast.BoolOp) and isinstance(v.op, ast.And) and any(isinstance(x, ast.Name) and x.id == name for x in v.values):
                # ``success = (...) and success`` keeps False
                if flags.get(name) is not False:
                    flags.pop(name, None)
            elif isinstance(v, ast.BoolOp) and isinstance(v.op, ast.Or) and any(isinstance(x, ast.Name) and x.id == name for x in v.values):
                if flags.get(name) is not True:
                    flags.pop(name, None)
            else:
                flags.pop(name, None)
        return [(tainted, frozenset(flags.items()))]

    def edge(node, st, label):
        tainted, flags = st
        if node.kind == "test" and node.expr is not None and label in (True, False):
            e = node.expr
            if isinstance(e, ast.Name):
                known = dict(flags).get(e.id)
                if known is not None and known != label:
                    return None
        return st

    IN = set_dataflow(cfg, frozenset([(False, frozenset())]), transfer, edge)
    bad = None
    for node in cfg.nodes:
        if node.kind != "return" or node.id not in IN:
            continue
        v = node.expr
        is_none = v is None or (isinstance(v, ast.Constant) and v.value is None)
        if not is_none and any(t for (t, _s) in IN[node.id]):
            bad = node
    if bad is not None:
        ctx.fail("NONNULL", m, good, f"after reporting that `{operand}` is Optional the handler can still reach `{short(bad.stmt)}`: the invariant is accepted although {reason}", construct=what)
    else:
        ctx.ok("NONNULL", m, good, what=what)


def _guard_kind_of_increment(m, inc: ast.Call) -> Optional[str]:
    """The isinstance(..., parse_tree.K) test that guards the increment."""
    best = None
    for n in walk_function_body(m.node):
        if isinstance(n, ast.If) and any(x is inc for x in ast.walk(ast.Module(body=n.body, type_ignores=[]))):
            t = n.test
            if isinstance(t, ast.Call) and dotted_of(t.func) == "isinstance" and len(t.args) == 2:
                k = dotted_of(t.args[1]) or ""
                if k.startswith("parse_tree."):
                    if best is None or n.lineno >= best[0]:
                        best = (n.lineno, k.split(".")[-1])
    return best[1] if best else None


def _check_polarity(ctx, inf) -> None:
    want = {"transform_and": {"IsNotNone"}, "transform_or": {"IsNone"}, "transform_implication": {"IsNotNone"}}
    for name, kinds in want.items():
        m = inf.methods[name]
        incs = [c for c in ast.walk(m.node) if isinstance(c, ast.Call) and dotted_of(c.func) == "self._non_null.increment"]
        ctx.require_anchor(len(incs) >= 1, f"{name} registers non-nullness")
        got = {_guard_kind_of_increment(m, c) for c in incs}
        what = f"_Inferrer.{name} narrows on {sorted(kinds)}"
        if got == kinds:
            ctx.ok("POLARITY", m, incs[0], what=what)
        else:
            ctx.fail("POLARITY", m, incs[0], f"{name} registers non-nullness under {sorted(str(g) for g in got)}; sound narrowing needs {sorted(kinds)} (`x is not None and ...`, `x is None or ...`)", construct=what)


def _check_pairs(ctx, inf) -> None:
    for name, m in inf.methods.items():
        for blk in [n for n in ast.walk(m.node) if hasattr(n, "body") and isinstance(getattr(n, "body"), list)]:
            for body in (getattr(blk, "body", []), getattr(blk, "orelse", []) if isinstance(getattr(blk, "orelse", None), list) else []):
                for i, s in enumerate(body):
                    if isinstance(s, ast.Expr) and isinstance(s.value, ast.Call) and dotted_of(s.value.func) == "self._non_null.increment":
                        key = s.value.args[0] if s.value.args else None
                        nxt = body[i + 1] if i + 1 < len(body) else None
                        ok = False
                        if isinstance(nxt, ast.Expr) and isinstance(nxt.value, ast.Call) and dotted_of(nxt.value.func) == "exit_stack.callback" and nxt.value.args and isinstance(nxt.value.args[0], ast.Lambda):
                            lam = nxt.value.args[0]
                            dec = [c for c in ast.walk(lam.body) if isinstance(c, ast.Call) and dotted_of(c.func) == "self._non_null.decrement"]
                            bound = lam.args.defaults[0] if lam.args.defaults else None
                            if dec and bound is not None and key is not None and ast.unparse(bound) == ast.unparse(key) \
                                    and dec[0].args and isinstance(dec[0].args[0], ast.Name) and dec[0].args[0].id == lam.args.args[0].arg:
                                ok = True
                        in_with = any(isinstance(w, ast.With) and any("ExitStack" in ast.unparse(it.context_expr) for it in w.items) and any(x is s for x in ast.walk(w)) for w in ast.walk(m.node))
                        what = f"_Inferrer.{name}: increment({short(key) if key is not None else ''}) paired with a registered decrement"
                        if ok and in_with:
                            ctx.ok("PAIR", m, s, what=what)
                        else:
                            ctx.fail("PAIR", m, s, "the non-null counter is incremented without an immediately registered decrement of the same key in an ExitStack: the narrowing leaks into sibling expressions", construct=what)


def _check_strip(ctx, inf) -> None:
    m = inf.methods.get("_strip_optional_if_non_null")
    ctx.require_anchor(m is not None, "_Inferrer._strip_optional_if_non_null exists")
    guarded = False
    for n in walk_function_body(m.node):
        if isinstance(n, ast.If) and any(isinstance(c, ast.Call) and dotted_of(c.func) == "self._non_null.at_least_once" for c in ast.walk(n.test)):
            if any(isinstance(r, ast.Return) for r in ast.walk(ast.Module(body=n.body, type_ignores=[]))):
                guarded = True
    other_returns = [r for r in walk_function_body(m.node) if isinstance(r, ast.Return) and r.value is not None and dotted_of(r.value) not in ("type_annotation",)]
    inside = [r for r in other_returns if any(isinstance(i, ast.If) and any(x is r for x in ast.walk(i)) for i in walk_function_body(m.node))]
    if guarded and len(inside) == len(other_returns):
        ctx.ok("STRIP", m, m.node, what="the stripped type is returned only under self._non_null.at_least_once(...)")
    else:
        ctx.fail("STRIP", m, m.node, "Optional is stripped on a path that does not consult the non-null counter", construct="strip guard")


def _check_shadowing(ctx, inf) -> None:
    """Non-nullness facts are keyed by the canonical TEXT of an expression (`self.label`).  If a generator could re-bind a name
    that an enclosing scope defines (`for self in self.children`), a fact about the outer `self.label` would be applied to the
    inner one.  The inferrer therefore rejects a loop variable that is already defined - looked up through the whole chain
    of environments (Environment.find consults `parent`), not only in the innermost mapping."""
    p = ctx.p
    env = p.cls(f"{TI}:Environment")
    find = env.methods.get("find")
    ctx.require_anchor(find is not None, "Environment.find exists")
    chain = any(isinstance(n, ast.Attribute) and n.attr == "parent" for n in ast.walk(find.node)) and any(
        isinstance(c, ast.Call) and isinstance(c.func, ast.Attribute) and c.func.attr == "find" for c in ast.walk(find.node))
    for name in ("transform_for_each", "transform_for_range"):
        m = inf.methods.get(name)
        ctx.require_anchor(m is not None, f"_Inferrer.{name} exists")
        what = f"_Inferrer.{name}: the loop variable is looked up in all enclosing scopes before it is bound"
        # the test that guards the `already defined` error
        guard = None
        for n in walk_function_body(m.node):
            if isinstance(n, ast.If) and any(isinstance(c, ast.Call) and dotted_of(c.func) == "self.errors.append" for b in n.body for c in ast.walk(b)) \
                    and any(isinstance(r, ast.Return) for b in n.body for r in ast.walk(b)):
                names = {x.id for x in ast.walk(n.test) if isinstance(x, ast.Name)}
                txt = ast.unparse(n.test)
                if "node.variable" in txt or names:
                    guard = n
                    break
        if guard is None:
            ctx.fail("SHADOW", m, m.node, f"{name} no longer rejects a loop variable that is already defined: a generator can shadow `self` or an argument, and non-nullness facts about the outer name are applied to the inner one", construct=what)
            continue
        # where does the tested value come from?
        srcs = [guard.test]
        for n in walk_function_body(m.node):
            if isinstance(n, ast.Assign) and isinstance(n.targets[0], ast.Name) and n.targets[0].id in {x.id for x in ast.walk(guard.test) if isinstance(x, ast.Name)}:
                srcs.append(n.value)
        uses_find = any(isinstance(c, ast.Call) and isinstance(c.func, ast.Attribute) and c.func.attr == "find" and "_environment" in ast.unparse(c.func.value) for s_ in srcs for c in ast.walk(s_))
        if uses_find and chain:
            ctx.ok("SHADOW", m, guard, what=what)
        else:
            ctx.fail("SHADOW", m, guard, f"{name} tests `{short(guard.test)}` (from {[short(x) for x in srcs[1:]] or 'the test itself'}), which does not go through Environment.find and its chain of parent scopes: a loop variable may shadow a name of an enclosing scope (`for self in self.children`), and the non-nullness established for the outer `self.x` is then applied to the inner one", construct=what)
