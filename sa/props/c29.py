"""C29 Python SDK traversal and accessors are complete (DESIGN §4 C29)."""
import ast
from typing import List

from ..flow import kwarg
from ..model import dotted_of, short, walk_function_body
from ..rules import exh, gen
from ..rules import schema as S
from ..scopes import PKG

CLAIM = (
    "what the traversal GENERATOR of the Python SDK determines structurally: (1) RECURSE: descend_once is generated from the body with "
    "recurse=False and descend with recurse=True; (2) PRE-ORDER: for a nested instance the generated `yield X` precedes "
    "`yield from X.descend()`, and the recursive part is emitted only under the recurse flag; (3) ALL-PROPS: the body iterates "
    "cls.properties and skips a property only when its type annotation is not descendable; the unroller implements all four "
    "type-annotation arms, guards Optional values with `is not None` and loops over lists; (4) DISPATCH: accept/transform of a class "
    "call the visitor/transformer method whose name is built with the same template as in the six visitor/transformer generators, and "
    "each of those generators emits one method per element of symbol_table.concrete_classes; (5) ACCESSOR: over_X_or_empty is generated "
    "for exactly the Optional list properties the class specifies itself, yields from the property under `is not None`."
    " SKIPS: the loops of the functions in scope have no more `continue`, `break` or in-loop `return` statements than the reference "
    "read on the unchanged tree (baselines/skips.json): a new skip means elements that were handled are no longer handled."
    " Guard exactness: descend_once / descend / accept* / transform* are generated under the ConcreteClass test alone, and `yield from X.descend()` under the recursion flag and descendability alone (any further condition excludes classes from dispatch or from the transitive closure)."
)
NOTE = (
    "Not decided: the traversal results on instance graphs (execution of the generated code). `X or default` accessors do not exist in the "
    "Python generator (only in its recorded tests for other SDKs); that clause is not decided."
)
TECHNIQUE = "static analysis: constant-argument flow, ordering of emitted fragments, loop coverage and naming-template agreement across sibling generators"

M = "python.lib._generate_types"


def _atoms(guards) -> list:
    """Guards as texts, conjunctions under a positive polarity (and disjunctions under a negative one) split into their operands."""
    out = []

    def add(t, pol):
        if isinstance(t, ast.UnaryOp) and isinstance(t.op, ast.Not):
            add(t.operand, not pol)
        elif isinstance(t, ast.BoolOp) and ((isinstance(t.op, ast.And) and pol) or (isinstance(t.op, ast.Or) and not pol)):
            for v in t.values:
                add(v, pol)
        else:
            out.append(("" if pol else "not ") + ast.unparse(t))

    for t, pol in guards:
        add(t, pol)
    return out


def run(ctx) -> None:
    p = ctx.p
    ctx.rule("RECURSE", "descend_once / descend generated with recurse=False / True", floor=2)
    ctx.rule("PRE-ORDER", "yield X before yield from X.descend(); recursion only under the flag", floor=2)
    ctx.rule("ALL-PROPS", "every descendable property is unrolled; Optional guarded; lists looped", floor=4)
    ctx.rule("DISPATCH", "accept/transform names agree with the visitor/transformer generators; one method per concrete class", floor=12)
    ctx.rule("ACCESSOR", "over_X_or_empty for own Optional list properties", floor=2)
    ctx.rule("EXH1", "chains over type annotations exhaustive", floor=3)
    for name, want in (("_generate_descend_once_method", False), ("_generate_descend_method", True)):
        f = p.func(f"{M}:{name}")
        calls = [c for c in ast.walk(f.node) if isinstance(c, ast.Call) and dotted_of(c.func) == "_generate_descend_body"]
        v = kwarg(calls[0], "recurse", 1) if calls else None
        if calls and isinstance(v, ast.Constant) and v.value is want and dotted_of(kwarg(calls[0], "cls", 0)) == "cls":
            ctx.ok("RECURSE", f, calls[0], what=f"{name}: _generate_descend_body(cls=cls, recurse={want})")
        else:
            ctx.fail("RECURSE", f, f.node, f"{name} builds its body with recurse=`{short(v) if v is not None else '?'}` instead of {want}: descend_once would recurse / descend would stop at the first level", construct=f"{name}: recurse flag")
    # the body's template name
    for name, templ in (("_generate_descend_once_method", "def descend_once("), ("_generate_descend_method", "def descend(")):
        f = p.func(f"{M}:{name}")
        if any(isinstance(c, ast.Constant) and isinstance(c.value, str) and templ in c.value for c in ast.walk(f.node)):
            ctx.ok("RECURSE", f, f.node, what=f"{name} emits `{templ}...`")
        else:
            ctx.fail("RECURSE", f, f.node, f"{name} does not emit `{templ}`", construct=f"{name}: method name")
    u = p.func(f"{M}:_DescendBodyUnroller._unroll_our_type_annotation")
    parents = S.parents_of(u)
    texts = []
    for n in walk_function_body(u.node):
        if isinstance(n, ast.JoinedStr):
            lit = "".join(str(v.value) for v in n.values if isinstance(v, ast.Constant))
            if lit.startswith("yield"):
                texts.append((n.lineno, lit, n))
    texts.sort()
    kinds = [("from" if t.startswith("yield from") else "self") for _, t, _ in texts]
    if kinds == ["self", "from"] and ".descend()" in texts[1][1]:
        ctx.ok("PRE-ORDER", u, texts[0][2], what="`yield X` is placed before `yield from X.descend()`")
        g = [("" if pol else "not ") + ast.unparse(t) for t, pol in S.guards_of(texts[1][2], parents)]
        extra = [x for x in _atoms(S.guards_of(texts[1][2], parents)) if x != "self._recurse" and not (x.startswith("self._descendability[") and x.endswith("]"))]
        if extra:
            ctx.fail("PRE-ORDER", u, texts[1][2], f"`yield from X.descend()` is emitted only under the additional condition(s) {extra}: for the classes excluded by it the descendants of a nested instance are missing from descend(), which then differs from the transitive closure of descend_once()", construct="recursion: extra condition")
        elif "self._recurse" in g and not [x for x in S.guards_of(texts[0][2], parents)]:
            ctx.ok("PRE-ORDER", u, texts[1][2], what="the recursive part only under self._recurse; the instance itself always")
        else:
            ctx.fail("PRE-ORDER", u, texts[1][2], f"`yield from X.descend()` is emitted under {g}; expected under self._recurse, and `yield X` unconditionally", construct="recursion flag")
    else:
        ctx.fail("PRE-ORDER", u, u.node, f"the unroller emits {[t for _, t, _ in texts]}: the nested instance must be yielded before its descendants (pre-order)", construct="pre-order")
    b = p.func(f"{M}:_generate_descend_body")
    gen.check_full_iteration(ctx, "ALL-PROPS", b, "properties", "descend body", allowed_skip_tests=("not descendability[{v}.type_annotation]",))
    ucls = p.cls(f"{M}:_DescendBodyUnroller")
    need = {"_unroll_primitive_type_annotation", "_unroll_our_type_annotation", "_unroll_list_type_annotation", "_unroll_optional_type_annotation"}
    if need <= set(ucls.methods):
        ctx.ok("ALL-PROPS", (ucls.module.relpath, ucls.qualname), ucls.node, what="the unroller implements the four type-annotation arms")
    else:
        ctx.fail("ALL-PROPS", (ucls.module.relpath, ucls.qualname), ucls.node, f"the unroller lacks {sorted(need - set(ucls.methods))}", construct="unroller arms")
    o = ucls.methods["_unroll_optional_type_annotation"]
    if any(isinstance(n, ast.JoinedStr) and "is not None:" in "".join(str(v.value) for v in n.values if isinstance(v, ast.Constant)) for n in ast.walk(o.node)):
        ctx.ok("ALL-PROPS", o, o.node, what="Optional values guarded by `if X is not None:`")
    else:
        ctx.fail("ALL-PROPS", o, o.node, "Optional values are not guarded by `is not None` in the generated traversal", construct="optional guard")
    l = ucls.methods["_unroll_list_type_annotation"]
    if any(isinstance(n, ast.JoinedStr) and "".join(str(v.value) for v in n.values if isinstance(v, ast.Constant)).startswith("for ") for n in ast.walk(l.node)):
        ctx.ok("ALL-PROPS", l, l.node, what="lists are iterated with a for loop (list order)")
    else:
        ctx.fail("ALL-PROPS", l, l.node, "lists are not iterated in the generated traversal", construct="list loop")
    # dispatch: name templates
    gcls = p.func(f"{M}:_generate_class")

    def templates(f) -> set:
        out = set()
        for n in walk_function_body(f.node):
            if isinstance(n, ast.Call) and dotted_of(n.func) == "Identifier" and n.args and isinstance(n.args[0], ast.JoinedStr):
                out.add(ast.unparse(n.args[0]))
        return out

    cls_templates = templates(gcls)
    gens = {
        "_generate_abstract_visitor": "f'visit_{cls.name}'", "_generate_abstract_visitor_with_context": "f'visit_{cls.name}_with_context'",
        "_generate_pass_through_visitor": "f'visit_{cls.name}'", "_generate_pass_through_visitor_with_context": "f'visit_{cls.name}_with_context'",
        "_generate_abstract_transformer": "f'transform_{cls.name}'", "_generate_abstract_transformer_with_context": "f'transform_{cls.name}_with_context'",
        "_generate_transformer_with_default": "f'transform_{cls.name}'", "_generate_transformer_with_default_and_context": "f'transform_{cls.name}_with_context'",
    }
    for gname, templ in gens.items():
        g = p.func(f"{M}:{gname}")
        if templ in templates(g) and templ in cls_templates:
            ctx.ok("DISPATCH", g, g.node, what=f"{gname} and accept/transform both name the method {templ}")
        else:
            ctx.fail("DISPATCH", g, g.node, f"{gname} names its methods {sorted(templates(g))} while the classes dispatch to {sorted(cls_templates)}: accept()/transform() would call a method the visitor does not define", construct=f"{gname}: method name template")
        gen.check_full_iteration(ctx, "DISPATCH", g, "concrete_classes", gname)
    # every concrete class gets its own descend_once / descend / accept* / transform*: the block is generated under the class-kind test only
    gp0 = S.parents_of(gcls)
    sites = []
    for n in walk_function_body(gcls.node):
        if isinstance(n, ast.Call) and dotted_of(n.func) in ("_generate_descend_once_method", "_generate_descend_method"):
            sites.append((dotted_of(n.func), n))
        if isinstance(n, ast.JoinedStr):
            lit = "".join(str(v.value) for v in n.values if isinstance(v, ast.Constant))
            for key in ("def accept(", "def accept_with_context(", "def transform(", "def transform_with_context("):
                if key in lit:
                    sites.append((key.strip("("), n))
    ctx.require_anchor(len(sites) >= 6, "_generate_class emits descend_once, descend, accept, accept_with_context, transform, transform_with_context")
    for label, n in sites:
        g = _atoms(S.guards_of(n, gp0))
        what = f"_generate_class: `{label}` is generated for every concrete class"
        if g and all(x in ("isinstance(cls, intermediate.ConcreteClass)", "isinstance(cls, ConcreteClass)") for x in g):
            ctx.ok("DISPATCH", gcls, n, what=what)
        else:
            ctx.fail("DISPATCH", gcls, n, f"`{label}` is generated under {g}; expected under `isinstance(cls, intermediate.ConcreteClass)` alone: a concrete class excluded by the extra condition inherits accept()/transform() of its parent and is dispatched to the parent's visit method", construct=what)
    # accept bodies call the method on the visitor with self
    acc = [n for n in walk_function_body(gcls.node) if isinstance(n, ast.JoinedStr) and any(isinstance(v, ast.Constant) and "def accept(" in str(v.value) for v in n.values)]
    if acc and any(isinstance(v, ast.FormattedValue) and dotted_of(v.value) == "visit_name" for v in acc[0].values) and any(isinstance(v, ast.Constant) and "(self)" in str(v.value) for v in acc[0].values):
        ctx.ok("DISPATCH", gcls, acc[0], what="accept() calls visitor.<visit_name>(self)")
    else:
        ctx.fail("DISPATCH", gcls, gcls.node, "accept() does not call visitor.<visit_name>(self)", construct="accept body")
    # accessor
    loops = [n for n in walk_function_body(gcls.node) if isinstance(n, ast.For) and dotted_of(n.iter) == "cls.properties"]
    hit = None
    for lp in loops:
        for j in [x for x in ast.walk(lp) if isinstance(x, ast.JoinedStr)]:
            lit = "".join(str(v.value) for v in j.values if isinstance(v, ast.Constant))
            if "_or_empty(" in lit:
                hit = (lp, j, lit)
    if hit is None:
        ctx.fail("ACCESSOR", gcls, gcls.node, "no over_X_or_empty accessor is generated", construct="over_X_or_empty")
    else:
        lp, j, lit = hit
        gp = S.parents_of(gcls)
        g = [("" if pol else "not ") + ast.unparse(t) for t, pol in S.guards_of(j, gp)]
        want = "isinstance(prop.type_annotation, intermediate.OptionalTypeAnnotation) and isinstance(prop.type_annotation.value, intermediate.ListTypeAnnotation)"
        skips = [x for x in ast.walk(lp) if isinstance(x, ast.Continue)]
        skip_ok = all([("" if pol else "not ") + ast.unparse(t) for t, pol in S.guards_of(s, gp)] == ["prop.specified_for is not cls"] for s in skips)
        if g == [want] and skip_ok:
            ctx.ok("ACCESSOR", gcls, j, what="generated for exactly the own Optional[List[...]] properties")
        else:
            ctx.fail("ACCESSOR", gcls, j, f"over_X_or_empty is generated under {g}; expected for the Optional list properties the class specifies", construct="over_X_or_empty condition")
        if "is not None:" in lit and "yield from self." in lit:
            ctx.ok("ACCESSOR", gcls, j, what="yields from the property when it is not None (else nothing)")
        else:
            ctx.fail("ACCESSOR", gcls, j, "the accessor body does not `yield from self.X` under `is not None`", construct="over_X_or_empty body")
    for f in p.module(f"{PKG}.{M}").functions.values():
        exh.check_exh1(ctx, f, "EXH1")

    ctx.rule("SKIPS", "the loops of the functions in scope have no more continue/break/return-in-loop statements than the reference read on the unchanged tree", floor=3)
    from ..rules import skips as _skips
    _base = _skips.load_baseline()
    for _m in ctx.p.modules.values():
        if _m.name in ("aas_core_codegen.python.lib._generate_types", "aas_core_codegen.python.unrolling"):
            for _f in _m.functions.values():
                _skips.check_skips(ctx, _f, "SKIPS", _base)