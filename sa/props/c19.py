"""C19 Emitted literals denote exactly the original values (DESIGN §4 C19)."""
import ast

from ..model import dotted_of, short
from ..rules import chr as C
from ..flow import find_calls

CLAIM = (
    "for EVERY code point, by set arithmetic over the character classes that each literal function distinguishes: (1) a character "
    "the target language forbids raw inside the chosen delimiters (delimiter, backslash, line terminators incl. U+0085/U+2028/U+2029 for "
    "C#, NUL for Python and Go, BOM for Go) is never emitted raw; (2) every constant escape denotes exactly the character of its class in "
    "that language; (3) every numeric escape has a digit count that is legal for every code point of its class and is self-delimiting "
    "(no greedy \\x followed by arbitrary text); (4) needs_escaping returns False only for characters that may appear raw between double "
    "quotes; (5) cpp.string_literal's ValueError for non-ASCII text is guarded by its callers. Covered: python str (5 tables) and bytes, "
    "C++ wide/narrow strings and wide chars, C#, Java, TypeScript (quoted and template), Go."
    " LIT-KW: duplicate_curly_brackets / in_backticks / without_enclosing are passed to a literal function only inside "
    "transform_joined_str (a stand-alone literal emitted with them denotes another text)."
    " LIT-KW also requires an explicit quoting= whenever a literal is emitted without its enclosing quotes."
)
NOTE = (
    "Trusted base: the per-language specification tables in sa/rules/chr.py (from the language references, DESIGN Appendix B) and the "
    "abstract interpreter of the per-character code (a construct it cannot interpret is an ANALYSIS-ERROR). Bounds: the per-character "
    "model; effects between adjacent characters are covered by the self-delimiting requirement and, for TypeScript templates, by the "
    "recorded look-ahead guard on `${`. Known findings: lone surrogates are emitted as \\uD8xx in C++ wide strings and Go strings."
)
TECHNIQUE = "static analysis: abstract interpretation of the escaping functions over a finite partition of the code-point space, judged against language specification tables"

JOBS = [
    ("python", "python.common:string_literal", [
        {"quoting": None, "without_enclosing": False, "duplicate_curly_brackets": False},
        {"quoting": None, "without_enclosing": False, "duplicate_curly_brackets": True},
        {"quoting": "StringQuoting.SINGLE_QUOTES", "without_enclosing": False, "duplicate_curly_brackets": False},
        {"quoting": "StringQuoting.DOUBLE_QUOTES", "without_enclosing": False, "duplicate_curly_brackets": False},
        {"quoting": "StringQuoting.SINGLE_QUOTES", "without_enclosing": False, "duplicate_curly_brackets": True},
        {"quoting": "StringQuoting.DOUBLE_QUOTES", "without_enclosing": False, "duplicate_curly_brackets": True},
    ]),
    ("cpp", "cpp.common:wstring_literal", [{}]),
    ("cpp", "cpp.common:string_literal", [{}]),
    ("cpp", "cpp.common:wchar_literal", [{}]),
    ("csharp", "csharp.common:string_literal", [{}]),
    ("java", "java.common:string_literal", [{}]),
    ("golang", "golang.common:string_literal", [{}]),
    ("typescript", "typescript.common:string_literal", [
        {"without_enclosing": False, "in_backticks": False},
        {"without_enclosing": False, "in_backticks": True},
    ]),
]
NEEDS = [
    ("python", "python.common:needs_escaping", {"also_check_curly_brackets": False}),
    ("cpp", "cpp.common:needs_escaping", {}),
    ("csharp", "csharp.common:needs_escaping", {}),
    ("java", "java.common:needs_escaping", {}),
    ("golang", "golang.common:needs_escaping", {}),
    ("typescript", "typescript.common:needs_escaping", {"in_backticks": False}),
]


def run(ctx) -> None:
    p = ctx.p
    ctx.rule("CHR", "per character class: forbidden characters never raw; constant escapes denote their class; numeric escapes legal and self-delimiting", floor=180)
    ctx.rule("NEEDS", "needs_escaping returns False only for characters that may stand raw between double quotes", floor=40)
    ctx.rule("GUARD", "callers of cpp.string_literal establish or handle its ASCII-only contract", floor=1)
    ctx.rule("BYTES", "byte-sequence literals emit every byte exactly once (chunks tile the value) as two hex digits", floor=20)
    from ..rules import bytelit
    for key in ("python.common:bytes_literal", "cpp.common:bytes_literal", "golang.common:bytes_literal", "typescript.common:bytes_literal"):
        bytelit.check_bytes_literal(ctx, p.func(key), "BYTES")
    n_classes = 0
    for lang, key, modes in JOBS:
        f = p.func(key)
        for m in modes:
            for part in C.analyse_escaper(ctx, f, m, C.spec_boundaries(lang)):
                n_classes += len(part.rows)
                C.judge(ctx, "CHR", part, lang)
    # python bytes
    f = p.func("python.common:bytes_literal")
    for part in _bytes_parts(ctx, f):
        n_classes += len(part.rows)
        C.judge(ctx, "CHR", part, "python_bytes")
    for lang, key, mode in NEEDS:
        f = p.func(key)
        for part in C.analyse_escaper(ctx, f, mode, C.spec_boundaries(lang)):
            forbidden = C.SPECS[lang]["must_raw_forbidden"]('"')
            for (lo, hi), guards, kind, payload in part.rows:
                cname = f"U+{lo:04X}" if lo == hi else f"U+{lo:04X}..U+{hi:04X}"
                says_raw_ok = (kind == "emit") or (kind == "return" and payload is False) or kind == "continue"
                if kind == "return" and payload is True:
                    ctx.ok("NEEDS", f, f.node, what=f"{f.qualname}: {cname} -> needs escaping", nontrivial=(hi - lo) < 64)
                    continue
                bad = sorted(c for c in forbidden if lo <= c <= hi)
                if says_raw_ok and bad:
                    for c in bad:
                        ctx.fail("NEEDS", f, f.node,
                                 f"{f.qualname} reports that U+{c:04X} needs no escaping, but it may not appear raw in a {lang} string literal: {C.SPECS[lang]['why'].get(c, 'it terminates or corrupts the literal')}",
                                 construct=f"{f.qualname} passes U+{c:04X}")
                else:
                    ctx.ok("NEEDS", f, f.node, what=f"{f.qualname}: {cname} may stay raw", nontrivial=(hi - lo) < 64)
    ctx.extra["character_classes"] = n_classes
    ctx.extra["code_points_covered"] = 0x110000

    # cpp.string_literal requires ASCII text (@require) and raises ValueError otherwise:
    # every caller passes text that is ASCII by construction (identifiers, constants)
    target = p.func("cpp.common:string_literal")
    from ..flow import artefacts
    from ..rules.own import local_defs
    n = 0
    for f in p.all_functions():
        if not f.module.name.startswith("aas_core_codegen.cpp"):
            continue
        calls = []
        for call in find_calls(f.node, lambda c: (dotted_of(c.func) or "").split(".")[-1] == "string_literal"):
            r = p.resolve_expr(f.module, call.func)
            if r is not None and r[0] == "func" and r[1] is target:
                calls.append(call)
        if not calls:
            continue
        art = artefacts(ctx.ty, f)
        defs = local_defs(f)
        for call in calls:
            n += 1
            arg = call.args[0] if call.args else None
            what = f"{f.qualname}: string_literal({short(arg) if arg is not None else ''})"
            if arg is not None and _ascii_by_type(ctx, art, defs, arg, set()):
                ctx.ok("GUARD", f, call, what=what)
            else:
                ctx.fail("GUARD", f, call,
                         f"cpp.string_literal({short(arg) if arg is not None else ''}) receives free text of the meta-model (type str, not an identifier); the function requires ASCII "
                         f"and its precondition/ValueError is not handled: a non-ASCII value crashes the C++ target instead of being reported",
                         construct=what)
    ctx.require_anchor(n > 0, "cpp.common.string_literal has callers")
    ctx.rule("LIT-KW", "interpolation-only options of the literal functions are used only for parts of interpolated strings", floor=4)
    from ..rules import litkw as _litkw
    _litkw.check_literal_keywords(ctx, "LIT-KW")
    _litkw.check_enclosing_agreement(ctx, "LIT-KW")
    ctx.rule("ASCII-RE", "IDENTIFIER_RE admits ASCII only (the GUARD rule relies on Identifier being ASCII by contract)", floor=1)
    from ..rules import asciire as _asciire
    _asciire.check_ascii_regex(ctx, "ASCII-RE", "common", "IDENTIFIER_RE", "cpp.string_literal raises for non-ASCII text and its callers pass identifiers unguarded")



def _ascii_by_type(ctx, art, defs, e: ast.AST, seen) -> bool:
    """ASCII by construction: constants, values of type Identifier (the front end
    only admits [a-zA-Z_][a-zA-Z_0-9]* identifiers), f-strings of those."""
    from ..types import Cls, strip_opt
    if isinstance(e, ast.Constant):
        return isinstance(e.value, str) and e.value.isascii()
    if isinstance(e, ast.JoinedStr):
        return all(
            (isinstance(v, ast.Constant) and str(v.value).isascii())
            or (isinstance(v, ast.FormattedValue) and _ascii_by_type(ctx, art, defs, v.value, seen))
            for v in e.values
        )
    t = strip_opt(art.types.type_of(e, art.types.final_env()))
    if isinstance(t, Cls) and any(c.name == "Identifier" for c in ctx.p.mro(t.ci)):
        return True
    if isinstance(e, ast.Name) and e.id in defs and e.id not in seen:
        seen = seen | {e.id}
        vals = defs[e.id]
        return bool(vals) and all(_ascii_by_type(ctx, art, defs, v, seen) for v in vals)
    if isinstance(e, ast.Call):
        d = dotted_of(e.func) or ""
        if d in ("Identifier", "Stripped") and e.args:
            return _ascii_by_type(ctx, art, defs, e.args[0], seen)
    return False


def _bytes_parts(ctx, f):
    """bytes_literal has two per-byte loops (short and multi-line form)."""
    parts = []
    interp = C.Interp(ctx, f, "byte", {})
    loops = [n for n in ast.walk(f.node) if isinstance(n, ast.For) and isinstance(n.target, ast.Name) and n.target.id == "byte"]
    ctx.require_anchor(len(loops) >= 1, "python.bytes_literal iterates over the bytes")
    for loop in loops:
        part = C.Partition(f, {"loop_line": "short" if loop is loops[0] else "multi-line"}, 'b"', '"')
        rows = []
        for (g, em, term, _e) in interp.run(loop.body, {}, (0, 255), None):
            rows.append(((0, 255), g, "emit", tuple(em)))
        part.rows = rows
        parts.append(part)
    return parts
