"""C20 Generated source files are syntactically well-formed (DESIGN §4 C20)."""
import ast
from typing import Dict, List, Optional, Set, Tuple

from ..flow import artefacts
from ..model import FuncInfo, dotted_of, short, walk_function_body
from ..rules.det import _in_crash_message
from ..scopes import in_generators, funcs
from ..types import Cls, strip_opt

CLAIM = (
    "the clause `text taken from descriptions, invariant messages or constants cannot terminate a comment, docstring or literal early`, "
    "per sink: (1) DOC-END: the Python docstring wrapper escapes backslashes before triple quotes and neutralises a trailing double quote "
    "wherever the text directly adjoins the closing quotes; (2) BLOCK-END: the Java and TypeScript `/** ... */` wrappers pass every line "
    "through a replacement of `*/`; (3) LINE-SPLIT: the line-comment wrappers (Python `#:`, C++ `///`, Go `//`, C# `///`) prefix every "
    "element of `text.splitlines()` - str.splitlines() breaks at every character any of these languages treats as a line end; "
    "(4) SPLICE: a C++ `///` line must not end in a backslash (line splicing swallows the next source line); (5) JAVA-UESC: Java "
    "translates \\\\uXXXX before lexing, also inside comments, so a backslash followed by `u` in the text needs neutralising; (6) XML-ESC: "
    "text nodes of C# documentation are XML-escaped where they are rendered, Java text is HTML-escaped; (7) TAINT: free-text attributes of "
    "the IR (invariant descriptions, enumeration literal values, constant values, patterns, the XML namespace) reach generated code only "
    "through the target's literal functions, comparisons or error messages. The literal functions themselves are judged with the rule of C19 (CHR: per "
    "character class, forbidden characters never raw, only legal escapes), which is also run here."
    " ENCLOSE: a literal emitted without its quotes (parts of an f-string) is escaped for the quote character the caller encloses it with (explicit quoting=)."
)
NOTE = (
    "Trusted base: the table of IR free-text attributes and of admissible consumers (sa/props/c20.py); the annotation-driven typer. Not "
    "decided: that whole generated files parse (a property of the concatenation of all templates with all inputs), JSON/XML "
    "well-formedness of the schema outputs (json.dumps / ElementTree serialise them), snippets provided by the user."
)
TECHNIQUE = "static analysis: sink-specific taint rules on the comment/docstring wrappers (required neutralising operations and their order), typed consumer analysis of IR free-text attributes"

TAINT = {
    ("Invariant", "description"), ("EnumerationLiteral", "value"), ("MetaModel", "xml_namespace"), ("PatternVerification", "pattern"),
    ("ConstantPrimitive", "value"), ("PrimitiveSetLiteral", "value"), ("PatternConstraint", "pattern"), ("DefaultPrimitive", "value"),
    ("MetaModel", "book_url"), ("MetaModel", "book_version"), ("MetaModel", "version"),
}
SAFE_CALL_SUFFIXES = (
    "_literal", "isinstance", "str", "repr", "len", "assert_never", "wrap_text_into_lines", "representable_as_number", "fix_pattern",
    "_byte_array_as_expr", "bytes", "json.dumps", "stringify.Property", ".add", "float", "int", "bool", "math.isnan", "math.isinf",
)


def run(ctx) -> None:
    ctx.rule("DOC-END", "Python docstring wrapper: backslashes, triple quotes and a trailing quote are neutralised", floor=3)
    ctx.rule("BLOCK-END", "block-comment wrappers replace `*/` in every line", floor=2)
    ctx.rule("LINE-SPLIT", "line-comment wrappers prefix every element of text.splitlines()", floor=6)
    ctx.rule("SPLICE", "a C++ line comment never ends in a backslash", floor=1)
    ctx.rule("JAVA-UESC", "`\\u` cannot reach Java source text unescaped", floor=1)
    ctx.rule("XML-ESC", "documentation text is XML/HTML-escaped where it is rendered", floor=2)
    ctx.rule("TAINT", "IR free-text attributes reach code only through literal functions", floor=100)
    check_docstring(ctx)
    check_block_comments(ctx)
    check_line_comments(ctx)
    check_inline_block_comments(ctx)
    check_xml_escape(ctx)
    check_taint(ctx)
    # the literal functions themselves (shared with C19): a literal that lets its delimiter, a backslash or a line end through raw
    # ends early in the generated file
    ctx.rule("CHR", "string/char literal functions never emit a forbidden character raw and only legal escapes (shared with C19)", floor=180)
    from . import c19
    from ..rules import chr as _C
    for lang, key, modes in c19.JOBS:
        lf = ctx.p.func(key)
        for mode in modes:
            for part in _C.analyse_escaper(ctx, lf, mode, _C.spec_boundaries(lang)):
                _C.judge(ctx, "CHR", part, lang)
    # parts of an f-string written between quotes that the caller chooses (shared with C19)
    ctx.rule("ENCLOSE", "a literal emitted without its quotes is escaped for the quote the caller encloses it with (explicit quoting=)", floor=2)
    from ..rules import litkw as _litkw
    _litkw.check_enclosing_agreement(ctx, "ENCLOSE")


def _replace_chain(e: ast.AST) -> List[Tuple[str, str]]:
    """``x.replace(a, b).replace(c, d)`` -> [(a, b), (c, d)] in application order."""
    out: List[Tuple[str, str]] = []
    cur = e
    while isinstance(cur, ast.Call) and isinstance(cur.func, ast.Attribute) and cur.func.attr == "replace" and len(cur.args) == 2 \
            and all(isinstance(a, ast.Constant) and isinstance(a.value, str) for a in cur.args):
        out.append((cur.args[0].value, cur.args[1].value))
        cur = cur.func.value
    out.reverse()
    return out


def check_docstring(ctx) -> None:
    f = ctx.p.func("python.description:docstring")
    reps: List[Tuple[str, str]] = []
    for n in walk_function_body(f.node):
        if isinstance(n, ast.Assign):
            reps.extend(_replace_chain(n.value))
    olds = [a for a, _ in reps]
    if "\\" in olds and '"""' in olds and olds.index("\\") < olds.index('"""') and dict(reps)["\\"] == "\\\\":
        ctx.ok("DOC-END", f, f.node, what="backslashes doubled first, then triple quotes escaped")
    else:
        ctx.fail("DOC-END", f, f.node, f"the docstring wrapper applies {reps}: backslashes must be doubled BEFORE the triple quotes are escaped (otherwise the escape's own backslash is doubled, or a trailing backslash escapes the closing quote)", construct="docstring escape order")
    if '"""' in olds and '"""' not in dict(reps)['"""']:
        ctx.ok("DOC-END", f, f.node, what="the replacement of the triple quotes contains no triple quote")
    else:
        ctx.fail("DOC-END", f, f.node, "triple quotes are not replaced (or by something that still contains them)", construct="docstring triple quotes")
    # every template whose hole directly adjoins the closing quotes needs the trailing-quote neutralisation
    adjoining = []
    for j in [x for x in walk_function_body(f.node) if isinstance(x, ast.JoinedStr)]:
        for i, v in enumerate(j.values):
            if isinstance(v, ast.FormattedValue) and i + 1 < len(j.values) and isinstance(j.values[i + 1], ast.Constant) and str(j.values[i + 1].value).startswith('"'):
                adjoining.append(j)
    ends = [n for n in walk_function_body(f.node) if isinstance(n, ast.If) and any(
        isinstance(c, ast.Call) and isinstance(c.func, ast.Attribute) and c.func.attr == "endswith" and c.args and isinstance(c.args[0], ast.Constant) and c.args[0].value == '"'
        for c in ast.walk(n.test))]
    fixes = [n for e in ends for n in e.body if isinstance(n, ast.Assign)]
    if not adjoining:
        ctx.ok("DOC-END", f, f.node, what="the text never adjoins the closing quotes")
    elif ends and fixes and all(e.lineno < j.lineno for e in ends for j in adjoining):
        # the fix-up runs on text in which `"""` was already rewritten: the final quote may be escaped already; escaping it
        # again yields an escaped backslash followed by a bare quote.  The fix-up must therefore look at the backslashes
        # before the quote (or run on the raw text, before any replacement).
        rep_lines = [n.lineno for n in walk_function_body(f.node) if isinstance(n, ast.Assign) and _replace_chain(n.value)]
        on_raw = all(e.lineno < min(rep_lines) for e in ends) if rep_lines else True
        looks_at_backslashes = any(isinstance(c, ast.Constant) and c.value == "\\" for e in ends for c in ast.walk(e))
        if on_raw or looks_at_backslashes:
            ctx.ok("DOC-END", f, ends[0], what="a trailing double quote is escaped (unless it is escaped already) before the text is put next to the closing quotes")
        else:
            ctx.fail("DOC-END", f, ends[0], "the trailing double quote is escaped without looking at the backslashes before it, after `\"\"\"` was rewritten: a text ending in three quotes gets `\\\"` + `\\\\\"`, i.e. an escaped backslash and a bare quote, and the docstring ends early", construct="docstring trailing quote already escaped")
    else:
        ctx.fail("DOC-END", f, adjoining[0], f"`{short(adjoining[0])}` puts the text directly before the closing quotes; a text ending in `\"` yields four quotes in a row and the module does not parse", construct="docstring trailing quote")


def check_block_comments(ctx) -> None:
    for t, esc_ok in (("java", lambda s: "*/" not in s), ("typescript", lambda s: "*/" not in s)):
        f = ctx.p.func(f"{t}.description:documentation_comment")
        opens = any(isinstance(c, ast.Constant) and isinstance(c.value, str) and "/**" in c.value for c in ast.walk(f.node))
        ctx.require_anchor(opens, f"{t}.documentation_comment writes a /** block comment")
        # the variable written inside the loop
        written = []
        for n in walk_function_body(f.node):
            if isinstance(n, ast.JoinedStr) and any(isinstance(v, ast.Constant) and str(v.value).startswith(" * ") for v in n.values):
                written.extend(v.value for v in n.values if isinstance(v, ast.FormattedValue))
        ctx.require_anchor(bool(written), f"{t}.documentation_comment writes ` * <line>`")
        defs: Dict[str, List[ast.expr]] = {}
        for n in walk_function_body(f.node):
            if isinstance(n, ast.Assign) and len(n.targets) == 1 and isinstance(n.targets[0], ast.Name):
                defs.setdefault(n.targets[0].id, []).append(n.value)
        for w in written:
            chain = _replace_chain(w)
            if not chain and isinstance(w, ast.Name):
                for v in defs.get(w.id, []):
                    chain = chain or _replace_chain(v)
            reps = dict(chain)
            what = f"{t}: every line written into the block comment has `*/` replaced"
            if "*/" in reps and esc_ok(reps["*/"]):
                ctx.ok("BLOCK-END", f, w, what=what + f" by `{reps['*/']}`")
            else:
                ctx.fail("BLOCK-END", f, w, f"`{short(w)}` is written between `/**` and `*/` without replacing `*/`: a description containing `*/` (e.g. in a literal) ends the comment and the rest is parsed as code", construct=what)
    # Java: unicode escapes are translated before lexing, also in comments
    jt = ctx.p.func("java.description:_ElementRenderer.transform_text")
    jd = ctx.p.func("java.description:documentation_comment")
    handled = False
    for g in (jt, jd):
        for n in walk_function_body(g.node):
            for a, b in _replace_chain(n) if isinstance(n, ast.Call) else []:
                if a in ("\\u", "\\") and b not in ("\\u", "\\"):
                    handled = True
    if handled:
        ctx.ok("JAVA-UESC", jd, jd.node, what="backslash-u neutralised in Java documentation text")
    else:
        ctx.fail("JAVA-UESC", jd, jd.node, "neither transform_text nor documentation_comment neutralises a backslash followed by `u`: javac translates \\uXXXX before lexing, so `\\u000a`/`\\u002a\\u002f` in a description end the comment and an ill-formed one (e.g. ``C:\\users`` in a literal) is a compile error", construct="java: \\u in documentation text")


def check_line_comments(ctx) -> None:
    p = ctx.p
    sites = [
        ("python", "python.description:documentation_comment", "#:"),
        ("cpp", "cpp.description:documentation_comment", "///"),
        ("golang", "golang.description:documentation_comment", "//"),
        ("csharp", "csharp.description:_generate_summary_remarks", "///"),
        ("csharp", "csharp.description:_generate_summary_remarks_constraints", "///"),
        ("csharp", "csharp.description:generate_comment_for_signature", "///"),
    ]
    for t, key, prefix in sites:
        f = p.func(key)
        loops = [n for n in ast.walk(f.node) if isinstance(n, (ast.For, ast.comprehension))]
        ok = False
        for l in loops:
            it = l.iter
            if isinstance(it, ast.Call) and isinstance(it.func, ast.Attribute) and it.func.attr == "splitlines" and not it.args and not it.keywords:
                ok = True
        what = f"{t}: {f.name} prefixes every element of text.splitlines() with `{prefix}`"
        if ok:
            ctx.ok("LINE-SPLIT", f, f.node, what=what)
        else:
            ctx.fail("LINE-SPLIT", f, f.node, f"{f.name} does not build the comment from text.splitlines(): a line end that only the target language recognises (\\r, U+2028, form feed ...) leaves the rest of the text outside the comment", construct=what)
    cs = p.func("csharp.description:_slash_slash_slash_line")
    if any(isinstance(v, ast.Constant) and str(v.value).startswith("/// ") for j in ast.walk(cs.node) if isinstance(j, ast.JoinedStr) for v in j.values):
        ctx.ok("LINE-SPLIT", cs, cs.node, what="csharp: _slash_slash_slash_line prefixes `/// `")
    else:
        ctx.fail("LINE-SPLIT", cs, cs.node, "_slash_slash_slash_line does not prefix `/// `", construct="csharp line prefix")
    # C++: line splicing
    f = p.func("cpp.description:documentation_comment")
    handled = any(
        isinstance(c, ast.Call) and isinstance(c.func, ast.Attribute) and c.func.attr == "endswith" and c.args and isinstance(c.args[0], ast.Constant) and c.args[0].value == "\\"
        for c in ast.walk(f.node)
    )
    if handled:
        ctx.ok("SPLICE", f, f.node, what="a line ending in a backslash is neutralised")
    else:
        ctx.fail("SPLICE", f, f.node, "a description line ending in a backslash is written as `/// ...\\`: the C++ translation phase 2 splices the next physical line (the declaration being documented) into the comment", construct="cpp: trailing backslash in a /// line")


def check_xml_escape(ctx) -> None:
    p = ctx.p
    v = p.func("csharp.description:_ToTextDirectivesVisitor.visit_text")
    esc = [c for c in ast.walk(v.node) if isinstance(c, ast.Call) and dotted_of(c.func) in ("xml.sax.saxutils.escape", "saxutils.escape", "html.escape")]
    if esc and dotted_of(esc[0].args[0]) == "node.content":
        ctx.ok("XML-ESC", v, esc[0], what="C# documentation text nodes are XML-escaped when rendered")
    else:
        ctx.fail("XML-ESC", v, v.node, "C# documentation text is appended without xml.sax.saxutils.escape: `<`, `&` in a description make the documentation comment ill-formed XML", construct="csharp visit_text escape")
    j = p.func("java.description:_ElementRenderer.transform_text")
    chain: List[Tuple[str, str]] = []
    for n in ast.walk(j.node):
        if isinstance(n, ast.Call):
            c = _replace_chain(n)
            if len(c) > len(chain):
                chain = c
    olds = [a for a, _ in chain]
    if olds[:1] == ["&"] and {"&", "<", ">"} <= set(olds):
        ctx.ok("XML-ESC", j, j.node, what="Java documentation text: & first, then < and > escaped")
    else:
        ctx.fail("XML-ESC", j, j.node, f"Java documentation text is escaped as {chain}: `&` must be replaced first, and `<`, `>` as well", construct="java transform_text escape")


def check_taint(ctx, scope=None) -> None:
    p = ctx.p
    n_sites = 0
    for f in funcs(p, scope or in_generators):
        art = artefacts(ctx.ty, f)
        ft = art.types
        ft.build()
        parents: Dict[int, ast.AST] = {}
        for n in ast.walk(f.node):
            for c in ast.iter_child_nodes(n):
                parents[id(c)] = n
        for n in ast.walk(f.node):
            if not (isinstance(n, ast.Attribute) and isinstance(n.ctx, ast.Load)):
                continue
            if not any(n.attr == a for _, a in TAINT):
                continue
            cur: Optional[ast.AST] = n
            while cur is not None and not isinstance(cur, ast.stmt):
                cur = parents.get(id(cur))
            env = (ft.env_for(cur) if cur is not None else None) or ft.final_env()
            t = strip_opt(ft.type_of(n.value, env))
            names: Set[str] = set()
            for m in (t.members if hasattr(t, "members") else [t]):
                if isinstance(m, Cls):
                    names |= {b.name for b in p.mro(m.ci)}
            if not any((a, n.attr) in TAINT for a in names):
                continue
            n_sites += 1
            par = parents.get(id(n))
            what = f"{short(n)} consumed by {type(par).__name__}"
            if isinstance(par, ast.FormattedValue):
                if par.conversion == 114 or _in_crash_message(par, parents) or _in_error_message(par, parents):
                    ctx.ok("TAINT", f, n, what=what + " (repr / message text)", nontrivial=False)
                elif _numeric_only(ft, n, env, cur, parents):
                    ctx.ok("TAINT", f, n, what=what + " (numeric arm)", nontrivial=False)
                else:
                    ctx.fail("TAINT", f, n,
                             f"`{{{short(n)}}}` interpolates free text of the meta-model into generated code without a literal function: a quote, backslash or line break in it ends the surrounding literal early",
                             construct=f"{{{short(n)}}} raw in a template")
                continue
            if isinstance(par, ast.Call) and (n in par.args or any(k.value is n for k in par.keywords)):
                d = dotted_of(par.func) or ""
                if d.endswith(SAFE_CALL_SUFFIXES) or d.split(".")[-1] in ("Error",):
                    ctx.ok("TAINT", f, n, what=f"{short(n)} -> {d}(...)")
                elif isinstance(par.func, ast.Attribute) and par.func.attr in ("write", "append", "extend", "join"):
                    ctx.fail("TAINT", f, n, f"`{short(n)}` is written to the output by `{short(par.func)}` without a literal function", construct=f"{short(n)} written raw")
                else:
                    ctx.ok("TAINT", f, n, what=f"{short(n)} -> {d or short(par.func)}(...) (not an output sink)", nontrivial=False)
                continue
            ctx.ok("TAINT", f, n, what=what, nontrivial=False)
    ctx.extra["taint_sites"] = n_sites


def _in_error_message(n: ast.AST, parents: Dict[int, ast.AST]) -> bool:
    cur: Optional[ast.AST] = n
    while cur is not None and not isinstance(cur, ast.stmt):
        par = parents.get(id(cur))
        if isinstance(par, ast.Call) and (dotted_of(par.func) or "").split(".")[-1] == "Error":
            return True
        cur = par
    return False


def _numeric_only(ft, n: ast.Attribute, env, stmt, parents) -> bool:
    """The interpolation sits in an arm guarded by ``isinstance(<same expr>, (int|float|bool))``."""
    key = ast.unparse(n)
    cur: Optional[ast.AST] = n
    while cur is not None:
        par = parents.get(id(cur))
        if isinstance(par, ast.If) and any(cur is b for b in par.body):
            t = par.test
            if isinstance(t, ast.Call) and dotted_of(t.func) == "isinstance" and len(t.args) == 2 and ast.unparse(t.args[0]) == key:
                kinds = {dotted_of(e) for e in (t.args[1].elts if isinstance(t.args[1], ast.Tuple) else [t.args[1]])}
                if kinds <= {"int", "float", "bool"}:
                    return True
        cur = par
    return False


def check_inline_block_comments(ctx) -> None:
    """A value interpolated between `/*` and `*/` on one line of a template ends the comment early if it contains `*/`.
    Each such hole is either an identifier (names of the generated code) or sits on a path on which `"*/" not in <value>`
    was established."""
    from ..rules import schema as S

    p = ctx.p
    n = 0
    for f in funcs(p, in_generators):
        parents = None
        art = None
        for j in [x for x in ast.walk(f.node) if isinstance(x, ast.JoinedStr)]:
            vals = j.values
            for i, v in enumerate(vals):
                if not isinstance(v, ast.FormattedValue):
                    continue
                before = "".join(str(x.value) for x in vals[:i] if isinstance(x, ast.Constant)).split("\n")[-1]
                after = "".join(str(x.value) for x in vals[i + 1:] if isinstance(x, ast.Constant)).split("\n")[0]
                if not ("/*" in before and "*/" not in before.split("/*")[-1] and "*/" in after):
                    continue
                n += 1
                if parents is None:
                    parents = S.parents_of(f)
                    art = artefacts(ctx.ty, f)
                    art.types.build()
                what = f"{f.qualname}: `{short(v.value)}` inside /* ... */"
                cur = j
                while cur is not None and not isinstance(cur, ast.stmt):
                    cur = parents.get(id(cur))
                env = (art.types.env_for(cur) if cur is not None else None) or art.types.final_env()
                t = strip_opt(art.types.type_of(v.value, env))
                tname = t.show() if hasattr(t, "show") else str(t)
                if "Identifier" in tname:
                    ctx.ok("BLOCK-END", f, j, what=what + " is an identifier")
                    continue
                key = ast.unparse(v.value)
                guards = S.guards_of(j, parents) + S.early_exit_guards(cur, f, parents)
                est = any((ast.unparse(tst) == f"'*/' not in {key}" and pol) or (ast.unparse(tst) == f"'*/' in {key}" and not pol) for tst, pol in guards)
                if est:
                    ctx.ok("BLOCK-END", f, j, what=what + " under `'*/' not in value`")
                else:
                    ctx.fail("BLOCK-END", f, j, f"`{short(v.value)}` ({tname}) is interpolated between `/*` and `*/` without `\"*/\" not in {key}` on the path: a value containing `*/` ends the comment early and the rest of the line is compiled as code", construct=what)
    ctx.extra["inline_block_comment_holes"] = n
