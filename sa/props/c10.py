"""C10 Python SDK serialization round-trips and rejects bad documents (DESIGN §4 C10)."""
import ast
from typing import Dict, List, Set, Tuple

from ..model import dotted_of, short, walk_function_body
from ..rules import err, exh, gen
from ..rules import schema as S
from ..scopes import PKG

CLAIM = (
    "writer/reader agreement of the Python SDK's (de)serializer GENERATORS, the part of round-tripping that is visible in their code: "
    "(1) WR-NAME: the generator of the writer and the generator of the reader derive the key of a property (JSON) / the tag of a property "
    "and of a class (XML) with the same naming function applied to the same IR attribute; (2) WR-ALL: both iterate cls.properties "
    "without skipping an element, the dispatch maps list the class itself (if concrete) and every concrete descendant; (3) MODELTYPE: "
    "the JSON writer emits modelType exactly under cls.serialization.with_model_type with the literal of json_model_type(cls.name), "
    "the reader's check and the dispatch keys use the same function; (4) every PrimitiveType has a parse function and the "
    "if/elif chains over type annotations and our types are exhaustive (EXH1/EXH2); (5) no error value is dropped in the two "
    "generators (ERR1-3); (6) WR-COND: the XML writer generator and the XML reader generator decide with the same predicate over the "
    "property's class whether a nested instance is wrapped in / dispatched on a discriminating element."
    " SKIPS: the loops of the functions in scope have no more `continue`, `break` or in-loop `return` statements than the reference "
    "read on the unchanged tree (baselines/skips.json): a new skip means elements that were handled are no longer handled."
    " LIT-KW: duplicate_curly_brackets / in_backticks / without_enclosing are passed to a literal function only inside "
    "transform_joined_str (a stand-alone literal emitted with them denotes another text)."
    " TAINT (shared with C20) and CHR (shared with C19): free text of the meta-model (XML namespace, literal values) reaches the generated (de)serializers only through the Python literal functions, and these denote their argument."
)
NOTE = (
    "Not decided: round-trip equality and `only the de-serialization error is raised` - both are properties of the execution of the "
    "GENERATED program on every instance / document, which no static argument over the generator reaches; the agreement above is a "
    "necessary condition only. The generated code itself is text inside templates and is not analysed."
)
TECHNIQUE = "static analysis: sibling agreement between writer and reader generators (naming calls, iterated collections, guards), type-directed exhaustiveness, error-discipline typestate"

JS = "python.lib._generate_jsonization"
XS = "python.lib._generate_xmlization"


def run(ctx) -> None:
    p = ctx.p
    ctx.rule("WR-NAME", "writer and reader generators name properties/classes with the same function of the same attribute", floor=4)
    ctx.rule("WR-ALL", "writer and reader generators handle every property / every concrete descendant", floor=7)
    ctx.rule("MODELTYPE", "modelType written iff with_model_type, same naming as the reader's check and the dispatch", floor=3)
    ctx.rule("EXH1", "chains over type annotations / our types exhaustive", floor=10)
    ctx.rule("EXH2", "primitive-type tables total", floor=2)
    ctx.rule("ERR1", "errors read", floor=0)
    ctx.rule("ERR1v", "values unused while error untested", floor=0)
    ctx.rule("ERR2", "no error-returning call dropped", floor=0)
    ctx.rule("ERR3", "collected errors returned", floor=0)
    pairs = [
        ("JSON property key", f"{JS}:_generate_transform", f"{JS}:_generate_setter_map", "json_property"),
        ("XML property tag", f"{XS}:_generate_snippet_for_writing_concrete_cls_prop", f"{XS}:_generate_reader_and_setter_map", "xml_property"),
        ("XML class tag", f"{XS}:_generate_visit_cls", f"{XS}:_generate_general_dispatch_map", "xml_class_name"),
        ("XML class tag (per class dispatch)", f"{XS}:_generate_visit_cls", f"{XS}:_generate_dispatch_map_for_class", "xml_class_name"),
    ]
    for what, wk, rk, fn in pairs:
        w, r = p.func(wk), p.func(rk)
        kind = fn.split("_", 1)[1].split("_")[0]  # property / class: compare the naming of the same kind of entity
        wn = {(a, b.split(".")[-1]) for a, b in gen.naming_calls(w) if a.startswith(("json_", "xml_")) and kind in a}
        rn = {(a, b.split(".")[-1]) for a, b in gen.naming_calls(r) if a.startswith(("json_", "xml_")) and kind in a}
        if (fn, "name") in wn and (fn, "name") in rn and wn == rn:
            ctx.ok("WR-NAME", w, w.node, what=f"{what}: writer {w.name} and reader {r.name} both use naming.{fn}(<x>.name)")
        else:
            ctx.fail("WR-NAME", w, w.node, f"{what}: the writer generator {w.name} names with {sorted(wn)}, the reader generator {r.name} with {sorted(rn)}: what is written is not what is looked up", construct=f"{what}: naming agreement")
    # the decision "is a class-typed value wrapped in a discriminating element / dispatched" must be the same on both sides
    ctx.rule("WR-COND", "writer and reader generators decide on the same predicate of the property's class whether a value is wrapped/dispatched", floor=1)

    def type_predicates(f) -> set:
        out = set()
        for n in walk_function_body(f.node):
            if isinstance(n, (ast.If, ast.IfExp)):
                for t in ([n.test] if not isinstance(n.test, ast.BoolOp) else n.test.values):
                    txt = ast.unparse(t)
                    if "our_type." in txt and not txt.startswith(("isinstance(", "not isinstance(")):
                        out.add(txt.replace("type_anno.items.our_type", "our_type").replace("type_anno.our_type", "our_type").replace("type_annotation.our_type", "our_type"))
        return out

    xr, xw = p.func(f"{XS}:_generate_reader_and_setter"), p.func(f"{XS}:_generate_write_cls_as_sequence")
    pr, pw = type_predicates(xr), type_predicates(xw)
    if pr and pr == pw:
        ctx.ok("WR-COND", xw, xw.node, what=f"XML reader and writer generators both decide on {sorted(pr)}")
    else:
        ctx.fail("WR-COND", xw, xw.node, f"the XML writer generator decides on {sorted(pw)} whether a class-typed value is wrapped in a discriminating element, the reader generator on {sorted(pr)}: for a class on which the two predicates differ the written document cannot be read back", construct="XML wrap/dispatch predicate agreement")
    opt = "isinstance({v}.type_annotation, intermediate.OptionalTypeAnnotation)"
    gen.check_full_iteration(ctx, "WR-ALL", p.func(f"{JS}:_generate_transform"), "properties", "JSON writer")
    gen.check_full_iteration(ctx, "WR-ALL", p.func(f"{JS}:_generate_setter_map"), "properties", "JSON reader map")
    gen.check_full_iteration(ctx, "WR-ALL", p.func(f"{JS}:_generate_setter"), "properties", "JSON setters")
    gen.check_full_iteration(ctx, "WR-ALL", p.func(f"{XS}:_generate_write_cls_as_sequence"), "properties", "XML writer")
    gen.check_full_iteration(ctx, "WR-ALL", p.func(f"{XS}:_generate_reader_and_setter_map"), "properties", "XML reader map")
    gen.check_full_iteration(ctx, "WR-ALL", p.func(f"{XS}:_generate_reader_and_setter"), "properties", "XML readers")
    for key in (f"{JS}:_generate_dispatch_map_for_abstract_class", f"{JS}:_generate_dispatch_map_for_concrete_class"):
        gen.check_full_iteration(ctx, "WR-ALL", p.func(key), "concrete_descendants", "JSON dispatch map")
    gen.check_full_iteration(ctx, "WR-ALL", p.func(f"{XS}:_generate_general_dispatch_map"), "concrete_classes", "XML dispatch map")
    # modelType
    w = p.func(f"{JS}:_generate_transform")
    parents = S.parents_of(w)
    mts = [n for n in walk_function_body(w.node) if isinstance(n, ast.JoinedStr) and any(isinstance(v, ast.Constant) and '"modelType"' in str(v.value) for v in n.values)]
    ctx.require_anchor(len(mts) == 1, 'the JSON writer emits jsonable["modelType"] once')
    g = [("" if pol else "not ") + ast.unparse(t) for t, pol in S.guards_of(mts[0], parents)]
    lit = [n for n in walk_function_body(w.node) if isinstance(n, ast.Assign) and dotted_of(n.targets[0]) == "model_type_literal"]
    ok_lit = lit and "naming.json_model_type(cls.name)" in ast.unparse(lit[0].value) and "string_literal" in ast.unparse(lit[0].value)
    if g == ["cls.serialization.with_model_type"] and ok_lit:
        ctx.ok("MODELTYPE", w, mts[0], what="modelType = literal(json_model_type(cls.name)) iff cls.serialization.with_model_type")
    else:
        ctx.fail("MODELTYPE", w, mts[0], f"modelType is written under {g} with `{short(lit[0].value) if lit else '?'}`; expected exactly under cls.serialization.with_model_type with the literal of naming.json_model_type(cls.name)", construct="modelType written")
    r = p.func(f"{JS}:_generate_concrete_class_from_jsonable")
    exp = [n for n in walk_function_body(r.node) if isinstance(n, ast.Assign) and dotted_of(n.targets[0]) == "expected_model_type"]
    if exp and ast.unparse(exp[0].value) == "naming.json_model_type(cls.name)":
        rg = [("" if pol else "not ") + ast.unparse(t) for t, pol in S.guards_of(exp[0], S.parents_of(r))]
        if any("cls.serialization.with_model_type" in x for x in rg):
            ctx.ok("MODELTYPE", r, exp[0], what="the reader checks modelType against json_model_type(cls.name) when with_model_type")
        else:
            ctx.fail("MODELTYPE", r, exp[0], f"the reader's modelType check is under {rg}", construct="modelType checked")
    else:
        ctx.fail("MODELTYPE", r, r.node, "the reader does not compare modelType with naming.json_model_type(cls.name)", construct="modelType checked")
    for key in (f"{JS}:_generate_dispatch_map_for_abstract_class", f"{JS}:_generate_dispatch_map_for_concrete_class"):
        d = p.func(key)
        nc = {(a, b) for a, b in gen.naming_calls(d) if a == "json_model_type"}
        want = {("json_model_type", "descendant.name")} | ({("json_model_type", "cls.name")} if "concrete" in key else set())
        if nc == want:
            ctx.ok("MODELTYPE", d, d.node, what=f"{d.name}: keys {sorted(b for _, b in nc)} through json_model_type")
        else:
            ctx.fail("MODELTYPE", d, d.node, f"{d.name} keys the dispatch with {sorted(nc)}, expected {sorted(want)}", construct=f"{d.name}: dispatch keys")
    for mk in (JS, XS):
        m = p.module(f"{PKG}.{mk}")
        for f in m.functions.values():
            exh.check_exh1(ctx, f, "EXH1")
            err.check_err12(ctx, f, "ERR1", "ERR1v", "ERR2")
            err.check_err3(ctx, f, "ERR3")
    exh.check_enum_keyed_dicts(ctx, "EXH2", modules=lambda m: m.name in (f"{PKG}.{JS}", f"{PKG}.{XS}"))

    ctx.rule("SKIPS", "the loops of the functions in scope have no more continue/break/return-in-loop statements than the reference read on the unchanged tree", floor=5)
    from ..rules import skips as _skips
    _base = _skips.load_baseline()
    for _m in ctx.p.modules.values():
        if _m.name in ("aas_core_codegen.python.lib._generate_jsonization", "aas_core_codegen.python.lib._generate_xmlization"):
            for _f in _m.functions.values():
                _skips.check_skips(ctx, _f, "SKIPS", _base)
    # what the (de)serializers embed from the meta-model (namespace, names, literal values) goes through the Python literal
    # functions, and these denote their argument (shared with C20 / C19): otherwise the SDK reads back another text than it wrote
    ctx.rule("TAINT", "free text of the meta-model reaches the generated Python (de)serializers only through literal functions (shared with C20)", floor=3)
    from . import c20 as _c20
    _c20.check_taint(ctx, scope=lambda m: m.name.startswith("aas_core_codegen.python.lib._generate_") and m.name.rsplit("_generate_", 1)[-1] in ("jsonization", "xmlization", "stringification"))
    ctx.rule("CHR", "python string/bytes literal functions: forbidden characters never raw, only legal escapes (shared with C19)", floor=40)
    from . import c19 as _c19
    from ..rules import chr as _C
    for _lang, _key, _modes in _c19.JOBS:
        if _lang != "python":
            continue
        _lf = ctx.p.func(_key)
        for _mode in _modes:
            for _part in _C.analyse_escaper(ctx, _lf, _mode, _C.spec_boundaries(_lang)):
                _C.judge(ctx, "CHR", _part, _lang)
    ctx.rule("LIT-KW", "interpolation-only options of the literal functions are used only for parts of interpolated strings", floor=4)
    from ..rules import litkw as _litkw
    _litkw.check_literal_keywords(ctx, "LIT-KW")