"""C04 Reported error locations point at the offending construct (DESIGN §4 C04)."""
import ast
import itertools
from typing import Dict, List, Optional, Tuple

from ..model import AnalysisError, dotted_of, short, walk_function_body

CLAIM = (
    "(1) the offset->(line, column) table built by common.LinenoColumner.__init__ is, for every text, the 1-based line and column "
    "of each non-newline character: the loop body is abstractly interpreted over the two character classes (newline / other) into an "
    "affine transfer function on (lineno, column) and the appended pair; the function is checked for the inductive form (line +1 exactly "
    "on newline, column +1 exactly on other characters, reset to a constant on newline) and against the reference numbering on all "
    "class sequences up to length 6; (2) error_message indexes the table with the START offset of atok.get_text_range(error.node), "
    "the table is built from the text of the same atok, and nested errors are rendered by the same function."
    " KEY (shared with C23): a cached parse is re-used only for exactly the text it was made from, so the reported locations refer to the file that was read."
)
NOTE = (
    "Trusted base: the small abstract interpreter for straight-line integer updates and `character == '\\n'` branches (a loop body it "
    "cannot interpret is an ANALYSIS-ERROR, never a pass); asttokens offsets index the text returned by get_text(tree). "
    "Not decided: whether each Error names the offending node."
)
TECHNIQUE = "static analysis: abstract interpretation of the position-table loop (affine/constant domain) + def-use of the index in error_message"

Form = Tuple[Optional[str], int]  # (pre-state variable or None, offset)


def _form(e: ast.AST, st: Dict[str, Form]) -> Form:
    if isinstance(e, ast.Constant) and isinstance(e.value, int) and not isinstance(e.value, bool):
        return (None, e.value)
    if isinstance(e, ast.Name) and e.id in st:
        return st[e.id]
    if isinstance(e, ast.BinOp) and isinstance(e.op, (ast.Add, ast.Sub)):
        l, r = _form(e.left, st), _form(e.right, st)
        sign = 1 if isinstance(e.op, ast.Add) else -1
        if r[0] is None:
            return (l[0], l[1] + sign * r[1])
        if l[0] is None and sign == 1:
            return (r[0], r[1] + l[1])
    raise AnalysisError(f"C04: cannot interpret integer expression `{short(e)}` in LinenoColumner.__init__")


def _is_newline_test(t: ast.AST, var: str) -> Optional[bool]:
    """True if `t` is true exactly for the newline character; False if exactly for the others."""
    if isinstance(t, ast.Compare) and len(t.ops) == 1:
        l, r = t.left, t.comparators[0]
        pair = None
        if isinstance(l, ast.Name) and l.id == var and isinstance(r, ast.Constant):
            pair = r.value
        elif isinstance(r, ast.Name) and r.id == var and isinstance(l, ast.Constant):
            pair = l.value
        if pair == "\n":
            if isinstance(t.ops[0], ast.Eq):
                return True
            if isinstance(t.ops[0], ast.NotEq):
                return False
    if isinstance(t, ast.UnaryOp) and isinstance(t.op, ast.Not):
        r = _is_newline_test(t.operand, var)
        return None if r is None else not r
    return None


def _interp(body: List[ast.stmt], st: Dict[str, Form], is_nl: bool, var: str, table: str, appended: List[Tuple[Form, Form]]) -> None:
    for s in body:
        if isinstance(s, ast.If):
            pol = _is_newline_test(s.test, var)
            if pol is None:
                raise AnalysisError(f"C04: cannot interpret branch `{short(s.test)}` in LinenoColumner.__init__")
            taken = s.body if (pol == is_nl) else s.orelse
            _interp(taken, st, is_nl, var, table, appended)
        elif isinstance(s, ast.Assign) and len(s.targets) == 1 and isinstance(s.targets[0], ast.Name):
            st[s.targets[0].id] = _form(s.value, st)
        elif isinstance(s, ast.AugAssign) and isinstance(s.target, ast.Name) and isinstance(s.op, (ast.Add, ast.Sub)):
            cur = st.get(s.target.id)
            if cur is None:
                raise AnalysisError("C04: augmented assignment to an unknown variable")
            r = _form(s.value, st)
            if r[0] is not None:
                raise AnalysisError("C04: non-constant increment")
            st[s.target.id] = (cur[0], cur[1] + (r[1] if isinstance(s.op, ast.Add) else -r[1]))
        elif isinstance(s, ast.Expr) and isinstance(s.value, ast.Call) and dotted_of(s.value.func) == f"{table}.append":
            a = s.value.args[0]
            if not (isinstance(a, ast.Tuple) and len(a.elts) == 2):
                raise AnalysisError("C04: positions.append argument is not a pair")
            appended.append((_form(a.elts[0], st), _form(a.elts[1], st)))
        elif isinstance(s, (ast.Pass, ast.Assert)) or (isinstance(s, ast.Expr) and isinstance(s.value, ast.Constant)):
            continue
        else:
            raise AnalysisError(f"C04: cannot interpret statement `{short(s)}` in LinenoColumner.__init__")


def run(ctx) -> None:
    p = ctx.p
    ctx.rule("KEY", "a cached parse is re-used only for exactly the text it was made from (full sha256 of the unmodified text): locations refer to the file that was read (shared with C23)", floor=3)
    from . import c23 as _c23
    _c23.check_key(ctx, "KEY")
    ctx.rule("NUM", "derived transfer function of the position-table loop equals 1-based line/column numbering", floor=3)
    ctx.rule("FLOW", "error_message uses the start offset of the node's text range in the table of the same atok; nested errors recurse", floor=4)
    ctx.rule("ORIGIN", "an error raised because of the type of one operand is attached to that operand's node, not to a sibling operand", floor=25)
    _check_origin(ctx)
    init = p.func("common:LinenoColumner.__init__")
    splits = [c for c in ast.walk(init.node) if isinstance(c, ast.Call) and isinstance(c.func, ast.Attribute) and c.func.attr == "splitlines"]
    if splits:
        ctx.fail("NUM", init, splits[0],
                 "the position table is built from str.splitlines(): it also breaks lines at form feed, vertical tab, FS/GS/RS, NEL, U+2028 and U+2029, "
                 "which the Python parser does not treat as line ends: every location after such a character is reported on a later line",
                 construct="position table")
        return
    loops = [n for n in init.node.body if isinstance(n, ast.For)]
    ctx.require_anchor(len(loops) == 1 and isinstance(loops[0].target, ast.Name), "LinenoColumner.__init__ has one character loop")
    loop = loops[0]
    var = loop.target.id
    # the table: the list appended to in the loop
    tables = {dotted_of(c.func.value) for c in ast.walk(loop) if isinstance(c, ast.Call) and isinstance(c.func, ast.Attribute) and c.func.attr == "append"}
    ctx.require_anchor(len(tables) == 1, "one table appended to in the loop")
    table = tables.pop()
    # initial constants
    init_state: Dict[str, int] = {}
    for s in init.node.body:
        if s is loop:
            break
        if isinstance(s, ast.Assign) and len(s.targets) == 1 and isinstance(s.targets[0], ast.Name) and isinstance(s.value, ast.Constant) and isinstance(s.value.value, int):
            init_state[s.targets[0].id] = s.value.value
    ctx.require_anchor(len(init_state) >= 2, "integer state initialised before the loop")
    trans = {}
    for is_nl in (False, True):
        st: Dict[str, Form] = {v: (v, 0) for v in init_state}
        appended: List[Tuple[Form, Form]] = []
        _interp(loop.body, st, is_nl, var, table, appended)
        if len(appended) != 1:
            ctx.fail("NUM", init, loop, f"the loop body appends {len(appended)} positions per character (class {'newline' if is_nl else 'other'})", construct="position table")
            return
        trans[is_nl] = (appended[0], dict(st))

    def ev(form: Form, state: Dict[str, int]) -> int:
        return (state[form[0]] if form[0] is not None else 0) + form[1]

    # reference check on all class sequences up to length 6
    bad = None
    n_seq = 0
    for L in range(1, 7):
        for seq in itertools.product((False, True), repeat=L):
            n_seq += 1
            state = dict(init_state)
            line, col = 1, 1
            for is_nl in seq:
                (fa, fb), post = trans[is_nl]
                got = (ev(fa, state), ev(fb, state))
                if not is_nl and got != (line, col) and bad is None:
                    bad = (seq, got, (line, col))
                state = {v: ev(f, state) for v, f in post.items()}
                if is_nl:
                    line, col = line + 1, 1
                else:
                    col += 1
    # inductive form: which variables carry line and column
    (fa_o, fb_o), post_o = trans[False]
    (fa_n, fb_n), post_n = trans[True]
    lv, cv = fa_o[0], fb_o[0]
    form_ok = (
        lv is not None and cv is not None and lv != cv
        and post_o[lv] == (lv, 0) and post_o[cv] == (cv, 1)
        and post_n[lv] == (lv, 1) and post_n[cv][0] is None
    )
    what = "position table"
    if bad is not None:
        seq, got, want = bad
        s = "".join("\\n" if x else "x" for x in seq)
        ctx.fail("NUM", init, loop,
                 f"for the text shape '{s}' the last character is given position {got} instead of {want} (1-based line and column)",
                 construct=what)
    elif not form_ok:
        ctx.fail("NUM", init, loop, "the update of (line, column) is not of the inductive form (line +1 on newline only, column +1 on other characters, constant reset on newline)", construct=what)
    else:
        ctx.ok("NUM", init, loop, what=f"transfer function matches the reference on {n_seq} class sequences and has the inductive form")
        ctx.ok("NUM", init, loop, what="first character is (1, 1)")
        ctx.ok("NUM", init, loop, what="first character after a newline is (line + 1, 1)")
    ctx.extra["sequences_checked"] = n_seq

    # the iterated text
    it = loop.iter
    txt_ok = isinstance(it, ast.Call) and dotted_of(it.func) == "atok.get_text" and it.args and dotted_of(it.args[0]) == "atok.tree"
    stored = {}
    for n in walk_function_body(init.node):
        if isinstance(n, ast.Assign) and isinstance(n.targets[0], ast.Attribute) and dotted_of(n.targets[0].value) == "self":
            stored[n.targets[0].attr] = n.value
    if txt_ok and isinstance(stored.get("atok"), ast.Name) and stored["atok"].id == "atok" and isinstance(stored.get("positions"), ast.Name) and stored["positions"].id == table:
        ctx.ok("FLOW", init, loop, what="table built from atok.get_text(atok.tree); self.atok = atok; self.positions = table")
    else:
        ctx.fail("FLOW", init, loop, "the table is not built from the full text of the atok that is stored for later offset look-ups", construct="table source")

    em = p.func("common:LinenoColumner.error_message")
    rng = [n for n in walk_function_body(em.node) if isinstance(n, ast.Assign) and isinstance(n.value, ast.Call) and dotted_of(n.value.func) == "self.atok.get_text_range"]
    ctx.require_anchor(len(rng) == 1, "error_message calls self.atok.get_text_range once")
    r = rng[0]
    arg = r.value.args[0] if r.value.args else next((k.value for k in r.value.keywords if k.arg == "node"), None)
    start_name = None
    if isinstance(r.targets[0], ast.Tuple) and len(r.targets[0].elts) == 2 and isinstance(r.targets[0].elts[0], ast.Name):
        start_name = r.targets[0].elts[0].id
    if arg is not None and dotted_of(arg) == "error.node" and start_name is not None:
        ctx.ok("FLOW", em, r, what="start offset = first element of get_text_range(error.node)")
    else:
        ctx.fail("FLOW", em, r, "the offset used is not the start of the text range of error.node", construct="range start")
    subs = [n for n in walk_function_body(em.node) if isinstance(n, ast.Subscript) and dotted_of(n.value) == "self.positions"]
    ctx.require_anchor(len(subs) >= 1, "error_message indexes self.positions")
    if all(isinstance(s.slice, ast.Name) and s.slice.id == start_name for s in subs):
        ctx.ok("FLOW", em, subs[0], what="self.positions[start]")
    else:
        ctx.fail("FLOW", em, subs[0], f"self.positions is indexed with `{short(subs[0].slice)}`, not with the start offset", construct="table index")
    # unpack order (lineno, column) and use in the prefix
    unpack = [n for n in walk_function_body(em.node) if isinstance(n, ast.Assign) and n.value in subs]
    prefix = [n for n in walk_function_body(em.node) if isinstance(n, ast.JoinedStr) and any(isinstance(v, ast.Constant) and "line" in str(v.value) for v in n.values)]
    ok_order = False
    if unpack and isinstance(unpack[0].targets[0], ast.Tuple) and prefix:
        a, b = [e.id for e in unpack[0].targets[0].elts]
        holes = [dotted_of(v.value) for v in prefix[0].values if isinstance(v, ast.FormattedValue)]
        # the hole following the text "line" is the first tuple element, the one after "column" the second
        parts = prefix[0].values
        seq = []
        for i, v in enumerate(parts):
            if isinstance(v, ast.FormattedValue):
                before = "".join(str(x.value) for x in parts[:i] if isinstance(x, ast.Constant))
                seq.append((before.rfind("line"), before.rfind("column"), dotted_of(v.value)))
        if len(seq) == 2 and seq[0][2] == a and seq[1][2] == b and seq[0][0] > seq[0][1] and seq[1][1] > seq[1][0]:
            ok_order = True
    if ok_order:
        ctx.ok("FLOW", em, unpack[0], what="(lineno, column) unpacked in table order and printed after 'line'/'column'")
    else:
        ctx.fail("FLOW", em, em.node, "line and column of the table entry are swapped or not printed in the location prefix", construct="prefix order")
    rec = [c for c in ast.walk(em.node) if isinstance(c, ast.Call) and dotted_of(c.func) == "self.error_message"]
    if rec:
        ctx.ok("FLOW", em, rec[0], what="underlying errors rendered by the same function")
    else:
        ctx.fail("FLOW", em, em.node, "nested errors are not rendered through error_message (their locations are lost)", construct="recursion")


def _check_origin(ctx) -> None:
    """``v = self.transform(node.<b>)`` ... ``if <test of v>: Error(node.<a>.original_node, ...)``: the innermost test
    that mentions such variables decides which operand is offending; the error node must be that operand (or the whole
    ``node``), not a sibling operand."""
    p = ctx.p
    for f in p.all_functions():
        if f.cls is None or not f.name.startswith(("transform_", "visit_")):
            continue
        defs: Dict[str, set] = {}
        for n in walk_function_body(f.node):
            if isinstance(n, ast.Assign) and len(n.targets) == 1 and isinstance(n.targets[0], ast.Name) and isinstance(n.value, ast.Call) \
                    and dotted_of(n.value.func) in ("self.transform", "self.visit") and n.value.args:
                d = dotted_of(n.value.args[0])
                if d is not None and d.startswith("node."):
                    defs.setdefault(n.targets[0].id, set()).add(d)
        if not defs:
            continue
        parents = {}
        for n in ast.walk(f.node):
            for c in ast.iter_child_nodes(n):
                parents[id(c)] = n
        for n in walk_function_body(f.node):
            if not (isinstance(n, ast.Call) and dotted_of(n.func) == "Error" and n.args):
                continue
            a = dotted_of(n.args[0])
            if a is None or not a.endswith(".original_node"):
                continue
            subj = a[: -len(".original_node")]
            cur: ast.AST = n
            tested: set = set()
            while id(cur) in parents:
                par = parents[id(cur)]
                if isinstance(par, ast.If) and any(cur is b for b in par.body + par.orelse):
                    tested = {x.id for x in ast.walk(par.test) if isinstance(x, ast.Name) and x.id in defs}
                    if tested:
                        break
                cur = par
            srcs = set()
            for v in tested:
                srcs |= defs[v]
            if not srcs:
                continue
            what = f"Error({a}) under a test of {sorted(tested)} (from {sorted(srcs)})"
            if subj in srcs or subj == "node":
                ctx.ok("ORIGIN", f, n, what=what)
            else:
                ctx.fail("ORIGIN", f, n,
                         f"the error is raised because of {sorted(tested)} (computed from {sorted(srcs)}), but it is attached to `{a}`: the reported line and column are those of a sibling operand, not of the offending one",
                         construct=f"Error({a}) for {sorted(srcs)}")
