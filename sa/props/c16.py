"""C16 Regex front end is total and faithful (DESIGN §4 C16)."""
import ast
from typing import Any, Dict, FrozenSet, List, Optional, Set, Tuple

from ..flow import artefacts, calls_in, set_dataflow, find_calls, kwarg
from ..model import dotted_of, short, norm, walk_function_body
from ..rules import cursor as cur_rules
from ..rules import err, fmt, lin, exh

CLAIM = (
    "totality half: (1) every call of _parse_range_char establishes its cursor preconditions (not done, no dash ahead) by the cursor "
    "typestate; (2) no `raise AssertionError` arm of _parse_char_literal is reachable given the literals its caller has already excluded; "
    "(3) no `assert x is None` in the parser can be reached with a value definitely assigned non-None; (4) Quantifier(min, max) is only "
    "constructed with constants satisfying its @require or under an established min <= max; (5) numeric format specs are applied to numbers; "
    "(6) _parse_ranges_and_closing cannot return an empty list of ranges; (7) no parser error value is dropped (ERR1-3). "
    "Faithfulness half, necessary conditions only: (8) every escape the renderer emits has a parser arm producing the same character and "
    "every character the parser can produce as a literal and treats as syntax is escaped by the renderer (literal and range tables); "
    "(9) Cursor.copy carries the mutable position state (error pointers are rendered from copies); (10) Renderer implements every node kind."
    " SKIPS: the loops of the functions in scope have no more `continue`, `break` or in-loop `return` statements than the reference "
    "read on the unchanged tree (baselines/skips.json): a new skip means elements that were handled are no longer handled."
    " KEYED: a local mapping that is subscripted with the elements of a local list receives an entry for every element appended to that list "
    "(otherwise the report that uses the mapping raises KeyError)."
)
NOTE = (
    "Trusted base: the cursor typestate transfer functions (try_literal/peek_literal/done semantics as documented on Cursor), the frozen "
    "reading of @require lambdas of _parse_range_char and Quantifier. Not decided: equality of the language of a pattern and of its rendering."
)
TECHNIQUE = "static analysis: cursor typestate on the CFG (must-facts), interprocedural import of call-site facts, nullness dataflow, table agreement parser<->renderer"

PARSE = "parse.retree._parse"


def run(ctx) -> None:
    p = ctx.p
    ctx.rule("PRE-CURSOR", "call sites of _parse_range_char establish `not cursor.done()` and `not cursor.peek_literal('-')`", floor=2)
    ctx.rule("ARM", "`raise AssertionError` arms of _parse_char_literal are unreachable from its call site", floor=5)
    ctx.rule("ASSERT-NONE", "`assert x is None` is not reachable with x definitely non-None", floor=0)
    ctx.rule("RANGE-END", "every branch of Renderer.transform_char_set that emits the start of a range also handles its end", floor=2)
    ctx.rule("PRE-QUANT", "Quantifier(...) preconditions hold at construction sites", floor=8)
    ctx.rule("FMT", "numeric format specs are applied to numbers (retree package)", floor=3)
    ctx.rule("NONEMPTY", "_parse_ranges_and_closing never returns an empty list of ranges", floor=1)
    ctx.rule("ESC-TAB", "parser escape arms and renderer escape tables agree (literals and ranges)", floor=25)
    ctx.rule("COPY", "Cursor.copy carries every mutable attribute of the cursor", floor=1)
    ctx.rule("EXH3", "Renderer implements every node kind of the regex tree", floor=1)
    ctx.rule("ERR1", "error of a pair read on all paths", floor=10)
    ctx.rule("ERR1v", "value not used while error untested", floor=10)
    ctx.rule("ERR2", "no error-returning call dropped", floor=0)
    ctx.rule("ERR3", "error accumulators not dropped", floor=0)

    _check_range_char_preconditions(ctx)
    _check_assertion_arms(ctx)
    _check_assert_none(ctx)
    _check_quantifier(ctx)
    for m in p.modules.values():
        if m.name.startswith("aas_core_codegen.parse.retree"):
            for f in m.functions.values():
                fmt.check_format_specs(ctx, f, "FMT")
                err.check_err12(ctx, f, "ERR1", "ERR1v", "ERR2")
                err.check_err3(ctx, f, "ERR3")
    _check_nonempty_ranges(ctx)
    _check_escape_tables(ctx)
    _check_copy(ctx)
    _check_range_end(ctx)
    exh.check_visitor_complete(ctx, "EXH3", p.cls("parse.retree._types:Transformer"))
    exh.check_visitor_complete(ctx, "EXH3", p.cls("parse.retree._types:Visitor"))


# ---------------------------------------------------------------------------
    ctx.rule("SKIPS", "the loops of the functions in scope have no more continue/break/return-in-loop statements than the reference read on the unchanged tree", floor=5)
    from ..rules import skips as _skips
    _base = _skips.load_baseline()
    for _m in ctx.p.modules.values():
        if _m.name.startswith("aas_core_codegen.parse.retree"):
            for _f in _m.functions.values():
                _skips.check_skips(ctx, _f, "SKIPS", _base)
    ctx.rule("KEYED", "a local mapping subscripted with elements of a local list has an entry for every appended element", floor=1)
    from ..rules import keyed as _keyed
    for _m in ctx.p.modules.values():
        if _m.name.startswith("aas_core_codegen.parse.retree"):
            for _f in _m.functions.values():
                _keyed.check_keyed(ctx, _f, "KEYED")


def _call_nodes(cfg, name: str):
    out = []
    for node in cfg.nodes:
        for c in calls_in(node):
            if dotted_of(c.func) == name:
                out.append((node, c))
    return out


def _check_range_char_preconditions(ctx) -> None:
    p = ctx.p
    callee = p.func(f"{PARSE}:_parse_range_char")
    # read the @require lambdas
    need_notdone = need_nodash = False
    for d in callee.node.decorator_list:
        if isinstance(d, ast.Call) and dotted_of(d.func) == "require" and d.args and isinstance(d.args[0], ast.Lambda):
            b = norm(d.args[0].body)
            if b == "not cursor.done()":
                need_notdone = True
            if b == "not cursor.peek_literal('-')":
                need_nodash = True
    ctx.require_anchor(need_notdone and need_nodash, "_parse_range_char declares its two cursor preconditions")
    caller = p.func(f"{PARSE}:_parse_ranges_and_closing")
    art = artefacts(ctx.ty, caller)
    IN = cur_rules.cursor_facts(art.cfg, "cursor")
    sites = _call_nodes(art.cfg, "_parse_range_char")
    ctx.require_anchor(len(sites) >= 2, "_parse_ranges_and_closing calls _parse_range_char for start and end")
    for i, (node, call) in enumerate(sites):
        st = IN.get(node.id, frozenset())
        which = "start" if i == 0 else "end"
        for lbl, ok in (("not cursor.done()", "notdone" in st), ("not cursor.peek_literal('-')", cur_rules.implies_nopeek(st, "-"))):
            what = f"{which} character: {lbl}"
            if ok:
                ctx.ok("PRE-CURSOR", caller, call, what=what)
            else:
                ctx.fail("PRE-CURSOR", caller, call,
                         f"_parse_range_char is called for the {which} of a range without establishing its precondition `{lbl}` "
                         f"(facts known: {sorted(map(str, st))}): the icontract precondition fails with a ViolationError on such input",
                         construct=what)


def _check_assertion_arms(ctx) -> None:
    p = ctx.p
    caller = p.func(f"{PARSE}:_parse_concatenation")
    callee = p.func(f"{PARSE}:_parse_char_literal")
    art = artefacts(ctx.ty, caller)
    IN = cur_rules.cursor_facts(art.cfg, "cursor")
    sites = _call_nodes(art.cfg, "_parse_char_literal")
    ctx.require_anchor(len(sites) == 1, "_parse_char_literal has one call site in _parse_concatenation")
    site_facts = IN.get(sites[0][0].id, frozenset())
    # other callers?
    for f in p.all_functions():
        if f is caller:
            continue
        for c in find_calls(f.node, lambda c: dotted_of(c.func) == "_parse_char_literal"):
            ctx.fail("ARM", f, c, "a second caller of _parse_char_literal: its assertion arms are judged for one call site only", construct="second caller")
    cart = artefacts(ctx.ty, callee)
    CIN = cur_rules.cursor_facts(cart.cfg, "cursor", init=site_facts)
    n = 0
    for node in cart.cfg.nodes:
        if node.kind != "raise" or node.id not in CIN:
            continue
        exc = node.expr
        name = dotted_of(exc.func) if isinstance(exc, ast.Call) else dotted_of(exc) if exc is not None else None
        if name != "AssertionError":
            continue
        n += 1
        # which literal leads here: the test node predecessor
        lit = None
        for pid, lab in node.preds:
            pn = cart.cfg.nodes[pid]
            if pn.kind == "test" and pn.expr is not None:
                t = cur_rules.cursor_test(pn.expr, "cursor")
                if t is not None:
                    lit = t[1]
        ctx.fail("ARM", callee, node.stmt,
                 f"the arm for {lit!r} raises AssertionError and is reachable: the caller _parse_concatenation does not consume {lit!r} "
                 f"before falling through to _parse_char_literal, so a pattern with {lit!r} at that position crashes",
                 construct=f"arm {lit!r} raises AssertionError")
    # unreachable arms are obligations discharged
    for node in cart.cfg.nodes:
        if node.kind == "raise" and node.id not in CIN:
            exc = node.expr
            name = dotted_of(exc.func) if isinstance(exc, ast.Call) else None
            if name == "AssertionError":
                ctx.ok("ARM", callee, node.stmt, what=f"AssertionError arm at statement `{short(node.stmt, 60)}` unreachable from the call site")


def _check_assert_none(ctx) -> None:
    """``assert x is None``: x has no reaching definition that is definitely non-None."""
    p = ctx.p
    for f in p.module(PARSE).functions.values():
        asserts = [n for n in walk_function_body(f.node) if isinstance(n, ast.Assert)
                   and isinstance(n.test, ast.Compare) and len(n.test.ops) == 1 and isinstance(n.test.ops[0], ast.Is)
                   and isinstance(n.test.left, ast.Name) and isinstance(n.test.comparators[0], ast.Constant) and n.test.comparators[0].value is None]
        if not asserts:
            continue
        art = artefacts(ctx.ty, f)
        for a in asserts:
            var = a.test.left.id

            def transfer(node, st, var=var):
                s = node.stmt
                if node.kind == "stmt" and isinstance(s, (ast.Assign, ast.AnnAssign)):
                    tgts = s.targets if isinstance(s, ast.Assign) else [s.target]
                    for t in tgts:
                        if isinstance(t, ast.Name) and t.id == var and s.value is not None:
                            v = s.value
                            if isinstance(v, ast.Constant) and v.value is None:
                                return ["none"]
                            if isinstance(v, ast.Call) and isinstance(ctx.p.resolve_expr(f.module, v.func), tuple) and ctx.p.resolve_expr(f.module, v.func)[0] == "class":
                                return ["nonnone"]
                            return ["?"]
                        if isinstance(t, ast.Tuple) and any(isinstance(e, ast.Name) and e.id == var for e in t.elts):
                            return ["?"]
                return [st]

            def edge(node, st, label, var=var):
                if node.kind == "test" and node.expr is not None and label in (True, False):
                    e = node.expr
                    if isinstance(e, ast.Compare) and isinstance(e.left, ast.Name) and e.left.id == var and isinstance(e.comparators[0], ast.Constant) and e.comparators[0].value is None:
                        is_none = isinstance(e.ops[0], ast.Is) == label
                        if st == "nonnone" and is_none:
                            return None
                        if st == "none" and not is_none:
                            return None
                        if not isinstance(node.owner, ast.Assert):
                            return "none" if is_none else "nonnone"
                return st

            IN = set_dataflow(art.cfg, frozenset(["?"]), transfer, edge)
            tests = [n for n in art.cfg.nodes if n.kind == "test" and n.owner is a]
            bad = any("nonnone" in IN.get(n.id, frozenset()) for n in tests)
            what = f"assert {var} is None"
            if bad:
                ctx.fail("ASSERT-NONE", f, a, f"`{short(a, 80)}` is reached on a path where `{var}` was just assigned a constructed object: the assertion fails on such input instead of an error being reported", construct=what)
            else:
                ctx.ok("ASSERT-NONE", f, a, what=what)


def _check_quantifier(ctx) -> None:
    p = ctx.p
    qcls = p.cls("parse.retree._types:Quantifier")
    init = qcls.methods["__init__"]
    reqs = [norm(d.args[0].body) for d in init.node.decorator_list if isinstance(d, ast.Call) and dotted_of(d.func) == "require" and d.args and isinstance(d.args[0], ast.Lambda)]
    ctx.require_anchor(any("minimum <= maximum" in r or "maximum >= minimum" in r for r in reqs), "Quantifier.__init__ requires minimum <= maximum")
    for m in p.modules.values():
        if not m.name.startswith("aas_core_codegen.parse.retree"):
            continue
        for f in m.functions.values():
            calls = [c for c in find_calls(f.node, lambda c: dotted_of(c.func) in ("Quantifier", "retree.Quantifier", "parse_retree.Quantifier")) ]
            if not calls:
                continue
            art = None
            for c in calls:
                mn = kwarg(c, "minimum", 0)
                mx = kwarg(c, "maximum", 1)
                what = f"Quantifier(minimum={short(mn) if mn is not None else '?'}, maximum={short(mx) if mx is not None else '?'})"
                cmn = mn.value if isinstance(mn, ast.Constant) else None
                cmx = mx.value if isinstance(mx, ast.Constant) else "?"
                if isinstance(mn, ast.Constant) and isinstance(mx, ast.Constant):
                    ok = isinstance(cmn, int) and cmn >= 0 and (cmx is None or (isinstance(cmx, int) and cmx >= 0 and cmn <= cmx))
                    if ok:
                        ctx.ok("PRE-QUANT", f, c, what=what)
                    else:
                        ctx.fail("PRE-QUANT", f, c, f"{what} violates the constructor's @require", construct=what)
                    continue
                # copies of an existing quantifier's fields are fine (already validated)
                if all(isinstance(x, ast.Attribute) and x.attr in ("minimum", "maximum") for x in (mn, mx) if x is not None):
                    ctx.ok("PRE-QUANT", f, c, what=what + " (fields of an existing quantifier)")
                    continue
                # need an established `mn <= mx` or `mx is None` on every path
                if art is None:
                    art = artefacts(ctx.ty, f)
                node = next((n for n in art.cfg.nodes if any(cc is c for cc in calls_in(n))), None)
                proved = False
                if node is not None and mn is not None and mx is not None:
                    need = lin.need_le(mn, mx)
                    states = _path_states(art.cfg).get(node.id, frozenset([frozenset()]))
                    mxn = dotted_of(mx)
                    proved = bool(states) and all(
                        (need is not None and lin.implied(need, [x for x in st if isinstance(x, tuple) and x and x[0] != "isnone"]))
                        or (mxn is not None and ("isnone", mxn) in st)
                        for st in states
                    )
                if proved:
                    ctx.ok("PRE-QUANT", f, c, what=what + " under an established bound")
                else:
                    ctx.fail("PRE-QUANT", f, c,
                             f"{what}: nothing on the paths to this call establishes minimum <= maximum (or maximum is None); "
                             f"a quantifier such as {{5,3}} violates the constructor's precondition with a ViolationError",
                             construct=what)


def _path_states(cfg):
    """Disjunctive path facts: per node a set of states, each a frozenset of
    difference constraints and ("isnone", name) facts established by branches."""
    from ..flow import stores

    def names_of(fact):
        if fact[0] == "isnone":
            return {fact[1].split(".")[0]}
        return {sym.split("(")[-1].rstrip(")").split(".")[0] for sym, _ in fact[0]}

    def transfer(n, st):
        killed = stores(n)
        if killed:
            st = frozenset(x for x in st if not (names_of(x) & killed))
        return [st]

    def edge(n, st, label):
        if n.kind == "test" and n.expr is not None and label in (True, False) and not isinstance(n.owner, ast.Assert):
            e = n.expr
            add = set(lin.constraints_of(e, label))
            if isinstance(e, ast.Compare) and len(e.ops) == 1 and isinstance(e.comparators[0], ast.Constant) and e.comparators[0].value is None and dotted_of(e.left):
                is_none = isinstance(e.ops[0], ast.Is) == label
                if is_none:
                    add.add(("isnone", dotted_of(e.left)))
            if add:
                return st | frozenset(add)
        return st

    return set_dataflow(cfg, frozenset([frozenset()]), transfer, edge)


def _check_nonempty_ranges(ctx) -> None:
    p = ctx.p
    f = p.func(f"{PARSE}:_parse_ranges_and_closing")
    art = artefacts(ctx.ty, f)
    var = "ranges"
    E, N = "empty", "nonempty"

    def transfer(node, st):
        s = node.stmt
        if node.kind == "stmt" and isinstance(s, (ast.Assign, ast.AnnAssign)):
            tgts = s.targets if isinstance(s, ast.Assign) else [s.target]
            if any(isinstance(t, ast.Name) and t.id == var for t in tgts):
                v = s.value
                return [E if isinstance(v, ast.List) and not v.elts else N if isinstance(v, ast.List) else "?"]
        if node.kind == "stmt" and isinstance(s, ast.Expr) and isinstance(s.value, ast.Call) and dotted_of(s.value.func) in (f"{var}.append", f"{var}.insert"):
            return [N]
        return [st]

    def edge(node, st, label):
        if node.kind == "test" and node.expr is not None and label in (True, False) and not isinstance(node.owner, ast.Assert):
            r = err._emptiness_test(node.expr, var)
            if r is not None:
                nonempty = (label == r)
                if nonempty and st == E:
                    return None
                if not nonempty and st == N:
                    return None
                return N if nonempty else E
        return st

    IN = set_dataflow(art.cfg, frozenset(["?"]), transfer, edge)
    rets = [n for n in art.cfg.nodes if n.kind == "return" and isinstance(n.expr, ast.Tuple) and isinstance(n.expr.elts[0], ast.Name) and n.expr.elts[0].id == var]
    ctx.require_anchor(len(rets) >= 1, "_parse_ranges_and_closing returns `ranges, None`")
    for r in rets:
        st = IN.get(r.id, frozenset())
        if E in st or "?" in st:
            ctx.fail("NONEMPTY", f, r.stmt, "`ranges` can be empty at the success return: the character set `[]` is accepted and rendered as an invalid regular expression", construct="return ranges, None")
        else:
            ctx.ok("NONEMPTY", f, r.stmt, what="ranges is non-empty at the success return")


def _escape_arms(func) -> Dict[str, str]:
    """escape literal -> produced character, from ``try_literal(esc)`` arms whose
    body assigns ``Char(character=<const>)``."""
    out: Dict[str, str] = {}
    for n in ast.walk(func.node):
        if isinstance(n, ast.If):
            t = cur_rules.cursor_test(n.test, "cursor")
            if t is None or t[0] != "try" or t[1] is None:
                continue
            for s in n.body:
                if isinstance(s, ast.Assign) and isinstance(s.value, ast.Call) and dotted_of(s.value.func) == "Char":
                    ch = kwarg(s.value, "character", 0)
                    if isinstance(ch, ast.Constant) and isinstance(ch.value, str):
                        out[t[1]] = ch.value
    return out


def _syntax_literals(funcs) -> Set[str]:
    """Single characters that the parser functions treat as syntax (try/peek arms)."""
    out: Set[str] = set()
    for f in funcs:
        for n in ast.walk(f.node):
            t = cur_rules.cursor_test(n, "cursor") if isinstance(n, ast.Call) else None
            if t is not None and t[0] in ("try", "peek") and t[1]:
                lit = t[1]
                if not lit.startswith("\\"):
                    out.add(lit[0])
                    if lit in ("[^",):
                        out.add("^")
                else:
                    out.add("\\")
    return out


def _dict_of(ci, name: str) -> Dict[str, str]:
    v = ci.assigns.get(name)
    if not isinstance(v, ast.Dict):
        return {}
    out = {}
    for k, val in zip(v.keys, v.values):
        if isinstance(k, ast.Constant) and isinstance(val, ast.Constant):
            out[k.value] = val.value
    return out


def _check_escape_tables(ctx) -> None:
    p = ctx.p
    renderer = p.cls("parse.retree._render:Renderer")
    lit_tab = _dict_of(renderer, "_ESCAPING_IN_CHARACTER_LITERALS")
    rng_tab = _dict_of(renderer, "_ESCAPING_IN_RANGE")
    ctx.require_anchor(len(lit_tab) >= 10 and len(rng_tab) >= 5, "renderer escape tables found")
    f_lit = p.func(f"{PARSE}:_parse_char_literal")
    f_rng = p.func(f"{PARSE}:_parse_range_char")
    f_conc = p.func(f"{PARSE}:_parse_concatenation")
    f_rc = p.func(f"{PARSE}:_parse_ranges_and_closing")
    arms_lit = _escape_arms(f_lit)
    arms_rng = _escape_arms(f_rng)
    ctx.require_anchor(len(arms_lit) >= 10 and len(arms_rng) >= 5, "parser escape arms found")
    where = (renderer.module.relpath, renderer.qualname)
    for tab_name, tab, arms, pf in (("_ESCAPING_IN_CHARACTER_LITERALS", lit_tab, arms_lit, f_lit), ("_ESCAPING_IN_RANGE", rng_tab, arms_rng, f_rng)):
        for ch, esc in sorted(tab.items()):
            what = f"{tab_name}[{ch!r}] = {esc!r} has a parser arm"
            if arms.get(esc) == ch:
                ctx.ok("ESC-TAB", where, renderer.node, what=what)
            else:
                ctx.fail("ESC-TAB", where, renderer.node,
                         f"the renderer escapes {ch!r} as {esc!r} but {pf.qualname} has no arm `{esc}` -> Char({ch!r}): the rendering of a pattern containing {ch!r} does not re-parse",
                         construct=what)
    # characters the parser can produce from an escape and treats as syntax when raw must be escaped by the renderer
    syn_lit = _syntax_literals([f_conc, f_lit])
    syn_rng = _syntax_literals([f_rc, f_rng]) | {"^"}  # "[^" is tried by the caller: a leading ^ complements
    # the renderer may escape a leading caret in a dedicated branch instead of through the table
    tcs = renderer.methods.get("transform_char_set")
    if tcs is not None:
        cmp_caret = any(isinstance(n, ast.Compare) and isinstance(n.comparators[0], ast.Constant) and n.comparators[0].value == "^" and isinstance(n.left, ast.Attribute) and n.left.attr == "character" for n in ast.walk(tcs.node))
        emits = any(isinstance(n, ast.Constant) and n.value == "\\^" for n in ast.walk(tcs.node))
        first = any(isinstance(n, ast.Compare) and isinstance(n.left, ast.Name) and isinstance(n.comparators[0], ast.Constant) and n.comparators[0].value == 0 for n in ast.walk(tcs.node))
        # the guard of that branch may only consist of the conditions under which a raw caret WOULD complement the set:
        # first range, the character is a caret, it is not numerically encoded, nothing was written before.  Any further
        # conjunct (e.g. "the range has no end") leaves a leading caret unescaped in the remaining cases.
        extra = []
        branch = None
        for n in ast.walk(tcs.node):
            if isinstance(n, ast.If) and any(isinstance(c, ast.Constant) and c.value == "\\^" for s_ in n.body for c in ast.walk(s_)):
                branch = n
        if branch is not None:
            conj = branch.test.values if isinstance(branch.test, ast.BoolOp) and isinstance(branch.test.op, ast.And) else [branch.test]
            for c in conj:
                t = ast.unparse(c)
                allowed = (
                    (isinstance(c, ast.Compare) and isinstance(c.comparators[0], ast.Constant) and c.comparators[0].value in (0, "^"))
                    or t.endswith("explicitly_encoded") and t.startswith("not ")
                    or t.startswith("not already_output")
                )
                if not allowed:
                    extra.append(t)
        if cmp_caret and emits and first and branch is not None and not extra:
            syn_rng.discard("^")
            ctx.ok("ESC-TAB", tcs, tcs.node, what="leading caret of a set escaped in a dedicated branch of transform_char_set (guard: first range, caret, not encoded, nothing written)")
        elif cmp_caret and emits and first and extra:
            ctx.fail("ESC-TAB", tcs, branch,
                     f"the branch that escapes a leading caret also requires {extra}: in the other cases a set whose first range starts with `^` is rendered with a raw caret and becomes a complementing set",
                     construct="leading caret branch has extra conditions")
            syn_rng.discard("^")
    for arms, tab, syn, ctxname, pf in ((arms_lit, lit_tab, syn_lit, "literal", f_lit), (arms_rng, rng_tab, syn_rng, "range", f_rng)):
        for esc, ch in sorted(arms.items()):
            if ch not in syn:
                continue
            what = f"{ctxname}: parser yields Char({ch!r}) from {esc!r}; renderer escapes it"
            if ch in tab:
                ctx.ok("ESC-TAB", pf, pf.node, what=what)
            else:
                ctx.fail("ESC-TAB", pf, pf.node,
                         f"the parser accepts {esc!r} as the character {ch!r}, which is syntax when written raw in a {ctxname}, but the renderer does not escape it: re-rendering changes the meaning of the pattern",
                         construct=what)


def _check_copy(ctx) -> None:
    p = ctx.p
    ci = p.cls(f"{PARSE}:Cursor")
    cp = ci.methods.get("copy")
    ctx.require_anchor(cp is not None, "Cursor.copy exists")
    # attributes assigned outside __init__ (mutable state)
    mutable = set()
    for name, m in ci.methods.items():
        if name in ("__init__", "copy"):
            continue
        for n in ast.walk(m.node):
            if isinstance(n, (ast.Assign, ast.AugAssign, ast.AnnAssign)):
                tgts = n.targets if isinstance(n, ast.Assign) else [n.target]
                for t in tgts:
                    if isinstance(t, ast.Attribute) and isinstance(t.value, ast.Name) and t.value.id == "self":
                        mutable.add(t.attr)
    ctx.require_anchor(len(mutable) >= 2, "Cursor has mutable position attributes")
    carried = set()
    for n in ast.walk(cp.node):
        if isinstance(n, ast.Assign):
            for t in n.targets:
                if isinstance(t, ast.Attribute) and not (isinstance(t.value, ast.Name) and t.value.id == "self"):
                    if any(isinstance(x, ast.Attribute) and isinstance(x.value, ast.Name) and x.value.id == "self" and x.attr.lstrip("_") == t.attr.lstrip("_") for x in ast.walk(n.value)):
                        carried.add(t.attr)
        if isinstance(n, ast.Call):
            for kw in n.keywords:
                if kw.arg and any(isinstance(x, ast.Attribute) and isinstance(x.value, ast.Name) and x.value.id == "self" and x.attr.lstrip("_") == kw.arg.lstrip("_") for x in ast.walk(kw.value)):
                    carried.add(kw.arg if kw.arg.startswith("_") else "_" + kw.arg)
                    carried.add(kw.arg)
        if isinstance(n, ast.Call) and dotted_of(n.func) in ("copy.copy", "copy.deepcopy") and n.args and dotted_of(n.args[0]) == "self":
            carried |= mutable
    missing = sorted(a for a in mutable if a not in carried)
    where = (ci.module.relpath, cp.qualname)
    if missing:
        ctx.fail("COPY", where, cp.node, f"Cursor.copy() does not carry {missing}: the copy points at the start of the input, so errors located through a copied cursor (overlapping ranges) point at position 0", construct="Cursor.copy state")
    else:
        ctx.ok("COPY", where, cp.node, what=f"copy carries {sorted(mutable)}")


def _check_range_end(ctx) -> None:
    p = ctx.p
    renderer = p.cls("parse.retree._render:Renderer")
    tcs = renderer.methods.get("transform_char_set")
    ctx.require_anchor(tcs is not None, "Renderer.transform_char_set exists")
    loops = [n for n in walk_function_body(tcs.node) if isinstance(n, ast.For)]
    ctx.require_anchor(len(loops) == 1, "transform_char_set loops over the ranges")
    loop = loops[0]
    var = loop.target.elts[-1].id if isinstance(loop.target, ast.Tuple) else loop.target.id

    def arms(body):
        for s in body:
            if isinstance(s, ast.If):
                yield (s.test, s.body)
                cur = s
                while len(cur.orelse) == 1 and isinstance(cur.orelse[0], ast.If):
                    cur = cur.orelse[0]
                    yield (cur.test, cur.body)
                if cur.orelse:
                    yield (None, cur.orelse)

    n = 0
    for test, body in arms(loop.body):
        n += 1
        mod = ast.Module(body=body, type_ignores=[])
        emits = any(isinstance(c, ast.Call) and isinstance(c.func, ast.Attribute) and c.func.attr in ("append", "extend") for c in ast.walk(mod))
        if not emits:
            continue
        reads_end = any(isinstance(a, ast.Attribute) and a.attr == "end" and isinstance(a.value, ast.Name) and a.value.id == var for a in ast.walk(mod))
        guard_none = test is not None and any(
            isinstance(c, ast.Compare) and isinstance(c.left, ast.Attribute) and c.left.attr == "end" and isinstance(c.ops[0], ast.Is)
            and isinstance(c.comparators[0], ast.Constant) and c.comparators[0].value is None for c in ast.walk(test))
        what = f"arm `{short(test, 50) if test is not None else 'else'}` handles {var}.end"
        if reads_end or guard_none:
            ctx.ok("RANGE-END", tcs, body[0], what=what)
        else:
            ctx.fail("RANGE-END", tcs, body[0], f"this branch emits the start of a range but neither reads `{var}.end` nor is guarded by `{var}.end is None`: the end of such a range is lost in the rendering", construct=what)
    ctx.require_anchor(n >= 2, "transform_char_set has branches per range shape")
