"""C18 Regex virtual-machine programs match like the pattern (DESIGN §4 C18)."""
import ast
from typing import Dict, List, Set

from ..callgraph import callgraph
from ..flow import find_calls, kwarg
from ..model import dotted_of, short, walk_function_body
from ..rules import anchor, exh, seq

CLAIM = (
    "(1) label hygiene in revm._Translator: every label obtained from _obtain_label() is attached to a _Leaf(label=...) of the same "
    "method and every Jump/Split target argument is such a label; (2) every producer/consumer of instructions agrees on the "
    "target-bearing fields (Jump.target, Split.first_target, Split.second_target): _relabel_in_place rewrites each field from itself "
    "through the label map, the dump and the C++ emitter read both split targets in order; (3) the consumers' chains over the "
    "instruction kinds are exhaustive; (4) translate() relabels before it removes no-ops; (5) every condition under which "
    "transform_regex raises is rejected upstream: the front end's anchoring check tests the same features (non-empty, single "
    "alternative, first ^, last $), and the other raising conditions have an upstream guard; (6) the quantifier expansion emits, per "
    "arm, minimum + (maximum - minimum) copies (bounded), one looped copy (minimum 0, unbounded) or minimum - 1 copies and one looped "
    "copy (unbounded), each a fresh translation; (7) the `.*$` shortcut drops the last two terms only under a guard requiring dot, "
    "quantified, minimum 0, no maximum."
    " SKIPS: the loops of the functions in scope have no more `continue`, `break` or in-loop `return` statements than the reference "
    "read on the unchanged tree (baselines/skips.json): a new skip means elements that were handled are no longer handled."
)
NOTE = (
    "Trusted base: instruction classes recognised by name (Instruction*), label fields by the suffix `target`. Known finding: "
    "non-greedy quantifiers reach transform_regex unguarded. Not decided: acceptance equivalence of program and pattern."
)
TECHNIQUE = "static analysis: paired label issue/attach, table agreement on target-bearing fields across producers and consumers, sibling agreement of rejection predicates, call-graph guard search"

RV = "intermediate.revm"


def run(ctx) -> None:
    p = ctx.p
    ctx.rule("LABEL", "every obtained label is attached to a leaf; every jump/split target is an obtained label", floor=8)
    ctx.rule("TARGET-FIELDS", "producers/consumers agree on Jump.target, Split.first_target, Split.second_target", floor=6)
    ctx.rule("EXH1", "consumers cover every instruction kind", floor=3)
    ctx.rule("SEQ", "translate: transform -> relabel -> remove no-ops", floor=1)
    ctx.rule("ANCHOR-ATOMS", "front end and translator test the same anchoring features", floor=4)
    ctx.rule("REVM-PRE", "each raising condition of transform_regex has an upstream guard", floor=2)
    ctx.rule("REP", "quantifier expansion: copies emitted per arm equal the bounds; every copy is a fresh translation", floor=3)
    ctx.rule("SUFFIX-OPT", "the `.*$` shortcut is taken only when the dropped term matches anything", floor=4)
    _check_labels(ctx)
    _check_target_fields(ctx)
    _check_repetitions(ctx)
    _check_suffix_optimisation(ctx)
    # the program is emitted with the pattern text as comments: a comment that ends early corrupts the emitted program (shared with C20)
    ctx.rule("BLOCK-END", "pattern text interpolated into /* ... */ comments of pattern.cpp cannot end the comment (shared with C20)", floor=1)
    from . import c20 as _c20
    _c20.check_inline_block_comments(ctx)
    for key in (f"{RV}:_relabel_in_place", f"{RV}:_write_recursively", f"{RV}:_recursively_convert_node_for_public", "cpp.lib._generate_pattern:_write_instructions_recursively", f"{RV}:_remove_noop_in_place"):
        exh.check_exh1(ctx, p.func(key), "EXH1")
    seq.check_sequence(ctx, p.func(f"{RV}:translate"), "SEQ", ["transform", "_relabel_in_place", "_remove_noop_in_place"], lambda n: n.kind == "return")
    anchor.check_anchor_agreement(ctx, "ANCHOR-ATOMS")
    _check_revm_preconditions(ctx)
    ctx.rule("SKIPS", "the loops of the functions in scope have no more continue/break/return-in-loop statements than the reference read on the unchanged tree", floor=3)
    from ..rules import skips as _skips
    _base = _skips.load_baseline()
    for _m in ctx.p.modules.values():
        if _m.name in ("aas_core_codegen.intermediate.revm", "aas_core_codegen.cpp.lib._generate_pattern"):
            for _f in _m.functions.values():
                _skips.check_skips(ctx, _f, "SKIPS", _base)


def _check_labels(ctx) -> None:
    p = ctx.p
    tr = p.cls(f"{RV}:_Translator")
    for name, m in tr.methods.items():
        labels: Dict[str, ast.AST] = {}
        for n in walk_function_body(m.node):
            if isinstance(n, ast.Assign) and isinstance(n.value, ast.Call) and dotted_of(n.value.func) == "self._obtain_label" and isinstance(n.targets[0], ast.Name):
                labels[n.targets[0].id] = n
        if not labels and not find_calls(m.node, lambda c: dotted_of(c.func) in ("InstructionJump", "InstructionSplit")):
            continue
        attached: Set[str] = set()
        for c in find_calls(m.node, lambda c: dotted_of(c.func) == "_Leaf"):
            v = kwarg(c, "label")
            if isinstance(v, ast.Name):
                attached.add(v.id)
        # labels handed to helper methods (e.g. passed as an argument) count as attached there
        passed: Set[str] = set()
        for c in find_calls(m.node, lambda c: (dotted_of(c.func) or "").startswith("self._") and dotted_of(c.func) != "self._obtain_label"):
            for a in list(c.args) + [k.value for k in c.keywords]:
                if isinstance(a, ast.Name):
                    passed.add(a.id)
        for lab, node in labels.items():
            what = f"_Translator.{name}: label `{lab}` attached to a leaf"
            if lab in attached or lab in passed:
                ctx.ok("LABEL", m, node, what=what)
            else:
                ctx.fail("LABEL", m, node, f"the label `{lab}` is obtained but never attached to a _Leaf(label=...): a jump to it has no destination and relabelling raises KeyError", construct=what)
        params = set(m.param_names())
        for c in find_calls(m.node, lambda c: dotted_of(c.func) in ("InstructionJump", "InstructionSplit")):
            for kw in c.keywords:
                if kw.arg and kw.arg.endswith("target"):
                    what = f"_Translator.{name}: {dotted_of(c.func)}.{kw.arg} = {short(kw.value)}"
                    if isinstance(kw.value, ast.Name) and (kw.value.id in labels or kw.value.id in params):
                        ctx.ok("LABEL", m, c, what=what)
                    else:
                        ctx.fail("LABEL", m, c, f"the {kw.arg} `{short(kw.value)}` is not a label obtained in this method", construct=what)
            if c.args:
                ctx.fail("LABEL", m, c, "targets passed positionally cannot be matched to their fields", construct=f"_Translator.{name}: positional targets")


def _check_target_fields(ctx) -> None:
    p = ctx.p
    fields = {}
    for cname in ("InstructionJump", "InstructionSplit"):
        ci = p.cls(f"{RV}:{cname}")
        fields[cname] = sorted(a for a in ci.annotations if a.endswith("target"))
    ctx.require_anchor(fields["InstructionJump"] == ["target"] and fields["InstructionSplit"] == ["first_target", "second_target"], "Jump/Split declare their target fields")
    consumers = {
        f"{RV}:_relabel_in_place": "rewrite",
        f"{RV}:_write_recursively": "read",
        "cpp.lib._generate_pattern:_write_instructions_recursively": "read",
    }
    for key, mode in consumers.items():
        f = p.func(key)
        for cname, flds in fields.items():
            branch = None
            for n in ast.walk(f.node):
                if isinstance(n, ast.If) and isinstance(n.test, ast.Call) and dotted_of(n.test.func) == "isinstance" and (dotted_of(n.test.args[1]) or "").endswith(cname):
                    branch = n
            what = f"{f.qualname}: {cname} branch handles {flds}"
            if branch is None:
                ctx.fail("TARGET-FIELDS", f, f.node, f"{f.qualname} has no branch for {cname}", construct=what)
                continue
            body = ast.Module(body=branch.body, type_ignores=[])
            reads = [a.attr for a in ast.walk(body) if isinstance(a, ast.Attribute) and a.attr.endswith("target") and isinstance(a.ctx, ast.Load)]
            problems = []
            for fl in flds:
                if fl not in reads:
                    problems.append(f"{fl} is not read")
            if mode == "rewrite":
                for a in ast.walk(body):
                    if isinstance(a, ast.Assign) and isinstance(a.targets[0], ast.Attribute) and a.targets[0].attr.endswith("target"):
                        src = [x.attr for x in ast.walk(a.value) if isinstance(x, ast.Attribute) and x.attr.endswith("target")]
                        if src != [a.targets[0].attr]:
                            problems.append(f"{a.targets[0].attr} is rewritten from {src}")
                written = [a.targets[0].attr for a in ast.walk(body) if isinstance(a, ast.Assign) and isinstance(a.targets[0], ast.Attribute)]
                for fl in flds:
                    if fl not in written:
                        problems.append(f"{fl} is not rewritten")
            else:
                order = [r for r in reads if r in flds]
                if len(flds) == 2 and order[:2] != flds:
                    problems.append(f"targets are read in the order {order}")
            if problems:
                ctx.fail("TARGET-FIELDS", f, branch, f"in the {cname} branch of {f.qualname}: " + "; ".join(problems) + ": jumps of the emitted program go to the wrong instruction", construct=what)
            else:
                ctx.ok("TARGET-FIELDS", f, branch, what=what)


def _check_revm_preconditions(ctx) -> None:
    p = ctx.p
    f = p.func(f"{RV}:_Translator.transform_regex")
    cg = callgraph(ctx)
    # functions from which translate is reached (the C++ generator side) and the front-end check
    upstream = [p.func("intermediate._translate:_verify_patterns_anchored_at_start_and_end")]
    tkey = p.func(f"{RV}:translate").key
    seen = set()
    stack = [tkey]
    while stack:
        k = stack.pop()
        for c in cg.callers_of(k):
            if c not in seen and not c.startswith("aas_core_codegen.intermediate.revm"):
                seen.add(c)
                stack.append(c)
                if c.startswith("aas_core_codegen.cpp.lib._generate_pattern"):
                    upstream.append(cg.funcs[c])
    up_text = "\\n".join(ast.unparse(u.node) for u in upstream)
    for n in walk_function_body(f.node):
        if isinstance(n, ast.If) and any(isinstance(x, ast.Raise) for x in n.body):
            cond = ast.unparse(n.test)
            if "uniates" in cond or "symbol_is" in cond:
                feature, guard = "anchoring", True  # judged by ANCHOR-ATOMS
            elif "non_greedy" in cond:
                feature, guard = "non-greedy quantifiers", ("non_greedy" in up_text)
            elif "formatted_value" in cond:
                feature, guard = "formatted values", ("FormattedValue" in up_text or "formatted_value" in up_text or _parsed_from_plain_strings(ctx, upstream))
            else:
                feature, guard = cond, False
            what = f"transform_regex raises on {feature}: guarded upstream"
            if guard:
                ctx.ok("REVM-PRE", f, n, what=what)
            else:
                ctx.fail("REVM-PRE", f, n,
                         f"transform_regex raises for {feature} (`{short(n.test, 70)}`), and neither the front end's pattern check nor the C++ pattern generator tests for it before calling revm.translate: an accepted pattern crashes the C++ target",
                         construct=f"transform_regex precondition: {feature}")


def _parsed_from_plain_strings(ctx, upstream) -> bool:
    """The regex handed to revm.translate comes from ``retree.parse([<str>])``: a list of
    plain strings cannot contain a FormattedValue."""
    from ..flow import artefacts
    from ..types import Ext, strip_opt
    found = False
    for f in upstream:
        for c in find_calls(f.node, lambda c: (dotted_of(c.func) or "").split(".")[-1] == "parse" and "retree" in (dotted_of(c.func) or "")):
            if c.args and isinstance(c.args[0], ast.List) and c.args[0].elts:
                art = artefacts(ctx.ty, f)
                ok = True
                for e in c.args[0].elts:
                    t = strip_opt(art.types.type_of(e, art.types.final_env()))
                    if not (isinstance(t, Ext) and t.name == "str"):
                        ok = False
                if ok and f.module.name.startswith("aas_core_codegen.cpp"):
                    found = True
    return found


def _check_repetitions(ctx) -> None:
    """Quantifier expansion in _Translator.transform_term, as a table of linear forms: how many translated copies of the
    repeated value each arm emits (loops over ``range`` plus single appends), and that each copy is a fresh translation."""
    from ..rules import lin
    from ..rules import schema as S

    p = ctx.p
    f = p.func(f"{RV}:_Translator.transform_term")
    parents = S.parents_of(f)
    defs: Dict[str, List[ast.expr]] = {}
    for n in walk_function_body(f.node):
        if isinstance(n, ast.Assign) and len(n.targets) == 1 and isinstance(n.targets[0], ast.Name):
            defs.setdefault(n.targets[0].id, []).append(n.value)

    def is_translation(e: ast.AST) -> bool:
        return isinstance(e, ast.Call) and dotted_of(e.func) == "self.transform" and len(e.args) == 1 and dotted_of(e.args[0]) == "node.value"

    def arm_of(n: ast.AST) -> str:
        arm = []
        for t, pol in S.guards_of(n, parents):
            txt = ast.unparse(t)
            if txt == "node.quantifier.maximum is not None":
                arm.append("bounded" if pol else "unbounded")
            elif txt == "node.quantifier.maximum is None":
                arm.append("unbounded" if pol else "bounded")
            elif txt == "node.quantifier.minimum == 0":
                arm.append("min0" if pol else "min>=1")
        return "/".join(arm)

    # aliasing: a translated node must not be replicated or reused
    for n in walk_function_body(f.node):
        if isinstance(n, ast.BinOp) and isinstance(n.op, ast.Mult) and any(isinstance(x, ast.List) and any(is_translation(c) for c in ast.walk(x)) for x in (n.left, n.right)):
            ctx.fail("REP", f, n, f"`{short(n)}` replicates ONE translated node object: the copies share their leaves, so relabelling and no-op removal treat them as one and the program for the repeated term is wrong", construct="translated node replicated by list multiplication")
    for name, vs in defs.items():
        if any(is_translation(v) for v in vs):
            uses = [x for x in walk_function_body(f.node) if isinstance(x, ast.Name) and x.id == name and isinstance(x.ctx, ast.Load)]
            in_loop_after = False
            for u in uses:
                cur = u
                while id(cur) in parents:
                    cur = parents[id(cur)]
                    if isinstance(cur, (ast.For, ast.While)) and not any(isinstance(d, ast.Assign) and dotted_of(d.targets[0]) == name for d in ast.walk(cur)):
                        in_loop_after = True
            n_defs = len(vs)
            if len(uses) > n_defs or in_loop_after:
                ctx.fail("REP", f, f.node, f"the translated node `{name}` is appended more than once: repetitions share one node object", construct=f"translated node {name} reused")
    # counts per arm
    got: Dict[str, List[str]] = {}
    for n in walk_function_body(f.node):
        if not is_translation(n):
            continue
        st = S.stmt_of(n, parents)
        if isinstance(st, ast.Return):
            continue  # the {1,1} / no-quantifier shortcuts
        if isinstance(st, ast.Assign) and len(st.targets) == 1 and isinstance(st.targets[0], ast.Name):
            # `x = self.transform(node.value); return x` is the same shortcut
            blk = parents.get(id(st))
            sibs = next((b for fld in ("body", "orelse", "finalbody") for b in [getattr(blk, fld, None)] if isinstance(b, list) and any(x is st for x in b)), None)
            if sibs is not None:
                i = next(k for k, x in enumerate(sibs) if x is st)
                if i + 1 < len(sibs) and isinstance(sibs[i + 1], ast.Return) and isinstance(sibs[i + 1].value, ast.Name) and sibs[i + 1].value.id == st.targets[0].id:
                    continue
        arm = arm_of(n)
        loop = None
        cur: ast.AST = n
        while id(cur) in parents:
            cur = parents[id(cur)]
            if isinstance(cur, ast.For):
                loop = cur
                break
        if loop is None:
            got.setdefault(arm, []).append("1")
            continue
        it = loop.iter
        form = None
        if isinstance(it, ast.Call) and dotted_of(it.func) == "range" and 1 <= len(it.args) <= 2:
            hi = it.args[-1]
            lo = it.args[0] if len(it.args) == 2 else ast.Constant(0)
            if isinstance(hi, ast.Name) and len(defs.get(hi.id, [])) == 1:
                hi = defs[hi.id][0]
            a, b = lin.lin_of(hi), lin.lin_of(lo)
            if a is not None and b is not None and b[0] == ():
                form = (a[0], a[1] - b[1])
        if form is None:
            ctx.fail("REP", f, loop, f"the number of repetitions of `{short(loop.iter)}` is not a linear form of the quantifier bounds", construct=f"{arm}: loop count")
            continue

        def show(fm) -> str:
            terms = [("" if k == 1 else "-" if k == -1 else f"{k}*") + s.replace("node.quantifier.", "") for s, k in fm[0]]
            txt = " + ".join(terms).replace("+ -", "- ")
            return txt + (f" {fm[1]:+d}" if fm[1] else "")
        got.setdefault(arm, []).append(show(form))
    want = {
        "bounded": sorted(["minimum", "maximum - minimum"]),
        "unbounded/min0": ["1"],
        "unbounded/min>=1": sorted(["minimum -1", "1"]),
    }
    for arm, w in want.items():
        g = sorted(got.get(arm, []))
        gn = sorted(x.replace("-minimum + maximum", "maximum - minimum").replace("maximum -minimum", "maximum - minimum") for x in g)
        what = f"quantifier arm {arm}: copies emitted = {' + '.join(w)}"
        if gn == w:
            ctx.ok("REP", f, f.node, what=what)
        else:
            ctx.fail("REP", f, f.node, f"in the {arm} arm the translated value is emitted {' + '.join(gn) or 'never'} times; the quantifier requires {' + '.join(w)} (mandatory copies, then optional copies / the loop): the program accepts a wrong number of repetitions", construct=what)
    extra = set(got) - set(want)
    if extra:
        ctx.fail("REP", f, f.node, f"translations in unrecognised arms {sorted(extra)}", construct="unrecognised quantifier arm")


def _check_suffix_optimisation(ctx) -> None:
    """``.*$`` at the end is replaced by an early Match: the guard of the slice that drops the last two terms must require
    that the penultimate term matches anything (dot, quantified, minimum 0, no maximum)."""
    from ..rules import schema as S

    p = ctx.p
    f = p.func(f"{RV}:_Translator.transform_regex")
    parents = S.parents_of(f)
    drops = []
    for n in walk_function_body(f.node):
        if isinstance(n, ast.Subscript) and isinstance(n.slice, ast.Slice) and ast.unparse(n.value).endswith("concatenants"):
            up = n.slice.upper
            if isinstance(up, ast.UnaryOp) and isinstance(up.op, ast.USub) and isinstance(up.operand, ast.Constant) and up.operand.value >= 2:
                drops.append(n)
    if not drops:
        ctx.ok("SUFFIX-OPT", f, f.node, what="no term beside the anchors is dropped from the program", nontrivial=False)
        return
    REQUIRED = {
        "{t}.value.kind is parse_retree.SymbolKind.DOT": "the term is the dot",
        "{t}.quantifier is not None": "the term is quantified",
        "{t}.quantifier.minimum == 0": "zero repetitions allowed",
        "{t}.quantifier.maximum is None": "no upper bound",
    }
    for d in drops:
        atoms = set()
        for t, pol in S.guards_of(d, parents):
            if not pol:
                continue
            vals = t.values if isinstance(t, ast.BoolOp) and isinstance(t.op, ast.And) else [t]
            atoms |= {ast.unparse(v) for v in vals}
        # the dropped term: concatenants[-2]
        tvars = [name for name, vs in _defs(f).items() if any("concatenants[-2]" in ast.unparse(v) for v in vs)]
        ctx.require_anchor(len(tvars) == 1, "the penultimate term is bound to one variable")
        tv = tvars[0]
        for tmpl, why in REQUIRED.items():
            a = tmpl.format(t=tv)
            what = f"dropping the last two terms requires `{a}` ({why})"
            if a in atoms:
                ctx.ok("SUFFIX-OPT", f, d, what=what)
            else:
                ctx.fail("SUFFIX-OPT", f, d, f"`{short(d)}` drops the penultimate term and `$` in favour of an immediate Match, but the guard does not require `{a}` ({why}): the program accepts inputs the pattern rejects", construct=what)


def _defs(f) -> Dict[str, List[ast.expr]]:
    out: Dict[str, List[ast.expr]] = {}
    for n in walk_function_body(f.node):
        if isinstance(n, ast.Assign) and len(n.targets) == 1 and isinstance(n.targets[0], ast.Name):
            out.setdefault(n.targets[0].id, []).append(n.value)
    return out
