"""
Regenerate section 10 of DESIGN.md ("What was built, and what it found") between
the markers <!-- BEGIN RESULTS --> and <!-- END RESULTS -->.  The prose is kept
here; the tables come from known_findings.json, seeded/*/meta.json, the props
modules and /repo's git log, so that the document cannot drift from the files.
"""
import glob
import importlib
import json
import pathlib
import subprocess
import sys

ROOT = pathlib.Path(__file__).resolve().parent.parent
sys.path.insert(0, str(ROOT))

BEGIN, END = "<!-- BEGIN RESULTS -->", "<!-- END RESULTS -->"

FALSE_ALARMS = """
### 10.3 False alarms found in the machinery, and what was done

Every report on the unchanged tree was triaged by reading the code and, where a
defect was suspected, by running the failing input (`repro/repro.py`).  Reports
that turned out to be wrong were fixed in the machinery, never listed as
findings:

| where | the false alarm | correction |
|---|---|---|
| resolver | `X = _types.Y` re-exports in package `__init__` left names unresolved (hundreds of skipped obligations) | alias following in `Program._resolve_in_module/_resolve_written` |
| ERR1 | `_ = inferrer.transform(x)` followed by `inferrer.errors`; `if v is not None: ... elif error`; readers inside nested closures | the three idioms are recognised (receiver-errors idiom, XOR edge discharge - not for asserts -, closure readers) |
| ERR3 | `errors.append(Error(..., underlying=errors))` treated as an escape of the accumulator; untyped `errors = []` | self-append is never an escape; accumulators inferred from usage |
| EXH1 | tuple constants in `isinstance`, enum labels under `isinstance`, base classes with leaf subclasses, plain `str` scrutinees | `_class_arg` resolves tuple constants; enum/leaf handling; `str` skipped and counted |
| EXH2 | Java's partial `PRIMITIVE_TYPE_MAP` | the table is dead code (call graph); dead tables are skipped |
| floors | a floor violation masked a real finding as ANALYSIS-ERROR | floors are not enforced for a rule that has findings |
| C16 ESC-TAB | `^` missing from the renderer's range table | the dedicated caret branch is recognised; the real defect was the lost range end (fixed, 9500e029) |
| C19 GUARD | text heuristics flagged 25 ASCII call sites | replaced by the type of the argument (`Identifier` is ASCII by contract) |
| C27 | a bare token at line start flagged | a single token is always admissible; rule relaxed, variant reclassified as preserving |
| C08/C09 | helper delegation, indent-only holes, argument positions, error messages | PAREN/OPS recognise the helpers; REFLOW ignores added parentheses |
| C26 | a target equal to a label handed to a nested linearisation | accepted when followed by the attached statement; backward jumps must target an `If` |
| C05 | underscore stripping in `_check_id_set`; success flags | normalised names; boolean-flag propagation |
| C11 REF-DEF | `result[name] = ...` in every branch of an `if/elif/else` chain on `len(all_of)` looked conditional | a chain that stores the same key on every branch contributes no guard |
| C21 SCOPE | the variable `name` is reused for literals and properties in the C++ verifier | the kind of a name variable is taken from the latest assignment before the use |
| ATTR (C01/C02) | narrowing through `x.items[0]`, `x[-1]`, `a.b[0].c` was lost: 13 reports | narrow keys cover constant subscripts; assignments to `x` kill `x.*`/`x[*]` facts |
| EXT-PARSE | `ast.parse` of the package's own source; `minidom.parseString` of text that `ET.fromstring` had accepted / that `ET.tostring` produced | own-source exception (one line, with reason); same-family-already-parsed and self-serialised text are recognised |
| ERR1 (dropped after test) | first version armed on the wrong edge: every `if error is not None: return None, error` was reported | polarity fixed; a path that produces an error of its own (Error(...), errors.append, non-zero return, something in the error slot) is not a drop |
| C19 BYTES | `0x{byte:x}` (no zero padding) flagged for Go | for `0x` prefixes any hex format is exact; only `\\x` needs exactly two digits; the variant became a preserving one |
| C30/C10 loops | `continue` after `errors.append(...)` and `enumerate(...)` loops | error-path skips and `enumerate` are recognised |
| C26 LABEL-REWIRE | `self.label = label` in constructors, `statements[0].label = ...` (subscripted owner), `x.label is None` as one conjunct of a guard, the renumbering idiom `x.label = map[x.label]` | constructors skipped; owners compared by text; conjuncts split; a label replaced by the image of itself under a mapping is a renaming, not an overwrite |
| C07 NONNULL | the error branch for Optional arguments contains a nested test that exempts parameters declared Optional: the whole branch was treated as "error recorded" | only the statements that append the error taint the path |
| C17 PRE-SURR | `x.end is None or ord(x.end.character) < S` evaluated eagerly on the sample `end = None` | the predicate evaluator short-circuits like Python |
| MEMBER-STORE (withdrawn) | `if k not in A: B[k] = v` with A != B has one deviant site (`_hierarchy.py`: methods tested against `observed_properties`); a model that exploits it is still rejected by a later check, so the property holds and the report would have been a false alarm | rule and repair withdrawn; the site is listed under 10.6 |

**Behaviour-preserving edits as a test of the rules.**  Two probe tools rewrite the functions the rules read, on the syntax
tree, and run the checks on the in-memory overlay; any report is a false alarm by construction.
`tools/rename_probe.py` renames every local of 66 functions; `tools/refactor_probe.py` re-emits the module with
`ast.unparse` (formatting, comments and line numbers change), inverts every `if c: A else: B` to `if not c: B else: A`,
swaps the sides of `==`/`!=`, removes the `else` after a body that always leaves, adds such an `else`, inserts statements
without effect at the start of the function and of every loop body, and extracts the value of `return f(...)` into a local.
The first runs produced reports for about 40 % of the functions (rules that matched a local's name, the polarity of one
particular `if`, the side a constant stands on, or counted the final `return` inside an added `else` as an early exit).
These were corrected at the root, in the program model rather than rule by rule: every module is brought into a canonical
form before any rule reads it (`sa/model.py`):

* locals are mapped back to their reference names (`baselines/locals.json`);
* when one branch of an `if`/`else` always leaves (return / continue / break / raise, also through a nested `if`/`else`
  whose branches both leave), the leaving branch is the body - the test negated if necessary - and the other branch follows
  the conditional; when both leave, the `else` is dissolved and the written order is kept; an `elif` after a leaving body is dissolved when the chain has no final `else` (exhaustive chains keep their shape);
* a negated test that still has an `else` is flipped;
* a constant-like side of a symmetric comparison stands on the right; rules that compare two non-constant sides
  (C17 SPLIT) do so modulo their order.

A third tool, `tools/global_probe.py`, applies one rewrite to every function of every module at once (up to 240 files) and runs all thirty checks on that overlay.  `baselines/skips.json` is read from the unchanged tree under the same canonical form.  What is *not* canonicalised: the
inversion of an `if`/`else` whose branches both leave and neither (or both) report an error, and the inversion of a guard
clause together with the rest of its block; renaming a function the rules are anchored in ends the run as analysis-broken
(exit 2), not as a violation.  Last runs (2026-09-22, on /repo HEAD bb1b1454): global probe 209 of 210 (mode, property) pairs silent - the one report is C18 SKIPS on the inversion of the `if`/`else` in revm `transform_term` whose branches both return, the case named above as not canonicalised; rename probe 66/66 functions silent; refactor probe silent in all seven modes (identity, invert, swapeq, deelse, addelse, noise, extract) on all 66 functions after the corrections listed here (the last corrections: asserts are no-ops for the C04 interpreter, C12 and ERR4 follow a returned local to its assignment, C18 REP counts uses per definition).
"""

OBSERVED = """
### 10.6 Defects observed but outside what the checks decide

Seen while reproducing or reported by the sub-agents while they looked for
inputs; they are violations of C02 on the unchanged tree which no rule built
here derives (the deliberate `raise`/`assert` for *unsupported shapes* is listed
under "not decided" in the C02 claim):

* an enumeration without literals crashes csharp, golang, java, python and typescript (`AssertionError: Unexpected enumeration without literals`, `Stripped` precondition);
* lists of lists (`List[List[int]]`) crash cpp, csharp, golang, java, python and typescript (`NotImplementedError` / assertion "contact the developers");
* a class without a docstring crashes java, an abstract class without concrete descendants or a class without properties crashes python (`Stripped` precondition in `_generate_setter`);
* a pattern range straddling U+FFFF/U+10000 violates a precondition in `_convert_to_surrogates` (cpp, csharp, jsonschema, smoke);
* `intermediate/_hierarchy.py` tests `observed_properties` where `observed_methods` is meant (copy-paste); a re-declared inherited method is still rejected by a later check with another message, so no property is violated.

A rule for the first three would be "every explicit raise reachable from an
execute() is guarded by a front-end rejection of the same shape": 127 explicit
raises are reachable from the mains (plus the asserts with messages); triaging
each against the front end is reading work that was not finished, so it is not
claimed.
"""


def fixes_table() -> str:
    log = subprocess.run(["git", "-C", "/repo", "log", "--format=%h\t%s", "--abbrev=8"], capture_output=True, text=True).stdout
    known = json.loads((ROOT / "known_findings.json").read_text())["findings"]
    by_commit = {}
    for f in known:
        if f.get("status") == "fixed":
            by_commit.setdefault(f["commit"][:8], []).append(f)
    rows = []
    for line in log.splitlines():
        h, s = line.split("\t", 1)
        if not s.startswith("fix:"):
            continue
        fs = by_commit.get(h, [])
        props = ", ".join(sorted({f["property"] for f in fs})) or "-"
        rules = ", ".join(sorted({f["key"].split("|")[0] for f in fs})) or "-"
        what = (fs[0]["what"] if fs else s[4:].strip()).replace("|", "\\|")
        rows.append(f"| `{h}` | {props} | {rules} | {what} |")
    return "| commit in /repo | property | rule that found it | what failed |\n|---|---|---|---|\n" + "\n".join(reversed(rows))


def known_table() -> str:
    known = json.loads((ROOT / "known_findings.json").read_text())["findings"]
    rows = []
    seen = set()
    for f in known:
        if f.get("status") != "known":
            continue
        k = (f["property"], f["key"])
        if k in seen:
            continue
        seen.add(k)
        rule, rel, qn, cons = (f["key"].split("|") + ["", "", ""])[:4]
        rows.append(f"| {f['property']} | {rule} | `{rel.replace('aas_core_codegen/', '')}` `{qn}` | {f['what'].replace('|', chr(92) + '|')} | {f.get('reproduction', '').replace('|', chr(92) + '|')} |")
    return "| property | rule | site | what fails, and why it is recorded rather than repaired | reproduction |\n|---|---|---|---|---|\n" + "\n".join(rows)


def seeded_table() -> str:
    rows = []
    n = built = after = missed = 0
    for m in sorted(glob.glob(str(ROOT / "seeded" / "*" / "meta.json"))):
        x = json.loads(pathlib.Path(m).read_text())
        n += 1
        det = x.get("detected_by") or {}
        note = (x.get("detected_note") or "").replace("|", "\\|")
        if not det:
            missed += 1
            verdict = "**not detected**"
        elif note.startswith("caught"):
            built += 1
            verdict = "caught as built"
        else:
            after += 1
            verdict = "caught after strengthening"
        dets = "; ".join(f"{p}: {', '.join(r)}" for p, r in det.items()) or "-"
        first = ""
        notes_md = pathlib.Path(m).parent / "notes.md"
        if notes_md.exists():
            for line in notes_md.read_text().splitlines():
                if line.strip().startswith(("- **Change", "- Change", "- **What", "**Change")) or "hange" in line[:20]:
                    first = line.strip(" -*#")[:170].replace("|", "\\|")
                    break
        rows.append(f"| {x['name']} | {first} | {dets} | {verdict} | {note[:260]} |")
    head = (f"{n} changes confirmed (demo exits 0 on the unchanged tree and 1 with the change; the sub-agents ran the pinned suite once per change: "
            f"410 passed, the known cpp failure only): {built} caught by the checks as they stood, {after} caught after a general rule was added, {missed} not detected.\n\n")
    return head + "| change | what it does | reported by | verdict | note |\n|---|---|---|---|---|\n" + "\n".join(rows)


def misses_text() -> str:
    out = []
    for m in sorted(glob.glob(str(ROOT / "seeded" / "*" / "meta.json"))):
        x = json.loads(pathlib.Path(m).read_text())
        if not (x.get("detected_by") or {}):
            out.append(f"* **{x['name']}** - {(x.get('detected_note') or '').replace('NOT detected: ', '')}")
    if not out:
        return "Every recorded change is reported by some check."
    return ("Changes that no check reports, and why they stay misses (no rule was bent to match them):\n\n" + "\n".join(out))


def claims_table() -> str:
    rows = []
    for m in sorted(glob.glob(str(ROOT / "sa" / "props" / "c*.py"))):
        name = pathlib.Path(m).stem
        mod = importlib.import_module(f"sa.props.{name}")
        ev = ROOT / "evidence" / f"{name.upper()}.json"
        ob = ""
        if ev.exists():
            e = json.loads(ev.read_text())
            ob = str(e.get("coverage", {}).get("obligations", ""))
        rows.append(f"| {name.upper()} | {mod.CLAIM.replace('|', chr(92) + '|')} | {mod.NOTE.replace('|', chr(92) + '|')} | {ob} |")
    return "| property | what the check decides (a necessary condition, never the behaviour as such) | trusted base / not decided | obligations on today's tree |\n|---|---|---|---|\n" + "\n".join(rows)


def main() -> None:
    text = f"""{BEGIN}
## 10. What was built, and what it found

This section is generated by `tools/gen_design_results.py` from the files it
describes (`sa/props/*.py`, `known_findings.json`, `seeded/*/meta.json`, the
git log of /repo) and is rewritten whenever they change.  Where it disagrees
with the plan in sections 1-9, this section is what exists.

### 10.1 How to run

* `/venv/bin/python -m sa.cli check CNN --tier quick|thorough` (cwd /verif): analyses /repo's working tree, writes
  `evidence/CNN.json`, prints `KNOWN-FINDING:` lines for the listed findings, `VIOLATION property=CNN replay=<file>` and exit 1 for
  anything else, `ANALYSIS-ERROR` and exit 2 when an anchor vanished, a rule fell below its floor or the analyser crashed.
  The thorough tier additionally runs the self-test corpus of the property (reverse patches of the fix commits, hand-written
  breaking/preserving variants, the seeded changes) on in-memory overlays and fails with exit 2 if a breaking variant is missed or a
  preserving one is flagged - that is a defect of the checker, not of the repository.
* `tools/run_all.py quick|thorough`, `python -m sa.selftest [substring]`, `tools/try_patch.py <patch> CNN...` (overlay run against a
  patch), `tools/confirm_seeded.py` (demo + optional suite in a scratch worktree), `repro/repro.py` (hand-run reproductions; not a
  deciding step of any check).
* No hooks were needed in /repo; `MANIFEST.hooks` names the guard variable but nothing reads it.

### 10.2 What each check decides

All thirty properties have a check; none is listed as not applicable.  For the
behavioural properties (C10-C14, C18, C20, C29, C30 in particular) the check
decides the structural clauses named below and says so in `level_claimed`; the
behaviour itself (round trips, validation verdicts, acceptance of every string,
that whole files parse) quantifies over run-time values and is **not** decided
by anything here.

{claims_table()}
{FALSE_ALARMS}
### 10.4 Genuine defects repaired in /repo (`fix:` commits)

Each was reproduced against the real code first (input in `repro/repro.py` or in
the entry), repaired with a minimal unguarded commit, re-checked with the pinned
tests of the touched area, and is kept as a reverse patch in
`selftest/regressions/` so that the thorough tier reports it if it returns.

{fixes_table()}

### 10.5 Genuine defects recorded as known findings

Recorded in `known_findings.json` (status `known`) by rule and construct, not by
line, so that a different violation of the same rule is still a VIOLATION.  The
reason for not repairing is part of each entry: the repair needs a design
decision, or it changes a recorded golden file that the pinned suite compares
verbatim.

{known_table()}
{OBSERVED}
### 10.7 Changes written by independent sub-agents, and which check reports them

Each sub-agent got the text of one property and a scratch worktree, nothing from
/verif.  A change is kept under `seeded/<id>/` (patch, demonstration, notes,
`meta.json` with what was run) only after its demonstration was re-run here.
Rules added after a miss are general rules of the property (named below), not
matches of the seeded text; each was then run on the unchanged tree, where any
report it made was triaged like every other report (one of them, ORIGIN, found a
real defect: a307f0ed).

{seeded_table()}

{misses_text()}
{END}
"""
    p = ROOT / "DESIGN.md"
    s = p.read_text()
    if BEGIN in s:
        s = s[: s.index(BEGIN)] + text + s[s.index(END) + len(END):]
    else:
        marker = "## Appendix A"
        i = s.index(marker)
        s = s[:i] + text + "\n\n" + s[i:]
    p.write_text(s)
    print("DESIGN.md section 10 regenerated,", len(text.splitlines()), "lines")


if __name__ == "__main__":
    main()
