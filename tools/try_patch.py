"""Run checks on a patch applied as an overlay: python tools/try_patch.py <patch.diff> [C01 C02 ...]"""
import concurrent.futures
import contextlib
import io
import json
import pathlib
import sys

ROOT = pathlib.Path(__file__).resolve().parent.parent
sys.path.insert(0, str(ROOT))

from sa import selftest  # noqa
from sa.model import AnalysisError  # noqa
from sa.report import load_known  # noqa


def one(args):
    prop, ov = args
    buf = io.StringIO()
    try:
        with contextlib.redirect_stdout(buf):
            ctx = selftest.analyse(prop, "quick", overlay_text=ov)
        kk = {k["key"] for k in load_known() if k.get("property") == prop and k.get("status") == "known"}
        viol = [f for f in ctx.findings if f.key not in kk]
        floors = [r for r, fl in ctx.floors.items() if ctx.obligations.get(r, 0) < fl and not any(f.rule == r for f in ctx.findings)]
        return prop, [(f.rule, f.relpath, f.lineno, f.qualname, f.construct, f.message) for f in viol], floors, None
    except AnalysisError as exc:
        return prop, [], [], str(exc)
    except Exception as exc:  # noqa
        import traceback
        return prop, [], [], "CRASH " + traceback.format_exc()[-600:]


def main():
    patch = pathlib.Path(sys.argv[1]).resolve()
    props = sys.argv[2:]
    if not props:
        props = sorted(p.stem.upper() for p in (ROOT / "sa" / "props").glob("c*.py"))
    ov = selftest.overlay_from_patch(patch)
    with concurrent.futures.ProcessPoolExecutor(max_workers=8) as ex:
        for prop, viol, floors, err in ex.map(one, [(p, ov) for p in props]):
            if err:
                print(f"{prop}: ANALYSIS-ERROR {err}")
            elif viol or floors:
                print(f"{prop}: {len(viol)} violation(s) {sorted({v[0] for v in viol})} floors_lost={floors}")
                for v in viol[:6]:
                    print(f"    [{v[0]}] {v[1]}:{v[2]} {v[3]}: {v[4]}\n        {v[5][:220]}")
            else:
                print(f"{prop}: silent")


if __name__ == "__main__":
    main()
