"""
False-alarm probe, third kind: one behaviour-preserving rewrite applied to EVERY function of EVERY module of /repo's package at
once (the modes of tools/refactor_probe.py), then all thirty checks on that overlay.  Any report is a false alarm.

  python tools/global_probe.py                # all modes
  python tools/global_probe.py invert noise   # some modes
  python tools/global_probe.py invert --only aas_core_codegen/xsd/main.py   # restrict the rewrite to files containing the substring (bisecting)
"""
import ast
import concurrent.futures
import contextlib
import io
import pathlib
import sys

ROOT = pathlib.Path(__file__).resolve().parent.parent
sys.path.insert(0, str(ROOT))
sys.path.insert(0, str(ROOT / "tools"))

import refactor_probe as rp  # noqa

REPO = pathlib.Path("/repo")


def overlay_for(mode: str, only: str = "") -> dict:
    out = {}
    for path in sorted((REPO / "aas_core_codegen").rglob("*.py")):
        rel = str(path.relative_to(REPO))
        if only and only not in rel:
            continue
        src = path.read_text(encoding="utf-8")
        try:
            tree = ast.parse(src, type_comments=True)
        except SyntaxError:
            continue
        n = 0
        for fn in [x for x in ast.walk(tree) if isinstance(x, (ast.FunctionDef, ast.AsyncFunctionDef))]:
            n += rp.MODES[mode](fn)
        if n == 0 and mode != "identity":
            continue
        ast.fix_missing_locations(tree)
        new = ast.unparse(tree)
        ast.parse(new)
        out[rel] = new
    return out


def one(job):
    mode, prop, only = job
    from sa.selftest import analyse
    from sa.report import load_known
    from sa.model import AnalysisError

    ov = overlay_for(mode, only)
    buf = io.StringIO()
    try:
        with contextlib.redirect_stdout(buf):
            ctx = analyse(prop, "quick", overlay_text=ov)
        kk = {k["key"] for k in load_known() if k.get("property") == prop and k.get("status") == "known"}
        viol = [f for f in ctx.findings if f.key not in kk]
        floors = [r for r, fl in ctx.floors.items() if ctx.obligations.get(r, 0) < fl and not any(f.rule == r for f in ctx.findings)]
        if viol:
            return f"FALSE-ALARM {mode} {prop} ({len(ov)} files rewritten): " + "; ".join(f"[{f.rule}] {f.relpath}:{f.qualname}: {f.construct}"[:160] for f in viol[:6])
        if floors:
            return f"FLOOR-LOST {mode} {prop}: {floors}"
        return f"ok {mode} {prop} ({len(ov)} files rewritten)"
    except AnalysisError as exc:
        return f"ANALYSIS-ERROR {mode} {prop}: {str(exc)[:200]}"
    except Exception as exc:  # noqa
        import traceback
        return f"CRASH {mode} {prop}: {traceback.format_exc()[-400:]}"


def main() -> None:
    args = sys.argv[1:]
    only = ""
    if "--only" in args:
        i = args.index("--only")
        only = args[i + 1]
        del args[i:i + 2]
    props_sel = [a for a in args if a.startswith("C") and a[1:].isdigit()]
    modes = [a for a in args if a in rp.MODES] or list(rp.MODES)
    props = props_sel or sorted(p.stem.upper() for p in (ROOT / "sa" / "props").glob("c*.py"))
    jobs = [(m, p, only) for m in modes for p in props]
    with concurrent.futures.ProcessPoolExecutor(10) as ex:
        for r in ex.map(one, jobs):
            print(r, flush=True)


if __name__ == "__main__":
    main()
