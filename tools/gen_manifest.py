"""Regenerate MANIFEST.json from the property bindings in sa/props (run by hand)."""
import importlib
import json
import pathlib
import sys

ROOT = pathlib.Path(__file__).resolve().parent.parent
sys.path.insert(0, str(ROOT))

props = [json.loads(l) for l in (ROOT / "properties.jsonl").read_text().splitlines() if l.strip()]
checks = []
na = []
NA_REASONS = json.loads((ROOT / "tools" / "not_applicable.json").read_text()) if (ROOT / "tools" / "not_applicable.json").exists() else {}
served = []
for p in props:
    pid = p["id"]
    try:
        mod = importlib.import_module(f"sa.props.{pid.lower()}")
    except ModuleNotFoundError:
        na.append({"property_id": pid, "reason": NA_REASONS.get(pid, "no static check built yet for this property (see DESIGN.md §4 for the planned clauses)")})
        continue
    served.append(pid)
    checks.append({
        "property_id": pid,
        "quick_cmd": f"/venv/bin/python -m sa.cli check {pid} --tier quick",
        "thorough_cmd": f"/venv/bin/python -m sa.cli check {pid} --tier thorough",
        "evidence_file": f"/verif/evidence/{pid}.json",
        "replay_cmd_template": "/venv/bin/python -m sa.cli explain {path}",
        "engine": "sa",
        "level_claimed": {
            "category": "other",
            "text": "Decides the following necessary conditions of " + pid + ", not the behaviour: " + mod.CLAIM,
            "design_ref": f"DESIGN.md §4 {pid}",
        },
        "level_note": mod.NOTE,
        "technique": mod.TECHNIQUE,
    })
manifest = {
    "version": 1,
    "setup_cmd": "true",
    "hooks": {
        "guard": "AAS_CORE_CODEGEN_VERIF",
        "enable": "no hooks: every check is a static analysis of /repo's sources; nothing in /repo is executed or instrumented, the guard is reserved and unused",
        "baseline_off_cmd": "cd /repo && /venv/bin/python -m pytest -ra -q -p no:cacheprovider --timeout=900 --continue-on-collection-errors",
        "source_commits": [],
        "add_only": True,
    },
    "engines": [{
        "name": "sa",
        "path": "/verif/sa",
        "serves_properties": served,
        "kind_free_text": "repository-specific static analyser (stdlib ast): resolved names, annotation-driven types, per-function CFG, forward dataflow over sets of abstract states, fail-closed rule instances with floors",
    }],
    "checks": checks,
    "notes": "Every check parses /repo/aas_core_codegen from the current working tree on each run. exit 0 = all rule instances hold or are listed known findings; exit 1 + VIOLATION lines = a construct fails a rule; exit 2 + ANALYSIS-ERROR = an anchor vanished or a rule's instance count fell below its floor. Fixed defects of /repo are the unguarded 'fix:' commits listed in known_findings.json.",
    "not_applicable": na,
}
(ROOT / "MANIFEST.json").write_text(json.dumps(manifest, indent=1) + "\n")
print("checks:", served, "not_applicable:", [x["property_id"] for x in na])
