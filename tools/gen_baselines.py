"""Write baselines/skips.json from /repo's CURRENT tree (run by hand after the tree was read; never at check time)."""
import json, pathlib, sys
ROOT = pathlib.Path(__file__).resolve().parent.parent
sys.path.insert(0, str(ROOT))
from sa.model import Program
from sa.rules import skips

p = Program()
out = {}
for m in p.modules.values():
    if True:
        for f in m.functions.values():
            out[f.key] = skips.skip_profile(f)
(ROOT / "baselines").mkdir(exist_ok=True)
(ROOT / "baselines" / "skips.json").write_text(json.dumps(out, indent=1, sort_keys=True))
print(len(out), "functions profiled")

# reference of local-variable names (see sa/model.py:_derename)
from sa.model import ordered_locals
import ast as _ast
loc = {}
for m in p.modules.values():
    def visit(body, prefix):
        for st in body:
            if isinstance(st, (_ast.FunctionDef, _ast.AsyncFunctionDef)):
                loc[f"{m.name}:{prefix}{st.name}"] = ordered_locals(st)
                visit(st.body, prefix + st.name + ".")
            elif isinstance(st, _ast.ClassDef):
                visit(st.body, prefix + st.name + ".")
    visit(m.tree.body, "")
(ROOT / "baselines" / "locals.json").write_text(json.dumps(loc, indent=0, sort_keys=True))
print(len(loc), "functions with local-name references")
