"""Write baselines/skips.json from /repo's CURRENT tree (run by hand after the tree was read; never at check time)."""
import json, pathlib, sys
ROOT = pathlib.Path(__file__).resolve().parent.parent
sys.path.insert(0, str(ROOT))
from sa.model import Program
from sa.rules import skips

SCOPES = (
    "aas_core_codegen.intermediate._translate", "aas_core_codegen.intermediate._hierarchy", "aas_core_codegen.intermediate.construction",
    "aas_core_codegen.parse._translate", "aas_core_codegen.infer_for_schema._len", "aas_core_codegen.infer_for_schema._pattern",
    "aas_core_codegen.infer_for_schema._set", "aas_core_codegen.infer_for_schema._inline", "aas_core_codegen.infer_for_schema._stringify",
    "aas_core_codegen.specific_implementations",
)
p = Program()
out = {}
for m in p.modules.values():
    if m.name in SCOPES or m.name.endswith(".lib._generate_types"):
        for f in m.functions.values():
            out[f.key] = skips.skip_profile(f)
(ROOT / "baselines").mkdir(exist_ok=True)
(ROOT / "baselines" / "skips.json").write_text(json.dumps(out, indent=1, sort_keys=True))
print(len(out), "functions profiled")
