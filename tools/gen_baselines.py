"""Write baselines/skips.json from /repo's CURRENT tree (run by hand after the tree was read; never at check time)."""
import json, pathlib, sys
ROOT = pathlib.Path(__file__).resolve().parent.parent
sys.path.insert(0, str(ROOT))
from sa.model import Program
from sa.rules import skips

p = Program()
out = {}
for m in p.modules.values():
    if True:
        for f in m.functions.values():
            out[f.key] = skips.skip_profile(f)
(ROOT / "baselines").mkdir(exist_ok=True)
(ROOT / "baselines" / "skips.json").write_text(json.dumps(out, indent=1, sort_keys=True))
print(len(out), "functions profiled")
