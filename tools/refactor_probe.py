"""
False-alarm probe, second kind: behaviour-preserving *structural* rewrites of a function, computed on the syntax tree, and the checks
that look at that function run on the in-memory overlay.  Any report is a false alarm of the checker.

  python tools/refactor_probe.py                 # all modes, all probe functions
  python tools/refactor_probe.py invert revm     # one mode, probes whose key contains the substring

Modes
  identity  the whole module re-emitted by ast.unparse (formatting, comments, line numbers change; the program does not)
  invert    every `if c: A else: B` (plain else) becomes `if not (c): B else: A`
  swapeq    `a == b` / `a != b` with two non-constant sides become `b == a` / `b != a`
  deelse    `if c: ...return/continue/raise  else: B` becomes `if c: ...;  B` (else removed after a terminating body)
  addelse   `if c: ...return/continue/raise;  REST` becomes `if c: ... else: REST` (only the last such `if` of each block)
  noise     `assert True, 'probe'` inserted at the start of the function and of every loop body
  extract   `return f(...)` becomes `_extracted = f(...); return _extracted`
"""
import ast
import concurrent.futures
import contextlib
import copy
import io
import pathlib
import sys

ROOT = pathlib.Path(__file__).resolve().parent.parent
sys.path.insert(0, str(ROOT))
sys.path.insert(0, str(ROOT / "tools"))

from rename_probe import PROBES  # noqa

TERMINATORS = (ast.Return, ast.Continue, ast.Raise, ast.Break)


def _find(tree, qualname):
    parts = qualname.split(".")

    def find(body, i):
        for s in body:
            if isinstance(s, (ast.FunctionDef, ast.ClassDef)) and s.name == parts[i]:
                return s if i == len(parts) - 1 else find(s.body, i + 1)
        return None

    return find(tree.body, 0)


def _blocks(node):
    for n in ast.walk(node):
        for attr in ("body", "orelse", "finalbody"):
            b = getattr(n, attr, None)
            if isinstance(b, list) and b and isinstance(b[0], ast.stmt):
                yield n, attr, b


def t_identity(fn):
    return 1


def t_invert(fn):
    n = 0
    for node in ast.walk(fn):
        if isinstance(node, ast.If) and node.orelse and not (len(node.orelse) == 1 and isinstance(node.orelse[0], ast.If)):
            # do not touch elif chains (the parent's orelse is this If): handled by the test above only for the child; check parent too
            node.test = ast.UnaryOp(op=ast.Not(), operand=node.test)
            node.body, node.orelse = node.orelse, node.body
            n += 1
    return n


def t_swapeq(fn):
    n = 0
    for node in ast.walk(fn):
        if isinstance(node, ast.Compare) and len(node.ops) == 1 and isinstance(node.ops[0], (ast.Eq, ast.NotEq)):
            a, b = node.left, node.comparators[0]
            if isinstance(a, ast.Constant) or isinstance(b, ast.Constant):
                continue
            node.left, node.comparators = b, [a]
            n += 1
    return n


def t_deelse(fn):
    n = 0
    changed = True
    while changed:
        changed = False
        for owner, attr, block in _blocks(fn):
            for i, s in enumerate(block):
                if isinstance(s, ast.If) and s.orelse and isinstance(s.body[-1], TERMINATORS) and not (len(s.orelse) == 1 and isinstance(s.orelse[0], ast.If)):
                    # `owner` must not be an If whose orelse is exactly [s] (that is an elif: dedenting changes nothing semantically,
                    # but keep the chain intact)
                    if isinstance(owner, ast.If) and attr == "orelse" and len(block) == 1:
                        continue
                    rest = s.orelse
                    s.orelse = []
                    block[i + 1:i + 1] = rest
                    n += 1
                    changed = True
                    break
            if changed:
                break
    return n


def t_addelse(fn):
    n = 0
    for owner, attr, block in list(_blocks(fn)):
        for i in range(len(block) - 1, -1, -1):
            s = block[i]
            if isinstance(s, ast.If) and not s.orelse and isinstance(s.body[-1], TERMINATORS) and i + 1 < len(block):
                rest = block[i + 1:]
                # do not move nested function definitions or declarations-only tails
                if any(isinstance(r, (ast.FunctionDef, ast.ClassDef)) for r in rest):
                    break
                s.orelse = rest
                del block[i + 1:]
                n += 1
                break
    return n


def t_noise(fn):
    """A statement without effect at the start of the function and at the start of every loop body."""
    n = 0
    stmt = ast.parse("assert True, 'probe'").body[0]
    at = 1 if (fn.body and isinstance(fn.body[0], ast.Expr) and isinstance(fn.body[0].value, ast.Constant) and isinstance(fn.body[0].value.value, str)) else 0
    fn.body.insert(at, copy.deepcopy(stmt))
    n += 1
    for node in ast.walk(fn):
        if isinstance(node, (ast.For, ast.While)) and node is not fn:
            node.body.insert(0, copy.deepcopy(stmt))
            n += 1
    return n


def t_extract(fn):
    """`return <call>(...)` becomes `_extracted = <call>(...); return _extracted` (extract local variable)."""
    n = 0
    for owner, attr, block in list(_blocks(fn)):
        i = 0
        while i < len(block):
            st = block[i]
            if isinstance(st, ast.Return) and isinstance(st.value, ast.Call):
                tmp = ast.Assign(targets=[ast.Name(id="_extracted", ctx=ast.Store())], value=st.value, lineno=st.lineno, col_offset=st.col_offset)
                st.value = ast.Name(id="_extracted", ctx=ast.Load())
                block.insert(i, tmp)
                i += 1
                n += 1
            i += 1
    return n


MODES = {"noise": t_noise, "extract": t_extract, "identity": t_identity, "invert": t_invert, "swapeq": t_swapeq, "deelse": t_deelse, "addelse": t_addelse}


def rewritten(src: str, qualname: str, mode: str):
    tree = ast.parse(src, type_comments=True)
    fn = _find(tree, qualname)
    assert fn is not None, qualname
    n = MODES[mode](fn)
    ast.fix_missing_locations(tree)
    out = ast.unparse(tree)
    ast.parse(out)
    return out, n


def run_probe(job):
    mode, (rel, qualname, props) = job
    from sa.selftest import analyse
    from sa.report import load_known
    from sa.model import AnalysisError

    src = (pathlib.Path("/repo") / rel).read_text()
    new, n = rewritten(src, qualname, mode)
    if n == 0:
        return f"n/a {mode} {rel}:{qualname}"
    known = load_known()
    out = []
    for prop in props:
        buf = io.StringIO()
        try:
            with contextlib.redirect_stdout(buf):
                ctx = analyse(prop, "quick", overlay_text={rel: new})
            kk = {k["key"] for k in known if k.get("property") == prop and k.get("status") == "known"}
            viol = [f for f in ctx.findings if f.key not in kk]
            floors_ok = all(ctx.obligations.get(r, 0) >= fl or any(f.rule == r for f in ctx.findings) for r, fl in ctx.floors.items())
            if viol:
                out.append(f"FALSE-ALARM {mode} {prop} in {rel}:{qualname} ({n} rewrites): " + "; ".join(f"[{f.rule}] {f.construct}" for f in viol[:3]))
            elif not floors_ok:
                out.append(f"FLOOR-LOST {mode} {prop} in {rel}:{qualname} ({n} rewrites)")
        except AnalysisError as exc:
            out.append(f"ANALYSIS-ERROR {mode} {prop} in {rel}:{qualname} ({n} rewrites): {str(exc)[:160]}")
        except Exception as exc:  # noqa
            out.append(f"CRASH {mode} {prop} in {rel}:{qualname}: {type(exc).__name__}: {str(exc)[:160]}")
    return "\n".join(out) if out else f"ok {mode} {rel}:{qualname} {props} ({n} rewrites)"


def main() -> None:
    args = sys.argv[1:]
    modes = [a for a in args if a in MODES] or list(MODES)
    subs = [a for a in args if a not in MODES]
    sub = subs[0] if subs else ""
    probes = [p for p in PROBES if sub in p[0] + ":" + p[1]]
    jobs = [(m, p) for m in modes for p in probes]
    if "identity" in modes:
        # one identity job per module is enough
        seen = set()
        jobs2 = []
        for m, p in jobs:
            if m == "identity":
                if p[0] in seen:
                    continue
                seen.add(p[0])
                allprops = sorted({x for q in PROBES if q[0] == p[0] for x in q[2]})
                p = (p[0], p[1], allprops)
            jobs2.append((m, p))
        jobs = jobs2
    with concurrent.futures.ProcessPoolExecutor(6) as ex:
        for r in ex.map(run_probe, jobs):
            print(r, flush=True)


if __name__ == "__main__":
    main()
