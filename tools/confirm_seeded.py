"""
Confirm a sub-agent's change in a scratch worktree and store it under /verif/seeded/<name>/.

  python tools/confirm_seeded.py <out_dir_of_agent>/<A|B> <name> <property> [--skip-suite]

Steps: demo on the unchanged worktree (must exit 0), apply the patch, demo again
(must exit 1), run the pinned suite (only the known cpp v3 failure allowed),
remove the worktree.  meta.json records what was run.
"""
import json
import pathlib
import shutil
import subprocess
import sys
import time

ROOT = pathlib.Path(__file__).resolve().parent.parent


def sh(cmd, cwd=None, timeout=None):
    r = subprocess.run(cmd, shell=True, cwd=cwd, capture_output=True, text=True, timeout=timeout)
    return r.returncode, (r.stdout + r.stderr)


def main():
    src = pathlib.Path(sys.argv[1])
    name = sys.argv[2]
    prop = sys.argv[3]
    skip_suite = "--skip-suite" in sys.argv
    wt = pathlib.Path(f"/tmp/confirm/{name}")
    if wt.exists():
        sh(f"git -C /repo worktree remove --force {wt}")
    wt.parent.mkdir(parents=True, exist_ok=True)
    rc, out = sh(f"git -C /repo worktree add -q --detach {wt} HEAD")
    assert rc == 0, out
    meta = {"property": prop, "name": name, "source": str(src), "ran": []}
    try:
        demo = src / "demo.py"
        patch = src / "patch.diff"
        run_demo = f"cd {wt} && PYTHONPATH={wt} /venv/bin/python {demo}"
        rc0, out0 = sh(run_demo, timeout=1800)
        meta["ran"].append({"cmd": "demo.py on unchanged tree", "exit": rc0, "tail": out0.strip().splitlines()[-1:]})
        rca, outa = sh(f"git -C {wt} apply {patch}")
        rebased = None
        if rca != 0:
            # the change was written against an earlier commit of /repo: apply with fuzz and re-diff
            rca, outa2 = sh(f"patch -p1 -f -d {wt} -i {patch}")
            outa = outa + " | patch -p1: " + outa2
            if rca == 0:
                sh(f"find {wt} -name '*.orig' -delete")
                _, rebased = sh(f"git -C {wt} diff")
        meta["ran"].append({"cmd": "git apply patch.diff (or patch -p1 with fuzz, re-diffed against the current HEAD)", "exit": rca, "out": outa[-300:]})
        rc1, out1 = sh(run_demo, timeout=1800)
        meta["ran"].append({"cmd": "demo.py with the change", "exit": rc1, "tail": out1.strip().splitlines()[-1:]})
        suite_ok = None
        if not skip_suite:
            t = time.time()
            rcs, outs = sh(f"cd {wt} && PYTHONPATH={wt} /venv/bin/python -m pytest dev/tests -q -p no:cacheprovider --timeout=3000 -n 12", timeout=7200)
            tail = [l for l in outs.strip().splitlines() if l.startswith("FAILED") or " passed" in l or " failed" in l]
            meta["ran"].append({"cmd": "pytest dev/tests -n 12 with the change", "exit": rcs, "summary": tail[-6:], "seconds": round(time.time() - t)})
            failed = [l for l in tail if l.startswith("FAILED")]
            suite_ok = all("Test_cpp::test_expected_aas_core_meta_v3" in l for l in failed)
        meta["confirmed"] = bool(rc0 == 0 and rca == 0 and rc1 == 1 and (suite_ok is not False))
        meta["suite_ok"] = suite_ok
        notes = src / "notes.md"
        dst = ROOT / "seeded" / name
        dst.mkdir(parents=True, exist_ok=True)
        if rebased:
            (dst / "patch.diff").write_text(rebased)
            shutil.copy(patch, dst / "patch.original.diff")
        else:
            shutil.copy(patch, dst / "patch.diff")
        shutil.copy(demo, dst / "demo.py")
        if notes.exists():
            shutil.copy(notes, dst / "notes.md")
            meta["needs_to_manifest"] = notes.read_text()[:1500]
        old = {}
        if (dst / "meta.json").exists():
            old = json.loads((dst / "meta.json").read_text())
        for k in ("detected_by", "detected_note"):
            if k in old:
                meta[k] = old[k]
        (dst / "meta.json").write_text(json.dumps(meta, indent=1))
        print(name, "confirmed" if meta["confirmed"] else "NOT CONFIRMED", json.dumps(meta["ran"])[:600])
    finally:
        sh(f"git -C /repo worktree remove --force {wt}")
        shutil.rmtree(wt, ignore_errors=True)


if __name__ == "__main__":
    main()
