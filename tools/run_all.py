"""Run every claimed check (quick or thorough) in parallel and print one line per property."""
import concurrent.futures, json, pathlib, subprocess, sys
ROOT = pathlib.Path(__file__).resolve().parent.parent
tier = sys.argv[1] if len(sys.argv) > 1 else "quick"
man = json.loads((ROOT / "MANIFEST.json").read_text())
def run(c):
    cmd = c[f"{tier}_cmd"]
    r = subprocess.run(cmd, shell=True, cwd=ROOT, capture_output=True, text=True)
    last = [l for l in r.stdout.splitlines() if l.startswith(c["property_id"] if "property_id" in c else "C")][-1:]
    return c.get("property_id") or c.get("id"), r.returncode, (last[0] if last else (r.stdout + r.stderr)[-300:])
checks = man["checks"]
with concurrent.futures.ThreadPoolExecutor(8) as ex:
    for pid, rc, line in ex.map(run, checks):
        print(pid, "exit", rc, "|", line)
