"""
False-alarm probe: rename every local variable of a function (a behaviour-preserving edit) and run the checks that look at that
function on the in-memory overlay.  Any report is a false alarm of the checker (it matched a name instead of a fact).

  python tools/rename_probe.py            # all probes
  python tools/rename_probe.py revm       # probes whose key contains the substring
"""
import ast
import concurrent.futures
import contextlib
import io
import pathlib
import sys

ROOT = pathlib.Path(__file__).resolve().parent.parent
sys.path.insert(0, str(ROOT))

PROBES = [
    # (module relpath, function qualname, properties to run)
    ("aas_core_codegen/jsonschema/main.py", "_translate_constraints", ["C11", "C12"]),
    ("aas_core_codegen/jsonschema/main.py", "_define_properties", ["C11", "C12"]),
    ("aas_core_codegen/jsonschema/main.py", "_list_required_properties", ["C12"]),
    ("aas_core_codegen/jsonschema/main.py", "_generate_concrete_definition", ["C11", "C12"]),
    ("aas_core_codegen/jsonschema/main.py", "_define_type", ["C11", "C12"]),
    ("aas_core_codegen/jsonschema/main.py", "generate", ["C11", "C12", "C22"]),
    ("aas_core_codegen/jsonschema/main.py", "fix_pattern_for_utf16", ["C11", "C17"]),
    ("aas_core_codegen/xsd/main.py", "_translate_to_simple_type", ["C13", "C14"]),
    ("aas_core_codegen/xsd/main.py", "_value_to_type_element_or_type_identifier", ["C13", "C14"]),
    ("aas_core_codegen/xsd/main.py", "_define_properties", ["C13", "C14"]),
    ("aas_core_codegen/xsd/main.py", "_translate_pattern", ["C13"]),
    ("aas_core_codegen/python/lib/_generate_jsonization.py", "_generate_transform", ["C10"]),
    ("aas_core_codegen/python/lib/_generate_jsonization.py", "_generate_setter_map", ["C10"]),
    ("aas_core_codegen/python/lib/_generate_types.py", "_generate_descend_body", ["C29"]),
    ("aas_core_codegen/python/lib/_generate_types.py", "_generate_abstract_visitor", ["C29"]),
    ("aas_core_codegen/python/lib/_generate_stringification.py", "_generate_enum_from_string", ["C30", "C10"]),
    ("aas_core_codegen/python/lib/_generate_constants.py", "_generate_constant_primitive", ["C30"]),
    ("aas_core_codegen/python/lib/_generate_constants.py", "_generate_constant_set_of_primitives", ["C30"]),
    ("aas_core_codegen/intermediate/_translate.py", "_resolve_subsets_in_constant_set_of_primitives", ["C30"]),
    ("aas_core_codegen/intermediate/_translate.py", "_second_pass_to_resolve_constant_subsets_in_place", ["C30"]),
    ("aas_core_codegen/intermediate/_translate.py", "_second_pass_to_stack_invariants_in_place", ["C05", "C06"]),
    ("aas_core_codegen/intermediate/_translate.py", "_verify", ["C06", "C03"]),
    ("aas_core_codegen/intermediate/revm.py", "_Translator.transform_term", ["C18", "C09"]),
    ("aas_core_codegen/intermediate/revm.py", "_Translator.transform_regex", ["C18", "C09"]),
    ("aas_core_codegen/yielding/linear.py", "_remove_noops_in_place", ["C26"]),
    ("aas_core_codegen/yielding/linear.py", "_fix_labels_in_place", ["C26"]),
    ("aas_core_codegen/common.py", "wrap_text_into_lines", ["C27"]),
    ("aas_core_codegen/common.py", "LinenoColumner.__init__", ["C04"]),
    ("aas_core_codegen/run.py", "load_model", ["C24", "C23", "C28"]),
    ("aas_core_codegen/specific_implementations.py", "read_from_directory", ["C25", "C22"]),
    ("aas_core_codegen/infer_for_schema/_len.py", "_match_len_constraint_on_member_or_name", ["C15"]),
    ("aas_core_codegen/infer_for_schema/_inline.py", "_infer_constraints_by_constrained_primitive", ["C15", "C12"]),
    ("aas_core_codegen/infer_for_schema/match.py", "try_conditional_on_prop", ["C15"]),
    ("aas_core_codegen/parse/retree/_fix.py", "_FixForUTF16Regex._expand_char_set_to_surrogates_if_necessary", ["C17"]),
    ("aas_core_codegen/parse/retree/_parse.py", "_parse_ranges_and_closing", ["C16"]),
    ("aas_core_codegen/parse/retree/_render.py", "Renderer.transform_char_set", ["C16", "C13"]),
    ("aas_core_codegen/intermediate/type_inference.py", "_Inferrer.transform_function_call", ["C07"]),
    ("aas_core_codegen/intermediate/type_inference.py", "_Inferrer.transform_for_each", ["C07"]),
    ("aas_core_codegen/python/description.py", "docstring", ["C20"]),
    ("aas_core_codegen/java/description.py", "documentation_comment", ["C20"]),
    ("aas_core_codegen/python/transpilation.py", "Transpiler.transform_joined_str", ["C09", "C08"]),
    ("aas_core_codegen/golang/transpilation.py", "Transpiler.transform_joined_str", ["C09"]),
    ("aas_core_codegen/csharp/lib/_generate_types.py", "_verify_intra_structure_collisions", ["C21"]),
    ("aas_core_codegen/golang/lib/_generate_types.py", "_verify_structure_name_collisions", ["C21"]),
    ("aas_core_codegen/cpp/common.py", "bytes_literal", ["C19"]),
    ("aas_core_codegen/intermediate/_hierarchy.py", "map_symbol_table_to_ontology", ["C05", "C06"]),
    ("aas_core_codegen/intermediate/_translate.py", "_verify_only_simple_type_patterns", ["C06", "C02"]),
    ("aas_core_codegen/intermediate/_translate.py", "_verify_constructor_arguments_and_properties_match", ["C06"]),
    ("aas_core_codegen/intermediate/_translate.py", "_second_pass_to_stack_serializations_in_place", ["C05"]),
    ("aas_core_codegen/intermediate/type_inference.py", "_Inferrer.transform_for_range", ["C07", "C04"]),
    ("aas_core_codegen/intermediate/type_inference.py", "_Inferrer.transform_comparison", ["C07", "C04"]),
    ("aas_core_codegen/cpp/lib/_generate_pattern.py", "_render_comment_re_node", ["C20", "C18"]),
    ("aas_core_codegen/golang/common.py", "string_literal", ["C19", "C20"]),
    ("aas_core_codegen/python/common.py", "string_literal", ["C19", "C30"]),
    ("aas_core_codegen/csharp/transpilation.py", "Transpiler.transform_joined_str", ["C09"]),
    ("aas_core_codegen/python/transpilation.py", "Transpiler._transform_add_or_sub", ["C08"]),
    ("aas_core_codegen/python/lib/_generate_xmlization.py", "_generate_write_cls_as_sequence", ["C10"]),
    ("aas_core_codegen/python/lib/_generate_types.py", "_generate_class", ["C29"]),
    ("aas_core_codegen/smoke/main.py", "execute", ["C28", "C03"]),
    ("aas_core_codegen/python/main.py", "execute", ["C03", "C02"]),
    ("aas_core_codegen/main.py", "execute", ["C03", "C23"]),
    ("aas_core_codegen/parse/_translate.py", "source_to_atok", ["C01"]),
    ("aas_core_codegen/parse/retree/_parse.py", "_parse_concatenation", ["C16", "C17"]),
    ("aas_core_codegen/infer_for_schema/_inline.py", "tightening_steps_from_other_to_that_constraints", ["C12", "C22"]),
    ("aas_core_codegen/infer_for_schema/_inline.py", "_merge_len_constraints", ["C15", "C02"]),
    ("aas_core_codegen/yielding/linear.py", "_linearize_for", ["C26"]),
]


def renamed_source(src: str, qualname: str) -> str:
    tree = ast.parse(src)
    node = None
    parts = qualname.split(".")

    def find(body, i):
        for s in body:
            if isinstance(s, (ast.FunctionDef, ast.ClassDef)) and s.name == parts[i]:
                return s if i == len(parts) - 1 else find(s.body, i + 1)
        return None

    node = find(tree.body, 0)
    assert node is not None, qualname
    params = {a.arg for a in node.args.args + node.args.kwonlyargs + ([node.args.vararg] if node.args.vararg else []) + ([node.args.kwarg] if node.args.kwarg else [])}
    stored = set()
    for n in ast.walk(node):
        if isinstance(n, ast.Name) and isinstance(n.ctx, ast.Store):
            stored.add(n.id)
        if isinstance(n, (ast.FunctionDef, ast.Lambda)) and n is not node:
            pass
    locals_ = {x for x in stored - params if not x.startswith("__") and x != "_"}
    # names bound by nested function definitions / comprehensions are included via ast.Name Store; that is fine (consistent rename)
    sites = sorted(((n.lineno, n.col_offset, n.id) for n in ast.walk(node) if isinstance(n, ast.Name) and n.id in locals_), reverse=True)
    lines = src.splitlines(keepends=True)
    for ln, col, name in sites:
        line = lines[ln - 1]
        # col_offset is in utf-8 bytes
        b = line.encode("utf-8")
        assert b[col:col + len(name.encode())] == name.encode(), (ln, col, name, line)
        b = b[:col] + (name + "_rn").encode() + b[col + len(name.encode()):]
        lines[ln - 1] = b.decode("utf-8")
    out = "".join(lines)
    ast.parse(out)
    return out


def run_probe(probe):
    rel, qualname, props = probe
    from sa.selftest import analyse
    from sa.report import load_known
    from sa.model import AnalysisError

    src = (pathlib.Path("/repo") / rel).read_text()
    try:
        new = renamed_source(src, qualname)
    except AssertionError as exc:
        return f"SKIP {rel}:{qualname} (cannot rename: {exc})"
    known = load_known()
    out = []
    for prop in props:
        buf = io.StringIO()
        try:
            with contextlib.redirect_stdout(buf):
                ctx = analyse(prop, "quick", overlay_text={rel: new})
            kk = {k["key"] for k in known if k.get("property") == prop and k.get("status") == "known"}
            viol = [f for f in ctx.findings if f.key not in kk]
            floors_ok = all(ctx.obligations.get(r, 0) >= fl or any(f.rule == r for f in ctx.findings) for r, fl in ctx.floors.items())
            if viol:
                out.append(f"FALSE-ALARM {prop} on rename in {rel}:{qualname}: " + "; ".join(f"[{f.rule}] {f.construct}" for f in viol[:3]))
            elif not floors_ok:
                out.append(f"FLOOR-LOST {prop} on rename in {rel}:{qualname}")
        except AnalysisError as exc:
            out.append(f"ANALYSIS-ERROR {prop} on rename in {rel}:{qualname}: {str(exc)[:120]}")
    return "\n".join(out) if out else f"ok {rel}:{qualname} {props}"


def main() -> None:
    sub = sys.argv[1] if len(sys.argv) > 1 else ""
    probes = [p for p in PROBES if sub in p[0] + ":" + p[1]]
    with concurrent.futures.ProcessPoolExecutor(6) as ex:
        for r in ex.map(run_probe, probes):
            print(r, flush=True)


if __name__ == "__main__":
    main()
