"""
Reproductions of the genuine defects found by the static checks.

NOT a deciding step of any check: run by hand (``/venv/bin/python
repro/repro.py [--repo /repo] [case ...]``) to show the failing input against
the real code, before and after a ``fix:`` commit.  Each case prints
``DEFECT <name>: ...`` when the defect manifests and ``OK <name>`` otherwise.
"""
import argparse
import contextlib
import io
import os
import pathlib
import shutil
import sys
import tempfile
import textwrap
import traceback

CASES = {}

SOMETHING = """
class Something(DBC):
    x: int
    def __init__(self, x: int) -> None:
        self.x = x
"""


def case(fn):
    CASES[fn.__name__] = fn
    return fn


HEADER = '''
from typing import List, Optional, Set
from icontract import DBC, invariant
from aas_core_meta.marker import (
    abstract, serialization, implementation_specific, verification, constant_set
)
'''
FOOTER = '''
__version__ = "dummy"
__xml_namespace__ = "https://dummy.com"
'''

SNIPPETS = {
    "python": {"qualified_module_name.txt": "dummy"},
    "cpp": {"namespace.txt": "dummy"},
    "csharp": {"namespace.txt": "Dummy"},
    "golang": {"repo_url.txt": "example.com/dummy"},
    "java": {"package.txt": "dummy"},
    "typescript": {},
    "jsonschema": {"schema_base.json": '{"$schema": "https://json-schema.org/draft/2019-09/schema", "title": "T", "type": "object"}'},
    "xsd": {"root_element.xml": '<xs:element name="environment" type="environment"/>'},
}


def run_main(model: str, target: str, snippets=None, cache_model=False, header=True):
    """Run aas_core_codegen.main.execute; return (rc|None, stdout, stderr, exc)."""
    import aas_core_codegen.main as M

    tmp = pathlib.Path(tempfile.mkdtemp(prefix="repro-"))
    try:
        mp = tmp / "meta_model.py"
        mp.write_text((HEADER if header else "") + textwrap.dedent(model) + FOOTER, encoding="utf-8")
        sd = tmp / "snippets"
        sd.mkdir()
        for k, v in {**SNIPPETS.get(target, {}), **(snippets or {})}.items():
            p = sd / k
            p.parent.mkdir(parents=True, exist_ok=True)
            if isinstance(v, bytes):
                p.write_bytes(v)
            else:
                p.write_text(v, encoding="utf-8")
        od = tmp / "out"
        od.mkdir()
        params = M.Parameters(
            model_path=mp, target=M.Target(target), snippets_dir=sd, output_dir=od,
            cache_model=cache_model,
        )
        out, err = io.StringIO(), io.StringIO()
        try:
            rc = M.execute(params, stdout=out, stderr=err)
            exc = None
        except BaseException as e:  # noqa
            rc = None
            exc = e
        return rc, out.getvalue(), err.getvalue(), exc, tmp
    finally:
        pass


def report(name, defect: bool, detail: str):
    print(("DEFECT " if defect else "OK ") + name + (": " + detail if detail else ""))


@case
def c23_cache_flag_ignored():
    import aas_core_codegen, hashlib
    model = SOMETHING
    cache_dir = pathlib.Path(tempfile.gettempdir()) / f"aas-core-codegen-{aas_core_codegen.__version__}"
    before = set(cache_dir.glob("*.pickle")) if cache_dir.exists() else set()
    rc, out, err, exc, tmp = run_main(model + f"# {os.getpid()} {id(model)}\n", "python")
    after = set(cache_dir.glob("*.pickle")) if cache_dir.exists() else set()
    new = after - before
    for p in new:
        p.unlink()
    report("c23_cache_flag_ignored", bool(new), f"run without --cache_model wrote {sorted(x.name for x in new)}")
    shutil.rmtree(tmp)


@case
def c04_column_shift():
    model = "class Something(DBC):\n    pass\n\nclass Something(DBC):\n    pass\n"
    rc, out, err, exc, tmp = run_main(model, "python", header=False)
    # the duplicate class starts at column 1 of its line
    report("c04_column_shift", "column 2" in err, err.strip().splitlines()[-1] if err else repr(exc))
    shutil.rmtree(tmp)


@case
def c21_intra_structure_collision_ignored():
    model = '''
    class Something(DBC):
        some_URL: str
        some_url: str
        def __init__(self, some_URL: str, some_url: str) -> None:
            self.some_URL = some_URL
            self.some_url = some_url
    '''
    res = {}
    for t in ["python", "csharp", "golang", "java", "typescript", "cpp"]:
        rc, out, err, exc, tmp = run_main(model, t)
        res[t] = (rc, type(exc).__name__ if exc else None)
        shutil.rmtree(tmp)
    bad = {t: r for t, r in res.items() if t in ("python", "csharp", "java") and (r[0] == 0 or r[1])}
    report("c21_intra_structure_collision_ignored", bool(bad), f"colliding property names some_URL/some_url: (exit, exception) per target = {res}")


@case
def c02_cpp_main_asserts_on_verification_errors():
    model = '''
    class Some_thing(DBC):
        pass

    class Some_Thing(DBC):
        pass
    '''
    rc, out, err, exc, tmp = run_main(model, "cpp")
    report("c02_cpp_main_asserts_on_verification_errors", exc is not None, f"rc={rc} exc={type(exc).__name__ if exc else None} stderr={err[:120]!r}")
    shutil.rmtree(tmp)


@case
def c01_constant_set_three_positional():
    model = '''
Some_set: Set[str] = constant_set(["a", "b"], "some description", [])
''' + SOMETHING
    rc, out, err, exc, tmp = run_main(model, "python")
    report("c01_constant_set_three_positional", exc is not None, f"rc={rc} exc={type(exc).__name__ if exc else None}: {exc}")
    shutil.rmtree(tmp)


@case
def c06_constrained_primitive_with_properties_accepted():
    model = '''
    class Weird(str, DBC):
        some_prop: int
        def __init__(self, some_prop: int) -> None:
            self.some_prop = some_prop

    class Something(DBC):
        x: Weird
        def __init__(self, x: Weird) -> None:
            self.x = x
    '''
    rc, out, err, exc, tmp = run_main(model, "jsonschema")
    report("c06_constrained_primitive_with_properties_accepted", rc == 0 or exc is not None, f"rc={rc} exc={type(exc).__name__ if exc else None} stderr={err[:200]!r}")
    shutil.rmtree(tmp)


@case
def c05_diamond_duplicates_ancestors():
    import aas_core_codegen.run as R
    model = '''
    @abstract
    class A(DBC):
        pass
    @abstract
    class B(A):
        pass
    @abstract
    class C(A):
        pass
    class D(B, C):
        pass
    '''
    tmp = pathlib.Path(tempfile.mkdtemp(prefix="repro-"))
    mp = tmp / "m.py"
    mp.write_text(HEADER + textwrap.dedent(model) + FOOTER)
    res, err = R.load_model(mp)
    if err is not None:
        report("c05_diamond_duplicates_ancestors", True, "rejected: " + err[:200])
    else:
        st = res[0]
        d = st.must_find_class("D")
        a = st.must_find_class("A")
        anc = [c.name for c in d.ancestors]
        desc = [c.name for c in a.descendants]
        report("c05_diamond_duplicates_ancestors", len(anc) != len(set(anc)) or len(desc) != len(set(desc)), f"D.ancestors={anc} A.descendants={desc}")
    shutil.rmtree(tmp)


@case
def c25_hidden_directory_not_ignored():
    model = SOMETHING
    rc, out, err, exc, tmp = run_main(model, "python", snippets={".git/config": "x", ".hidden.txt": "y"})
    report("c25_hidden_directory_not_ignored", rc != 0 or exc is not None, f"rc={rc} stderr={err[:200]!r}")
    shutil.rmtree(tmp)


@case
def c02_len_constraint_zero_bound():
    model = '''
    @invariant(lambda self: len(self.xs) >= 0, "non-negative")
    @invariant(lambda self: len(self.xs) <= 5, "at most five")
    class Something(DBC):
        xs: List[str]
        def __init__(self, xs: List[str]) -> None:
            self.xs = xs
    '''
    rc, out, err, exc, tmp = run_main(model, "jsonschema")
    report("c02_len_constraint_zero_bound", exc is not None, f"rc={rc} exc={type(exc).__name__ if exc else None}")
    shutil.rmtree(tmp)


@case
def c02_len_constraint_merge_contradiction():
    model = '''
    @invariant(lambda self: len(self.xs) >= 10, "at least ten")
    class Parent(DBC):
        xs: List[str]
        def __init__(self, xs: List[str]) -> None:
            self.xs = xs

    @invariant(lambda self: len(self.xs) <= 5, "at most five")
    class Child(Parent):
        def __init__(self, xs: List[str]) -> None:
            Parent.__init__(self, xs)
    '''
    rc, out, err, exc, tmp = run_main(model, "jsonschema")
    report("c02_len_constraint_merge_contradiction", exc is not None, f"rc={rc} exc={type(exc).__name__ if exc else None}")
    shutil.rmtree(tmp)


@case
def c20_float_default_repr():
    model = '''
    class Something(DBC):
        x: float
        def __init__(self, x: float = 2.5) -> None:
            self.x = x
    '''
    bad = {}
    for t in ("python", "csharp"):
        rc, out, err, exc, tmp = run_main(model, t)
        hits = [p for p in (tmp / "out").rglob("*") if p.is_file() and "DefaultPrimitive object at" in p.read_text(errors="ignore")]
        if hits:
            bad[t] = [h.name for h in hits]
        shutil.rmtree(tmp)
    report("c20_float_default_repr", bool(bad), f"generated files containing the repr of the default: {bad}")


@case
def c16_retree_crashes():
    from aas_core_codegen.parse import retree
    res = {}
    for pat in ["^*", "{", "a{5,3}", "[a-", "[--a]", "[^\U0001F600]", "[]", "a}"]:
        try:
            r, e = retree.parse([pat])
            if e is None:
                rendered = "".join(str(x) for x in retree.render(r))
                try:
                    r2, e2 = retree.parse([rendered])
                    res[pat] = f"ok -> {rendered!r}" + ("" if e2 is None else " (rendering does not re-parse)")
                except BaseException as ex:
                    res[pat] = f"ok -> {rendered!r} (re-parse raises {type(ex).__name__})"
            else:
                res[pat] = "error reported"
        except BaseException as ex:  # noqa
            res[pat] = f"RAISES {type(ex).__name__}"
    report("c16_retree_crashes", any("RAISES" in v or "does not" in v or "re-parse raises" in v for v in res.values()) or res["[]"].startswith("ok"), str(res))


def _schema(model):
    import json
    rc, out, err, exc, tmp = run_main(model, "jsonschema")
    try:
        if rc != 0:
            return None, err or repr(exc)
        return json.loads((tmp / "out" / "schema.json").read_text()), None
    finally:
        shutil.rmtree(tmp)


@case
def c11_dangling_ref_abstract_without_descendants():
    model = """
    @abstract
    class Lonely(DBC):
        pass

    class Something(DBC):
        x: Optional["Lonely"]
        def __init__(self, x: Optional["Lonely"] = None) -> None:
            self.x = x
    """
    schema, err = _schema(model)
    if schema is None:
        report("c11_dangling_ref_abstract_without_descendants", False, "rejected: " + err.strip()[-200:])
        return
    ref = schema["definitions"]["Something"]["properties"]["x"]["$ref"].split("/")[-1]
    report("c11_dangling_ref_abstract_without_descendants", ref not in schema["definitions"], f"$ref to {ref!r}; definitions: {sorted(schema['definitions'])}")


BYTES_MODEL = """
@invariant(lambda self: LEN_COND, "bytes length")
class Something(DBC):
    b: bytearray
    def __init__(self, b: bytearray) -> None:
        self.b = b
"""


@case
def c11_bytes_max_length_in_bytes():
    import base64
    import jsonschema
    schema, err = _schema(BYTES_MODEL.replace("LEN_COND", "len(self.b) <= 3"))
    assert schema is not None, err
    sub = dict(schema["definitions"]["Something"])
    doc = {"b": base64.b64encode(b"abc").decode()}
    try:
        jsonschema.validate(doc, sub)
        report("c11_bytes_max_length_in_bytes", False, f"3 bytes accepted: {sub['properties']['b']}")
    except jsonschema.ValidationError as ex:
        report("c11_bytes_max_length_in_bytes", True, f"valid 3-byte value {doc} rejected: {ex.message}")


@case
def c12_bytes_min_length_in_bytes():
    import base64
    import jsonschema
    schema, err = _schema(BYTES_MODEL.replace("LEN_COND", "len(self.b) >= 4"))
    assert schema is not None, err
    sub = dict(schema["definitions"]["Something"])
    doc = {"b": base64.b64encode(b"abc").decode()}
    try:
        jsonschema.validate(doc, sub)
        report("c12_bytes_min_length_in_bytes", True, f"3-byte value {doc} accepted although at least 4 bytes are required: {sub['properties']['b']}")
    except jsonschema.ValidationError as ex:
        report("c12_bytes_min_length_in_bytes", False, f"rejected: {ex.message}")


@case
def c12_model_type_not_required():
    import jsonschema
    model = """
    @serialization(with_model_type=True)
    class Something(DBC):
        x: int
        def __init__(self, x: int) -> None:
            self.x = x
    """
    schema, err = _schema(model)
    assert schema is not None, err
    sub = dict(schema["definitions"]["Something"])
    try:
        jsonschema.validate({"x": 1}, sub)
        report("c12_model_type_not_required", True, f"document without modelType accepted; required={sub.get('required')}")
    except jsonschema.ValidationError as ex:
        report("c12_model_type_not_required", False, f"rejected: {ex.message}")


@case
def c13_backslash_x_becomes_live():
    import aas_core_codegen.xsd.main as X
    res = {p: X._translate_pattern(p) for p in ["^a\\x2a$", "^\\x24$", "^[\\x5d]$"]}
    bad = res["^a\\x2a$"][0] == "a*" or res["^\\x24$"][0] == "" or res["^[\\x5d]$"][1] is not None
    report("c13_backslash_x_becomes_live", bad, str(res))


@case
def c13_illegal_xsd_escapes():
    import aas_core_codegen.xsd.main as X
    import xmlschema
    out = {}
    for p in ["^\\u00e9$", "^a\\$b$", "^a\\fb$"]:
        t, e = X._translate_pattern(p)
        xsd = ('<xs:schema xmlns:xs="http://www.w3.org/2001/XMLSchema"><xs:simpleType name="t"><xs:restriction base="xs:string">'
               f'<xs:pattern value="{t}"/></xs:restriction></xs:simpleType><xs:element name="e" type="t"/></xs:schema>')
        try:
            xmlschema.XMLSchema(xsd)
            out[p] = f"{t!r}: accepted by xmlschema"
        except Exception as ex:  # noqa
            out[p] = f"{t!r}: REJECTED by xmlschema ({str(ex).splitlines()[0][:80]})"
    report("c13_illegal_xsd_escapes", any("REJECTED" in v for v in out.values()), str(out))


def _grep_out(tmp, needle):
    import subprocess
    return subprocess.run(f"grep -rn -A1 '{needle}' {tmp}/out | head -6", shell=True, capture_output=True, text=True).stdout


@case
def c20_python_docstring_trailing_quote():
    import ast as _ast
    from aas_core_codegen.common import Stripped
    import aas_core_codegen.python.description as P
    d = P.docstring(Stripped('Say "hello"'))
    try:
        _ast.parse("x = " + d)
        report("c20_python_docstring_trailing_quote", False, d)
    except SyntaxError as ex:
        report("c20_python_docstring_trailing_quote", True, f"{d!r}: {ex}")


@case
def c20_block_comment_end():
    from aas_core_codegen.common import Stripped
    import aas_core_codegen.java.description as J
    import aas_core_codegen.typescript.description as T
    out = {t.__name__.split(".")[1]: t.documentation_comment(Stripped("ends */ early")) for t in (J, T)}
    report("c20_block_comment_end", any(v.count("*/") > 1 for v in out.values()), str(out))


@case
def c20_cpp_comment_line_splice():
    model = """
    class Something(DBC):
        \"\"\"Represent a path ending in a backslash\\\\\\\\\"\"\"
        x: int
        def __init__(self, x: int) -> None:
            self.x = x
    """
    rc, out, err, exc, tmp = run_main(model, "cpp")
    hit = _grep_out(tmp, "ending in a backslash")
    shutil.rmtree(tmp)
    report("c20_cpp_comment_line_splice", "backslash\\\n" in hit, hit.strip()[:300])


@case
def c20_java_unicode_escape_in_comment():
    model = """
    class Something(DBC):
        \"\"\"Represent a Windows path such as ``C:\\\\users``.\"\"\"
        x: int
        def __init__(self, x: int) -> None:
            self.x = x
    """
    rc, out, err, exc, tmp = run_main(model, "java")
    hit = _grep_out(tmp, "Windows path")
    shutil.rmtree(tmp)
    report("c20_java_unicode_escape_in_comment", "C:\\users" in hit, hit.strip()[:200] + " (javac: illegal unicode escape)")


def main():
    ap = argparse.ArgumentParser()
    ap.add_argument("--repo", default="/repo")
    ap.add_argument("cases", nargs="*")
    a = ap.parse_args()
    sys.path.insert(0, a.repo)
    for name in a.cases or list(CASES):
        try:
            with contextlib.redirect_stderr(io.StringIO()):
                CASES[name]()
        except BaseException:
            print(f"HARNESS-ERROR {name}")
            traceback.print_exc(file=sys.stdout)


if __name__ == "__main__":
    main()
